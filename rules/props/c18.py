"""C18 — output channels agree, write failures surface, rendering is pure and thread-safe."""
from engine import (Tracer, EdgeFacts, find_calls, find_aggs, AnchorMissing, leaf_str, leaf_call_is, callee_def, callee_names, name_matches,
                    iter_operands, pl_str, TRANSPARENT_CALLS)
from props import c01

EXPLANATION = (
    "Type-level and MIR-level decision of C18's structural clauses: (SYNC) Send+Sync of the public engine/context/value/error types, "
    "queried from the type checker; (FREEZE) no UnsafeCell (hence no Cell/RefCell/Mutex/Atomic/Once*) is reachable through the fields of "
    "those types, walking external crates' fields too, Arc treated as transparent to its payload; (SELF) every render entry point takes "
    "&self and &Context, the VM and State hold shared references only; (STATIC/UNSAFE) frozen inventories of statics and unsafe calls; "
    "(IOERR) every io::Result produced by a call that receives the user's writer flows into `?` (or is returned) — none is dropped, "
    ".ok()-ed or unwrapped — so the first write failure returns an I/O error and what was accepted is a prefix; (WRAP) each String-returning "
    "variant only wraps its writer sibling with a local Vec and String::from_utf8, passing its own arguments through. Together: a render "
    "cannot modify engine or context, so repeated and concurrent renders of one instance see identical inputs. NOT decided: determinism of "
    "user callbacks; HashMap iteration order across different instances.")
NOT_DECIDED = "user-supplied filters/functions; cross-instance HashMap order"
ASSUMPTIONS = ["std::sync::Arc's only interior mutability is its reference counters", "dyn Fn + Send + Sync callbacks are themselves pure"]

SYNC_ROOTS = ["tera::Tera", "template::Template", "context::Context", "value::Value", "value::key::Key", "errors::Error", "errors::ErrorKind",
              "args::Kwargs", "errors::ReportError", "parsing::instructions::Chunk", "components::ComponentInfo"]
FREEZE_ROOTS = ["tera::Tera", "template::Template", "context::Context", "value::Value", "value::key::Key", "args::Kwargs", "parsing::instructions::Chunk"]
RENDER_API = ["render", "render_to", "render_str", "render_str_to", "render_component", "render_component_to", "render_block", "render_block_to"]
STATICS_ALLOWED = {
    "vm::state::MAGICAL_DUMP_VAR": "immutable &str",
    "value::Value::empty_map::EMPTY_MAP": "LazyLock<Arc<Map>> initialised once to the empty map, never mutated (its cell is the once-init flag)",
}
UNSAFE_ALLOWED = {
    ("value::SmartString::as_str", "std::str::from_utf8_unchecked"): "inline bytes were copied from a &str in SmartString::new (C07.UTF8)",
    ("filters::escape", "std::string::String::from_utf8_unchecked"): "buffer filled by escape_html from a &str (C07.UTF8)",
    ("vm::interpreter::VirtualMachine::<'tera>::interpret", "std::str::from_utf8_unchecked"): "scratch buffer just filled by Value::format (C07.UTF8)",
}


def run(ctx, rep):
    for cfg in ctx.tera_configs():
        crate = ctx.crate(cfg)
        check_sync(crate, rep, cfg)
        check_freeze(crate, rep, cfg)
        check_self(crate, rep, cfg)
        check_static_unsafe(crate, rep, cfg)
        check_ioerr(crate, rep, cfg)
        check_wrap(crate, rep, cfg)
        check_writer_identity(crate, rep, cfg)
    pos = ctx.posctl()
    # positive controls: a struct with a RefCell field; a dropped io::Result
    hits = unsafe_cell_paths(pos, "cellctl::HasCell")
    b = pos.bodies.get("cellctl::drops_result")
    dropped = bool(b) and bool(unpropagated_io_results(b))
    ok1 = ctx.control("C18.FREEZE", bool(hits))
    ok2 = ctx.control("C18.IOERR", dropped)
    if not (ok1 and ok2):
        raise AnchorMissing("positive controls: FREEZE=%s IOERR=%s" % (bool(hits), dropped))


def check_sync(crate, rep, cfg):
    n = 0
    for r in SYNC_ROOTS:
        a = crate.auto_traits.get(r)
        key = "C18.SYNC:%s" % r
        if a is None:
            rep.bad("C18.SYNC", key, "", "anchor-missing: type %s" % r)
            continue
        n += 1
        ok = a.get("send") and a.get("sync")
        (rep.ok if ok else rep.bad)("C18.SYNC", key, "", "%s: Send + Sync (type checker)" % r + ("" if ok else " — VIOLATED: send=%s sync=%s" % (a.get("send"), a.get("sync"))))
    rep.floor("C18.SYNC", "public types queried [%s]" % cfg, n, 10)


def unsafe_cell_paths(crate, root_name):
    tg = crate.type_graph
    nodes = tg["nodes"]
    root = next((r["id"] for r in tg["roots"] if r["name"] == root_name), None)
    if root is None:
        return None
    seen = {root: None}
    work = [root]
    hits = []
    while work:
        v = work.pop()
        n = nodes[v]
        if n.get("unsafe_cell"):
            hits.append(v)
            continue
        if n.get("adt") in ("std::sync::Arc", "std::sync::Weak"):
            ch = [int(x) for x in n.get("targs", [])][:1]
        else:
            ch = [f["id"] for f in n.get("fields", [])] + [int(x) for x in n.get("children", [])]
            if n.get("phantom"):
                ch += [int(x) for x in n.get("targs", [])]
        for w in ch:
            if w not in seen:
                seen[w] = v
                work.append(w)
    out = []
    for h in hits:
        path = []
        v = h
        while v is not None:
            path.append(nodes[v]["ty"][:70])
            v = seen[v]
        out.append(" <- ".join(path[:10]))
    return out if hits else []


def check_freeze(crate, rep, cfg):
    for r in FREEZE_ROOTS:
        hits = unsafe_cell_paths(crate, r)
        key = "C18.FREEZE:%s" % r
        if hits is None:
            rep.bad("C18.FREEZE", key, "", "anchor-missing: type-graph root %s" % r)
        elif hits:
            rep.bad("C18.FREEZE", key, "", "no interior mutability reachable from %s — VIOLATED: UnsafeCell via %s" % (r, hits[0]))
        else:
            rep.ok("C18.FREEZE", key, "", "no UnsafeCell reachable through the fields of %s (Arc transparent to its payload): a `&%s` cannot be used to "
                   "mutate it" % (r, r.rsplit("::", 1)[-1]))
    # dyn callbacks are Fn (not FnMut) + Send + Sync
    tg = crate.type_graph
    n = 0
    for node in tg["nodes"]:
        if node.get("k") == "dyn" and "Fn" in node.get("principal", ""):
            n += 1
            ok = node["principal"].endswith("::Fn") and {"std::marker::Send", "std::marker::Sync"} <= set(node.get("autos", []))
            key = "C18.FREEZE:dyn:%s" % node["ty"][:80]
            (rep.ok if ok else rep.bad)("C18.FREEZE", key, "", "stored callback is `dyn Fn + Send + Sync` (callable through a shared reference)" +
                                        ("" if ok else " — VIOLATED: %s autos=%s" % (node.get("principal"), node.get("autos"))))
    rep.floor("C18.FREEZE", "dyn callback types in the engine [%s]" % cfg, n, 3)


def check_self(crate, rep, cfg):
    n = 0
    for name in RENDER_API:
        b = crate.one("tera::Tera::" + name)
        n += 1
        ins = b.j.get("inputs", [])
        ok = bool(ins) and ins[0] == "&tera::Tera" and any(i == "&context::Context" for i in ins)
        key = "C18.SELF:Tera::%s" % name
        (rep.ok if ok else rep.bad)("C18.SELF", key, b.where(0), "Tera::%s takes `&self` and `&Context` (cannot mutate the engine or the context)" % name
                                    + ("" if ok else " — VIOLATED: inputs %s" % ins))
    rep.floor("C18.SELF", "render entry points [%s]" % cfg, n, 8)
    vm = crate.adts.get("vm::interpreter::VirtualMachine")
    st = crate.adts.get("vm::state::State")
    for adt, fields in ((vm, ("tera", "template")), (st, ("context", "global_context", "include_parent", "chunk", "filters"))):
        if adt is None:
            rep.anchor_missing("C18.SELF", "VirtualMachine/State")
            continue
        for f in adt.fields():
            if f["n"] in fields:
                ok = "&'" in f["ty"] and "&'tera mut" not in f["ty"] and "&mut" not in f["ty"]
                key = "C18.SELF:%s.%s" % (adt.path.rsplit("::", 1)[-1], f["n"])
                (rep.ok if ok else rep.bad)("C18.SELF", key, "", "%s.%s is a shared reference (%s)" % (adt.path.rsplit("::", 1)[-1], f["n"], f["ty"][:60])
                                            + ("" if ok else " — VIOLATED"))


def check_static_unsafe(crate, rep, cfg):
    for p, c in crate.consts.items():
        if c["kind"] != "static":
            continue
        key = "C18.STATIC:%s" % p
        ok = p in STATICS_ALLOWED and not c.get("mut")
        (rep.ok if ok else rep.bad)("C18.STATIC", key, "%s:%s" % (c["file"], c["line"]), "static %s: %s" % (p, STATICS_ALLOWED.get(p, "UNLISTED"))
                                    + ("" if ok else " — VIOLATED: new%s static (shared mutable state would break purity)" % (" mutable" if c.get("mut") else "")))
    n = 0
    for b in crate.bodies.values():
        if b.j.get("unsafe"):
            rep.bad("C18.UNSAFE", "C18.UNSAFE:unsafe-fn:%s" % b.path, b.where(0), "unlisted `unsafe fn`")
        for bb, t in b.calls():
            if not t["f"].get("unsafe"):
                continue
            x = (t.get("sp") or {}).get("x", "")
            if x.startswith("desugar:") or (x.startswith("macro:") and x.endswith(":ext")):
                continue   # format_args!/derive-generated
            n += 1
            root = crate.root_of(b).path
            k = (root, callee_def(t))
            key = "C18.UNSAFE:%s:%s" % (root, callee_def(t))
            ok = k in UNSAFE_ALLOWED
            (rep.ok if ok else rep.bad)("C18.UNSAFE", key, b.where(bb), "unsafe call %s in %s: %s" % (callee_def(t), root, UNSAFE_ALLOWED.get(k, "UNLISTED"))
                                        + ("" if ok else " — VIOLATED: unreviewed unsafe operation"))
    rep.floor("C18.UNSAFE", "unsafe calls (non-generated) [%s]" % cfg, n, 4)


IO_RESULT = "std::result::Result<(), std::io::Error>"
WRITER_FNS = ["value::Value::format", "value::format_map", "value::key::Key::<'a>::format", "utils::escape_html"]


def io_result_fate(body, local, depth=0):
    """what happens to an io::Result held in `local`: 'try' | 'return' | ('call', name) | 'dropped'"""
    fates = []
    for b2, idx, s in body.stmts():
        if idx == "t" and s["k"] == "call":
            for a in s["args"]:
                if a["k"] in ("copy", "move") and a["pl"]["l"] == local and not a["pl"]["p"]:
                    cd = callee_def(s)
                    fates.append("try" if cd == "std::ops::Try::branch" else ("call", cd))
        elif idx != "t" and s["k"] == "assign":
            for op in iter_operands(s):
                if op["k"] in ("copy", "move") and op["pl"]["l"] == local and not op["pl"]["p"]:
                    if s["pl"]["l"] == 0 and not s["pl"]["p"]:
                        fates.append("return")
                    elif not s["pl"]["p"] and depth < 4:
                        fates.append(io_result_fate(body, s["pl"]["l"], depth + 1))
                    else:
                        fates.append(("call", "stored:" + pl_str(s["pl"])))
    if not fates:
        return "dropped"
    for f in fates:
        if f not in ("try", "return"):
            return f
    return fates[0]


def unpropagated_io_results(body):
    """calls producing an io::Result<()> whose result neither feeds `?` nor is returned"""
    out = []
    for bb, t in body.calls():
        dl = t["dest"]["l"]
        if t["dest"]["p"] or body.local_ty(dl) != IO_RESULT:
            continue
        if callee_def(t) in ("std::ops::FromResidual::from_residual",):
            continue
        if dl == 0:
            continue    # returned directly
        fate = io_result_fate(body, dl)
        if fate in ("try", "return"):
            continue
        out.append((bb, t, None if fate == "dropped" else fate[1]))
    return out


def check_ioerr(crate, rep, cfg):
    bodies = [b for b in crate.in_files("vm/interpreter.rs")] + [b for b in crate.in_files("tera.rs") if "::render" in b.path] + \
        [crate.one(p) for p in WRITER_FNS]
    n = 0
    for b in bodies:
        rep.analysed(b)
        bad = {bb: used for bb, t, used in unpropagated_io_results(b)}
        k = 0
        for bb, t in b.calls():
            if t["dest"]["p"] or b.local_ty(t["dest"]["l"]) != IO_RESULT or callee_def(t) == "std::ops::FromResidual::from_residual":
                continue
            n += 1
            cd = "<escape_fn>" if t["f"].get("indirect") else callee_def(t).rsplit("::", 1)[-1]
            key = "C18.IOERR:%s:%s#%d" % (b.path, cd, k)
            k += 1
            what = "the io::Result of %s is propagated with `?` or returned (a write failure surfaces as an I/O error; nothing after it is written)" % cd
            if bb in bad:
                rep.bad("C18.IOERR", key, b.where(bb), what + " — VIOLATED: result %s" % (("passed to " + bad[bb]) if bad[bb] else "dropped"))
            else:
                rep.ok("C18.IOERR", key, b.where(bb), what)
    rep.floor("C18.IOERR", "io::Result-producing calls on the writer paths [%s]" % cfg, n, 30)
    # the writer is only driven through write_all / write_fmt (which loop until everything is accepted or fail): a bare `write`
    # may accept fewer bytes and its count would have to be handled
    for b in bodies:
        k = 0
        for bb, t in b.calls():
            if callee_def(t) == "std::io::Write::write":
                rep.bad("C18.IOERR", "C18.IOERR:%s:partial-write#%d" % (b.path, k), b.where(bb), "Write::write on the output path: a short write silently drops the rest of the "
                        "data while the render still returns Ok (use write_all)")
                k += 1
    rep.ok("C18.IOERR", "C18.IOERR:no-partial-writes", "", "no call of Write::write (partial write) on the writer paths; only write_all / write_fmt / the escaper")
    # the writer's failure also travels as a TeraResult through the nested renders (include, component, block, super): whatever kind of
    # error a nested render returns, the instruction that called it must end in a return — not only for the kind it decorates
    import rrec
    vm = crate.one("vm::interpreter::VirtualMachine::<'tera>::interpret")
    heads = {bb for bb, t in find_calls(vm, ["parsing::instructions::Chunk::get"])}
    ef = EdgeFacts(vm, crate)
    tr = Tracer(vm)
    k = 0
    for bb, t in vm.calls():
        cd = callee_def(t)
        if not (cd.endswith("::render_include") or cd.endswith("::render_component") or cd.endswith("VirtualMachine::<'tera>::interpret")):
            continue
        # switches on the discriminant of this call's Result (directly, or after `?`'s branch())
        err_targets = []
        for sb in sorted(vm.reachable):
            st = vm.term(sb)
            if st["k"] != "switch" or st["op"]["k"] == "const" or st["op"]["pl"]["p"]:
                continue
            d = ef.single_def(st["op"]["pl"]["l"])
            if not (d and d[3]["k"] == "discr"):
                continue
            src = [l for l in tr.place(d[3]["pl"]) if l.kind != "cycle"]
            if not (src and any(l.kind == "call" and l.detail[2] == bb for l in src) and
                    all(l.kind == "call" and not [p for p in l.projs if p.startswith("as:") or p.startswith(".")] for l in src)):
                continue
            for tgt, fl in ef.facts_for_switch(sb).items():
                for f in fl:
                    if f[0] == "variant" and f[4] and set(f[3]) <= {"Err", "Break"} and f[3] and tgt != sb:
                        err_targets.append(tgt)
        ok = bool(err_targets)
        why = "no test of the nested result found"
        for tgt in err_targets:
            if vm.reach_from(tgt) & heads:
                ok = False
                why = "from the Err edge at %s the next instruction is reachable (an error of some kind is dropped and rendering goes on)" % vm.where(tgt)
        rep.add("C18.IOERR", "C18.IOERR:vm:%s#%d:error-always-returns" % (cd.rsplit("::", 1)[-1], k), ok, vm.where(bb), "an Err from the nested render ends the instruction in a "
                "return, whatever its kind (an I/O failure inside an include / component / block is not swallowed)" + ("" if ok else " — VIOLATED: " + why))
        k += 1
    rep.floor("C18.IOERR", "nested renders whose Err edge is checked [%s]" % cfg, k, 6)
    # ... and the entry point hands it on: in VirtualMachine::render_to no Ok is built on a path that has seen an Err of interpret / write_all
    # (an error of a particular kind "forgiven" there makes a truncated render look successful)
    rt = crate.one("vm::interpreter::VirtualMachine::<'tera>::render_to")
    efr = EdgeFacts(rt, crate)
    trr = Tracer(rt)
    oks = {bb for bb, idx, st in find_aggs(rt, "std::result::Result", "Ok")}
    err_t = []
    srcs = {bb for bb, t in rt.calls() if callee_def(t).endswith("VirtualMachine::<'tera>::interpret") or callee_def(t).endswith("Write::write_all")}
    for sb in sorted(rt.reachable):
        st = rt.term(sb)
        if st["k"] != "switch" or st["op"]["k"] == "const" or st["op"]["pl"]["p"]:
            continue
        d = efr.single_def(st["op"]["pl"]["l"])
        if not (d and d[3]["k"] == "discr"):
            continue
        src = [l for l in trr.place(d[3]["pl"]) if l.kind != "cycle"]
        if not (src and any(l.kind == "call" and l.detail[2] in srcs for l in src)):
            continue
        for tgt, fl in efr.facts_for_switch(sb).items():
            for f in fl:
                if f[0] == "variant" and f[4] and f[3] and set(f[3]) <= {"Err", "Break"} and tgt != sb:
                    err_t.append(tgt)
    ok = bool(err_t) and bool(srcs)
    why = "no test of interpret's result found"
    for tgt in err_t:
        if rt.reach_from(tgt) & oks:
            ok, why = False, "an Ok is built after an Err was seen (%s)" % rt.where(tgt)
    rep.add("C18.IOERR", "C18.IOERR:render_to:an-error-stays-an-error", ok, rt.where(0), "VirtualMachine::render_to returns every Err of interpret / write_all as an Err (no Ok "
            "reachable from an Err edge)" + ("" if ok else " — VIOLATED: " + why))
    # From<io::Error> for Error builds ErrorKind::Io
    f = [b for p, b in crate.bodies.items() if "From<std::io::Error>" in p and "errors" in p]
    ok = False
    if f:
        ok = any(True for _ in find_aggs(f[0], "errors::ErrorKind", "Io"))
        for bb, t in f[0].calls():
            tgt = crate.bodies.get(t["f"].get("res") or t["f"]["def"])
            if tgt is not None and any(True for _ in find_aggs(tgt, "errors::ErrorKind", "Io")):
                ok = True
    rep.add("C18.IOERR", "C18.IOERR:From<io::Error>", ok, f[0].where(0) if f else "", "`?` on an io::Error builds ErrorKind::Io" + ("" if ok else " — VIOLATED"))


WRAPPERS = {
    "tera::Tera::render_str": "render_str_to", "tera::Tera::render_component": "render_component_to",
    "vm::interpreter::VirtualMachine::<'tera>::render": "render_to", "vm::interpreter::VirtualMachine::<'tera>::render_block": "render_to",
}
CORE_PAIRS = {  # public sibling pairs that both reach the VM's render / render_to
    ("tera::Tera::render", "vm::interpreter::VirtualMachine::<'tera>::render"),
    ("tera::Tera::render_to", "vm::interpreter::VirtualMachine::<'tera>::render_to"),
    ("tera::Tera::render_block", "vm::interpreter::VirtualMachine::<'tera>::render_block"),
    ("tera::Tera::render_block_to", "vm::interpreter::VirtualMachine::<'tera>::render_to"),
}


def check_writer_identity(crate, rep, cfg):
    """C18.IOERR — the bytes and the I/O errors of a `*_to` call are the caller's writer's: on the render paths the writer parameter is
    handed on as it is (or a fresh local Vec / io::sink is used and then written with `write_all`), never wrapped in another writer type.
    A buffering wrapper changes which call sees the error (its Drop flushes and swallows it)."""
    n = 0
    for b in crate.bodies.values():
        if b.kind == "const" or not any(x in (b.j.get("file") or "") for x in ("vm/interpreter.rs", "tera.rs")):
            continue
        wparams = [i for i in range(1, b.arg_count + 1) if "Write" in b.local_ty(i)]
        if not wparams:
            continue
        tr = Tracer(b)
        # every call that receives something derived from the writer parameter: the receiving parameter type must be a reference to / the
        # writer itself, and the value must be the parameter (reborrowed), not the result of a constructor taking it
        k = 0
        for bb, t in b.calls():
            for ai, a in enumerate(t["args"]):
                ls = tr.operand(a)
                if not ls or not any(l.kind == "param" and l.detail in wparams for l in ls):
                    continue
                n += 1
                cd = callee_def(t)
                local_callee = cd in crate.bodies or any(x in crate.bodies for x in callee_names(t))
                std_write = cd.startswith("std::io::Write::") or cd.endswith("::deref_mut") or cd.endswith("::deref") or cd.endswith("::by_ref") or "fmt::Arguments" in cd \
                    or cd.endswith("::borrow_mut") or cd.endswith("::as_mut")
                indirect = t["f"].get("indirect")
                ok = local_callee or std_write or bool(indirect)
                key = "C18.IOERR:%s:writer-handed-on#%d" % (crate.root_of(b).path, k)
                k += 1
                rep.add("C18.IOERR", key, ok, b.where(bb), "the caller's writer is only handed to the engine's own functions, the escape callback or std::io::Write methods"
                        + ("" if ok else " — VIOLATED: passed to %s: a wrapper around the caller's writer decides when (and whether) its errors are reported" % cd))
    rep.floor("C18.IOERR", "uses of a writer parameter on the render paths [%s]" % cfg, n, 10)


def check_wrap(crate, rep, cfg):
    for path, sib in WRAPPERS.items():
        b = crate.one(path)
        rep.analysed(b)
        vecs = [i for i, l in enumerate(b.locals) if l["ty"] == "std::vec::Vec<u8>" and i > b.arg_count]
        calls = [(bb, t) for bb, t in b.calls() if callee_def(t).endswith("::" + sib)]
        key = "C18.WRAP:%s" % path
        what = ("%s only wraps %s: one local Vec<u8> used as its writer and then in String::from_utf8; every other argument is the wrapper's own "
                "parameter" % (path.rsplit("::", 1)[-1], sib))
        if len(calls) != 1:
            rep.bad("C18.WRAP", key, b.where(0), what + " — VIOLATED: %d calls of the sibling" % len(calls))
            continue
        bb, t = calls[0]
        tr = Tracer(b)
        ok = True
        why = ""
        wrote_vec = False
        for a, aty in zip(t["args"], t["atys"]):
            leaves = tr.operand(a)
            if "Vec<u8>" in aty:
                wrote_vec = all(l.kind == "call" and (leaf_call_is(l, "std::vec::Vec::<T>::new", "std::vec::Vec::<T>::with_capacity")) for l in leaves)
                if not wrote_vec:
                    ok, why = False, "writer origin %s" % sorted(leaf_str(l) for l in leaves)[:2]
                continue
            for l in leaves:
                if l.kind == "param":
                    continue
                if l.kind == "agg" and l.detail[1] == "std::option::Option":
                    continue
                if l.kind == "const":
                    continue
                ok, why = False, "argument origin %s" % leaf_str(l)
        # other uses of the Vec: only String::from_utf8
        other = set()
        for b2, t2 in b.calls():
            if b2 == bb:
                continue
            for a in t2["args"]:
                if a["k"] in ("copy", "move") and any(l.kind == "call" and leaf_call_is(l, "std::vec::Vec::<T>::new", "std::vec::Vec::<T>::with_capacity")
                                                      for l in tr.operand(a)) and "Vec<u8>" in b.local_ty(a["pl"]["l"]):
                    other.add(callee_def(t2))
        extra = {o for o in other if o not in ("std::string::String::from_utf8",)}
        if extra:
            ok, why = False, "the buffer is also passed to %s" % sorted(extra)
        if not wrote_vec:
            ok = False
            why = why or "no local Vec<u8> writer"
        (rep.ok if ok else rep.bad)("C18.WRAP", key, b.where(bb), what if ok else what + " — VIOLATED: " + why)
        # ... and it has no answer of its own: whatever it returns without having called the sibling is an error being propagated
        # (`?`) — never a value computed on a shortcut ("nothing to render here") that the `_to` form would compute differently
        short = []
        for b2, i2, st in b.stmts():
            if i2 == "t":
                if st["k"] == "call" and st["dest"]["l"] == 0 and not st["dest"]["p"] and not b.dominates(bb, b2):
                    if not callee_def(st).endswith("FromResidual::from_residual"):
                        short.append(b2)
            elif st.get("k") == "assign" and st["pl"]["l"] == 0 and not st["pl"]["p"] and not b.dominates(bb, b2):
                rv = st["rv"]
                if not (rv["k"] == "agg" and rv.get("variant") == "Err"):
                    short.append(b2)
        rep.add("C18.WRAP", key + ":no-shortcut", not short, b.where(short[0]) if short else b.where(bb), "every value %s returns is produced after the call of %s "
                "(before it, only `?` propagation of an error)" % (path.rsplit("::", 1)[-1], sib) + ("" if not short else " — VIOLATED: a result is built on a path that never calls the sibling"))
    for a, core in CORE_PAIRS:
        b = crate.one(a)
        calls = [(bb, t) for bb, t in b.calls() if callee_def(t) == core]
        key = "C18.WRAP:%s->%s" % (a, core.rsplit("::", 1)[-1])
        ok = len(calls) == 1
        if ok:
            tr = Tracer(b)
            bb, t = calls[0]
            # context / global context / block name are passed through
            for aop in t["args"][1:]:
                for l in tr.operand(aop):
                    if l.kind not in ("param", "const", "agg"):
                        ok = False
        (rep.ok if ok else rep.bad)("C18.WRAP", key, b.where(0), "%s hands its own arguments (context, &self.global_context, block name, writer) to the VM's %s" % (
            a.rsplit("::", 1)[-1], core.rsplit("::", 1)[-1]) + ("" if ok else " — VIOLATED"))
