#!/usr/bin/env python3
"""Regenerates /verif/MANIFEST.json from the per-property modules that exist under rules/props and the tables below."""
import json
import os
import sys

HERE = os.path.dirname(os.path.abspath(__file__))
VERIF = os.path.dirname(HERE)
sys.path.insert(0, HERE)

CLAIMS = {
    # id: (technique, level text, level note, design ref)
    "C01": ("CFG cut-set (reachability with permit edges removed) over the VM's MIR; frozen mint-point table with provenance/dominance conditions; per-variant tables",
            "Static taint discipline decided for every path of the VM: no call hands a value to an output sink except the escaper, a Value::format "
            "that is unreachable without the autoescape-off / is_safe(same value) permit edges, template text, or the VM itself; the safe mark is "
            "minted only at the reviewed points whose conditions (popped capture, component result, super() buffer, registered-safe flag's true "
            "edge, inherited kind) are checked on the MIR; Array/Map/Bytes are never safe; the default escaper handles & < > \" ' with constants "
            "free of specials; override plumbing into child VMs. A test sees the paths one template takes; this is over all paths and all "
            "present/future sites. Does not decide user escape functions or safe-registered filters.",
            "trusts rustc's MIR/trait resolution; pulldown-cmark-escape under fast_escape",
            "DESIGN.md §5 C01"),
    "C02": ("finite-table extraction from MIR (binding powers, operator spellings) compared with the documentation table; normal-form check of the Pratt cut-off; dominance order of short-circuit emission",
            "Static decision that the code's precedence/associativity table equals the documented one for all 19+2 operators (exhaustive over the "
            "operator set, keyed by the code's own spelling), that the Pratt cut-off is the strict `<` against min_bp leaving the loop, that the "
            "right operand uses r_bp, that and/or/ternary compile to (and the VM executes) the short-circuit order, and that every and/or node "
            "opens and patches its own jump (lands right after its own right operand). A suite samples "
            "expressions; this covers every operator pair. Does not decide the values operators produce or the undefined rules.",
            "trusts rustc's MIR; the docs table as the specification",
            "DESIGN.md §5 C02"),
    "C09": ("set agreement between optimiser loops and VM arms read off the MIR; path-sensitive product exploration for the jump-target guard; construction inventory",
            "Static decision of the property's structural sentence: the jump-carrying opcode set agrees in the marking loop, the fix-up loop and "
            "the VM; no instruction can be absorbed into a fused group unless is_jump_target[j] was tested false since j last changed (explored "
            "over all paths incl. the has_write flag); the pass builds only path-fusion instructions and moves everything else unchanged; all "
            "jump payloads are rewritten through the index map; the fused LoadPath/WritePath arms keep the unfused rule for a missing attribute "
            "(undefined only for the last segment, error otherwise). Does not decide the remaining semantic equality of the fused VM arms.",
            "trusts rustc's MIR",
            "DESIGN.md §5 C09"),
    "C10": ("who-may-write / who-may-read inventories; no-error-after-commit reachability; undo-list def-use; must-pass-through finalize",
            "Static decision of the atomicity skeleton: undo recording and reverse restore in every adder, a single commit point in "
            "finalize_templates with no error exit reachable after it, derived fields written only there and never read by the code that "
            "computes them (history independence), the reviewed mutator set each reaching finalize. Does not decide behavioural equivalence "
            "with a fresh instance.",
            "trusts rustc's MIR",
            "DESIGN.md §5 C10"),
    "C12": ("provenance (def-use) of report name/source arguments; must-pass-through set_source; chunk-name provenance; reviewed panic sites of the report printer",
            "Static decision that every rendering report takes (name, source) from one report_target call on the executing chunk, that "
            "report_target returns both components of the same template (tera.templates[chunk.name] or the VM's own), that every chunk is named "
            "after its defining template, that registration-time reports pair name/source of one template, and that no syntax error leaves "
            "Template::new without its source; and that the tokenizer's line / column / byte counters move in lock-step per char "
            "(byte += len_utf8, column += 1 or line += 1 & column = 0) and every Span reads them (so line:column is consistent with the byte range). "
            "Does not decide that a span covers the offending token.",
            "trusts rustc's MIR",
            "DESIGN.md §5 C12"),
    "C14": ("provenance of str slicing offsets (char_indices / grapheme_indices only); dominance guards on index arithmetic, narrowing casts and the zero-step test",
            "Static decision, per feature configuration, that no str is byte-sliced except at char-boundary offsets, that the raw integer sites "
            "of index resolution keep their guards, that narrowing casts are consumed only under the range test, and that a zero step errors "
            "before any loop, and that an index is normalised against the len() of the very sequence it then indexes (chars, not bytes). "
            "Does not decide equality with Python's clamping.",
            "trusts rustc's MIR; std/unicode-segmentation index iterators",
            "DESIGN.md §5 C14"),
    "C16": ("callee identity of the order consumers (sort_by comparator, BTreeSet) + the C15.ORD pair walk; reviewed panic-site table for collection filters",
            "Static decision that sort/unique order through Ord for Value (whose totality skeleton is re-checked), that sort's non-empty Ok returns "
            "lie behind ensure_comparable (run on the sorted sequence), that first/last/nth use Option-returning accessors, that join/split "
            "delegate separator placement to std's join/split with the keyword argument over every element, and that the panic-capable sites of the filters are "
            "exactly the reviewed set. Does not decide permutation/stability/partition laws.",
            "trusts rustc's MIR; std sort stability",
            "DESIGN.md §5 C16"),
    "C17": ("reviewed panic-site table (multiset inclusion) for built-ins and argument extraction; dominance guards on std preconditions; iterable-kind table agreement",
            "Static decision that the places where a built-in could panic are exactly the reviewed ones (a new unwrap/index/raw signed arithmetic/"
            "panicking std call is reported), that from_str_radix, repeat and range's allocation keep their guards, and that the iterable test "
            "agrees with the VM's iterator factory. Does not decide the filters' documented contracts.",
            "trusts rustc's MIR; the reasons in tables/panic_sites.json are reviewed by reading, not proved",
            "DESIGN.md §4.2, §5 C17"),
    "C19": ("cast classification; three-way variant table agreement (serializer / deserializer / Serialize for Value) by variant walk; per-method Ok/Err inventory of the key serializer",
            "Static decision that the serde bridge uses only lossless casts, that serializer, deserializer and re-serializer agree on the class of "
            "every ValueInner variant and every serializer method, that unsupported map-key kinds are refused with a constant Err, and that map "
            "printing sorts. Does not decide round-trip equality over the data model.",
            "trusts rustc's MIR; serde's visitor narrowing contract",
            "DESIGN.md §5 C19"),
    "C13": ("absence analysis of raw/wrapping integer operations over the arithmetic call tree; callee-identity table; cast classification with dominance guards",
            "Static decision that integer arithmetic on the operator paths is exclusively checked_* with None => Err, that each operator uses the "
            "callee that makes the property's formulas hold (euclidean rem/div, checked_pow with u32::try_from), that `/` is a float division "
            "behind the zero test, that the comparison skeleton has no lossy cast of a compared value, and that integer conversions only widen "
            "or go through TryFrom. Absence over all code, which tests cannot show. Does not decide float results.",
            "trusts rustc's MIR and std's checked integer methods",
            "DESIGN.md §5 C13"),
    "C18": ("type-checker queries (Send/Sync), cross-crate field-type walk for UnsafeCell, signature checks, inventories, io::Result propagation dataflow",
            "Type-level decision that the public types are Send+Sync and contain no interior mutability (so `&self`/`&Context` renders cannot "
            "modify them: purity and thread-safety follow), plus MIR-level decision that every io::Result from the user's writer is propagated "
            "(first failure returns Err, accepted bytes are a prefix) and that String variants only wrap their writer siblings. Does not decide "
            "determinism of user callbacks.",
            "trusts rustc's type checker and std's Arc",
            "DESIGN.md §5 C18"),
    "C20": ("compile-time evaluation (CTFE) of the percent-encode masks and base64 engine constants, exhaustive over 128 ASCII codes; MIR table of engine selection",
            "Exhaustive static decision over all 128 ASCII codes that urlencode escapes exactly the complement of the unreserved set (+ '/'), that "
            "urlencode_strict escapes every non-alphanumeric, that encoder and decoder share the alphabet per url_safe and decoders accept both "
            "paddings, and that json_encode/slug delegate verbatim. Third-party crate behaviour is trusted, not decided.",
            "trusts percent-encoding, base64, serde_json, slug crates",
            "DESIGN.md §5 C20"),
    "C05": ("who-may-write inventory over State fields; dominance-checked depth guard; provenance of the component context; edge conditions of every insert into the built context",
            "Static decision of the isolation/recursion skeleton: State.global_context / include_parent have exactly one writer each, both "
            "component entry points build their State from build_context's result and assign nothing but `filters`, the component re-entry is "
            "dominated by the depth test with depth+1 carried into the child VM and through includes, both entry points share the builder and mint "
            "the result safe; and the binding skeleton of build_context (fresh context; provided value type-checked then bound; default only when "
            "missing; missing without default, type mismatch and unknown arguments end in Err; undeclared keys to the rest map only when declared; "
            "rest/body only when present). Does not decide the type relation itself nor priority resolution (value-level).",
            "trusts rustc's MIR; stack holds 20 nested interpret frames",
            "DESIGN.md §5 C05"),
    "C07": ("call-graph cycle analysis with depth-guard dominance (VM re-entries, value traversals); def-use pairing of the reference chain; who-may-call on registries",
            "Static decision of: every VM re-entry bounded by a dominating guard; the reference chain (emit => record => merge => validate all five "
            "kinds => on every acceptance path => panicking lookups keyed by validated names => registries only grow) for all present and future "
            "emission sites; value-depth recursion of format/==/</cmp/serialize/drop is reported as KNOWN findings with confirmed overflowing "
            "inputs. Does not decide VM value-stack balance or the reasons behind reviewed panic sites.",
            "trusts rustc's MIR; registered callbacks; stack sufficiency for the bounded nesting",
            "DESIGN.md §4.1, §5 C07, §6"),
    "C11": ("must-run / dominance checks on finalize_templates; visited-set witness on both graph walks; VM re-entry guards",
            "Static decision that both graph walks run for every template before any commit with errors propagated, that every include edge "
            "emitted anywhere is recorded for them, that each walk's descent is dominated by the negative membership test with the path set "
            "extended first (depth <= number of templates), and that rendering cannot recurse without bound even for cycles invisible at add "
            "time. Does not decide the exactness of the visited-set logic.",
            "trusts rustc's MIR; stack sufficiency for the bounded nesting",
            "DESIGN.md §5 C11"),
    "C06": ("call-graph cycle analysis with dominance-checked depth guards; loop progress (must-consume) analysis over MIR",
            "Static decision over the type-checked MIR of the add path: every recursion cycle is cut by a counter-against-constant guard "
            "that dominates the recursive call, or is a strict structural descent / visited-set walk (machine-checked witness); every "
            "AST-deepening loop charges a bounded depth budget; every lexer/parser loop consumes input or exhausts a std iterator. "
            "This decides the 'no unbounded recursion, no hang' clauses for ALL inputs (what a fuzz corpus cannot); it does not decide "
            "that limit x frame size fits the stack, nor the value-level reasons behind individual panic sites.",
            "trusts rustc's MIR and trait resolution, std iterator termination, and that the thread stack holds the bounded depth",
            "DESIGN.md §4.1, §5 C06"),
    "C08": ("typestate dataflow over the whitespace filter's MIR; provenance (def-use) of text payloads",
            "Static typestate check: on every path from every token arm of the whitespace filter to return, the carried trim flag is "
            "consumed or overwritten (so a '-' marker only trims the directly adjacent token); the end-trim look-ahead covers every start "
            "token and is present in every arm that hands on literal text (Content, RawContent); literal text payloads flow lexer->parser->compiler through identity/trim/split only. Decides these structural clauses "
            "for all inputs; does not decide byte-for-byte output equality.",
            "trusts rustc's MIR, std str::trim_*/split_at contracts",
            "DESIGN.md §5 C08"),
    "C15": ("exhaustive walk of the finite variant-pair domain (144 + 49 pairs) through the MIR of the comparison impls",
            "Static, exhaustive over the tag domain: no pair of equal kind-rank can reach the rank fallback of Ord::cmp (for Value and "
            "Key), the results for such pairs come from Ord/Iterator::cmp or partial_cmp's Some payload, Key's Eq/Ord/Hash share the "
            "as_str/as_number normalisers, every sign-changing cast in KeyNumber is guarded, and KeyNumber's Hash writes the same "
            "(type, tag) sequence for a non-negative Signed as for an Unsigned value. This is the totality / Eq-consistency "
            "skeleton of the order; payload-level laws are not decided.",
            "trusts rustc's MIR and std's Ord impls of primitives, slices and iterators",
            "DESIGN.md §5 C15"),
}

CLAIMS["C03"] = (
    "first-match chain order (reachability/dominance) of the scope lookups; who-may-write inventories; must-pass-through clear on loop advance; finite name->counter tables "
    "read off the MIR of parser and VM; type-level read-only includer state; emission-order skeletons of if/for in the compiler",
    "Static decision of the clauses of C03 whose truth is in the shape of the code: name resolution consults loops (innermost first), assignments, "
    "includer, context, global in that order and a hit returns at once; `set` writes the innermost loop frame else the render-wide map, `set_global` "
    "the render-wide map, with compiler and VM agreeing on the opcodes; every advance to a further element clears the per-iteration assignments; the "
    "loop counters follow index = index0 + 1, first = false after the first, last = (index == length), with an exact element count (chars for strings) "
    "behind loop.length; the render-time State has only the reviewed fields; the parser's loop.X table and the VM's table "
    "agree; an include runs on a fresh State linked to the includer only through `&State` (a type without interior mutability) and writes into the "
    "innermost open capture; continue/break/for-else/if compile and execute against the innermost loop with the documented skeleton. For all "
    "templates and contexts, which a snapshot per construct cannot give. Does NOT decide the rendered text of arbitrary statement trees "
    "(value-level composition of these clauses) nor the numeric values of jump targets.",
    "trusts rustc's MIR; std collections/iterators (Rev, BTreeMap/HashMap get/insert)",
    "DESIGN.md §5 C03")

CLAIMS["C04"] = (
    "cross-site orientation agreement of the parent chain (producer reverse <-> consumers first()/Rev); dominance/edge conditions of the lineage loops in finalize_templates; "
    "callee identity (entry().or_insert, rposition); index-expression tables and set/restore must-pass-through in the VM's RenderBlock / super() arms",
    "Static decision of the clauses of C04 that are choices visible in the code: the parent chain's orientation agrees between find_parents, the root choice of render and "
    "both lineage loops (nearest ancestor first); a lineage starts with the own definition, appends an ancestor's definition only where the ancestor defines the block, only "
    "while the definition just appended calls super() and only if the own one does; inherited blocks never overwrite (entry().or_insert); orphan child blocks are refused; "
    "RenderBlock uses the most-derived template's lineage, element 0, level 0; super() takes the topmost matching active block, runs level + 1 and restores the level on "
    "every path, and renders on every call (no memo); a lineage walk depends on the own super() test alone; the render runs the root's chunk on the most-derived "
    "template's VM; single-block rendering captures exactly on `capture_block == Some(this block)` with the capture stack put aside and "
    "returns that buffer. For all chains and nestings. Does NOT decide that these compose to the documented output (value-level), nor order independence beyond C10.DERIVED.",
    "trusts rustc's MIR; std Vec::reverse / Rev / HashMap entry API",
    "DESIGN.md §5 C04")

# clauses added by later seed rounds (appended to the level text)
EXTRA = {
    "C01": "The fusion pass builds no text writes out of value writes (C09.ONLY, shared). The suffix rule itself is `suffixes.iter().any(|s| key.ends_with(s))` on the registered name and the stored suffix as they are. The default escaper writes input bytes raw only one at a time behind its five-way switch, or as a run cleared by a search that stops at all five specials.",
    "C02": "`a.b` / `a?.b` push get_attr's answer or undefined, never the popped base. `~` always pushes a string built from both operands. `x in array` is <[Value]>::contains — element-wise `==` of Value. The fused LoadPath arm keeps the one-level-of-undefined rule (C09.FUSED, shared). `x[i]` and `x[a:b:c]` push only the Ok payload of the one typed lookup (Value::get_item / Value::slice) on the popped base, so its type errors are raised, never coerced to undefined.",
    "C03": "A plain variable read is get_value(name) on every path (load_name); the fusion pass rebuilds no jump (C09.ONLY, shared). `loop.X` is rewritten exactly under `is_in_loop()`, which is a pure membership test for an enclosing for loop (captures in between do not hide it).",
    "C04": "Template::new compiles the parser's whole node list (blocks nested in a child's filter sections are overrides). Every path through the RenderBlock arm to the next instruction runs the block (no block is stepped over); the current block name is set for the nested run and the enclosing one put back on every path.",
    "C07": "Both child VMs carry both depth counters (C05.REC/SAME, shared); resolve_index's casts and arithmetic are guarded (C14.ARITH/CAST, shared).",
    "C05": "Type::matches_value decides by kind only (integer = the four integer kinds, float = F64). The VM a component body runs in takes tera, template, the escaping override and the include depth from the calling VM. The component-priority table of finalize_templates holds (template, its priority) pairs, changed only by inserting a whole pair, an existing one only on the strictly-higher-precedence edge.",
    "C08": "The lexer's scanning loops and searches are the reviewed ones (C06.LEXPROG, shared). Only validated 2-byte delimiters reach the lexer (C06.DELIM, shared). The fusion pass moves text instructions along unchanged (C09.ONLY, shared). The three whitespace decisions of a raw block read the dash at their own position (provenance against skip_tag's after-the-name flag).",
    "C09": "The unfused LoadName resolves through get_value on every path (C03.SCOPE load_name, shared). Both fused arms resolve the path's first segment with State::get_value directly (like LoadName). The fused WritePath arm branches on the same two answers as WriteTop (VirtualMachine::autoescape_enabled(), Value::is_safe()).",
    "C10": "add_file answers Ok only after the insert, with the insert's previous value (what the undo log records).",
    "C12": "A slice result carries the sliced value's own span. report_target uses the executing VM's own template only on the name-equality edge. Span::expand copies the end triple from one span. Parser::new tokenizes exactly the source it was given and Template::new parses the string it stores (spans index the reported text). An error of a nested render (include, component) leaves the interpreter only through the place that adds the `called from` note.",
    "C14": "String results are built through SmartString's reviewed constructors (C07.UTF8) and value/mod.rs has only reviewed panic sites (R-PANIC.value), both shared. The Slice / subscript arms add no route of their own around Value::slice / Value::get_item (C02.LOOKUP, shared).",
    "C17": "title / capitalize consume char case mappings whole. round leaves the value unscaled only for precision 0. Type tests decide by kind only (integer = number and not float); first/last/nth are slice::first/last/get. Eight string filters are reviewed as std delegations (exact callee set, no loop of their own).",
    "C19": "Integer keys sort numerically (C15.KEYNUM ord, shared). deserialize_enum hands the variant access Some(entry value) for the map encoding unconditionally.",
    "C11": "Tera.fallback_prefixes (an input of name resolution) changes only while no template is registered.",
    "C15": "The `get` filter is one lookup of Key::Str(key) with the key untouched. get_attr's small-map scan only stops on a match (dot access agrees with keyed lookup). KeyNumber::cmp compares same-sign payloads directly; no float->int cast outside the reviewed, range-guarded functions (C13.CONV, shared).",
    "C20": "b64_decode returns the UTF-8 error of String::from_utf8 (nothing lossy). b64_encode is one Engine::encode call on the whole input.",
    "C13": "Every float->int cast is in a reviewed function behind two range tests. Two floats are compared with IEEE partial_cmp, NaNs placed by is_nan only where that is undecided; no comparison function looks at a float's bit pattern.",
    "C16": "Value::reverse answers with a value of the kind it was given (per arm; this rule found the bytes defect F7). first/last/nth are slice::first/last/get (C17.DELEG, shared). `group_by` creates a group only on the key-absent edge of a lookup (never overwrites one). `unique` keeps an element exactly when BTreeSet<Value> says it is new; no second membership structure takes part.",
    "C18": "VirtualMachine::render_to builds no Ok after an Err was seen. An Err of a nested render (include, component, block, super) always ends the instruction in a return, whatever its kind. A String-returning wrapper builds no result of its own before calling its `_to` sibling.",
}

NA_REASONS = {
    "C04": "which block definition wins and what super() yields depend on lineage values computed at registration; no structural "
           "clause short of re-implementing the resolver; the unbounded-recursion shape found is handled under C07/C11",
}


def main():
    props = [json.loads(l) for l in open(os.path.join(VERIF, "properties.jsonl"))]
    have = {f[:-3].upper() for f in os.listdir(os.path.join(HERE, "props")) if f.startswith("c") and f.endswith(".py")}
    checks, na = [], []
    for p in props:
        pid = p["id"]
        if pid in have and pid in CLAIMS:
            tech, text, note, ref = CLAIMS[pid]
            if pid in EXTRA:
                text = text + " Added by later seed rounds: " + EXTRA[pid]
            checks.append({
                "property_id": pid,
                "quick_cmd": "./bin/verif check %s --tier quick" % pid,
                "thorough_cmd": "./bin/verif check %s --tier thorough" % pid,
                "evidence_file": "/verif/evidence/%s.json" % pid,
                "replay_cmd_template": "./bin/verif explain {path}",
                "engine": "tvdriver+rules",
                "level_claimed": {"category": "other", "text": text, "design_ref": ref},
                "level_note": note,
                "technique": "static analysis: " + tech,
            })
        else:
            na.append({"property_id": pid, "reason": NA_REASONS.get(pid, "check not yet built in this session; not claimed until its rules exist (see DESIGN.md §9)")})
    m = {
        "version": 1,
        "setup_cmd": "./bin/verif setup",
        "hooks": {"guard": "tera_verif", "enable": "none needed: static analysis reads /repo's source as it is; no hook commits exist",
                  "baseline_off_cmd": "cd /repo && cargo test --workspace --no-fail-fast --offline",
                  "source_commits": [], "add_only": True},
        "engines": [{"name": "tvdriver+rules", "path": "/verif/driver + /verif/rules",
                     "serves_properties": [c["property_id"] for c in checks],
                     "kind_free_text": "rustc_private fact extractor (MIR, resolved callees, types, CTFE constants) run under cargo +nightly check on "
                                       "/repo's current tree; python rule engine (CFG, dominators, def-use provenance, variant walks, call-graph cycles)"}],
        "checks": checks,
        "notes": "Technique family: static analysis. Every check re-extracts facts from /repo's current working tree (content-hash cache) and "
                 "decides structural clauses named in level_claimed.text; fixes of genuine defects are listed in known_findings.txt.",
        "not_applicable": na,
    }
    with open(os.path.join(VERIF, "MANIFEST.json"), "w") as f:
        json.dump(m, f, indent=1)
    print("MANIFEST: %d checks, %d not_applicable" % (len(checks), len(na)))


if __name__ == "__main__":
    main()
