"""C19 — data put in a context through serde is represented faithfully (narrow): CAST, TABLE, KEYREFUSE, SORT."""
import re
from engine import (Tracer, EdgeFacts, VariantWalk, find_calls, find_aggs, AnchorMissing, leaf_str, leaf_call_is, callee_def, callee_names,
                    name_matches, iter_operands, pl_str, pl_projs)
from props.c13 import casts, lossless_int_cast

EXPLANATION = (
    "Decides structural clauses of C19 on the MIR of value::ser / value::de / the Serialize impls: (CAST) every numeric cast in the serializer, "
    "deserializer, Serialize for Value/Key and From<primitive> for Value is a lossless widening of the same signedness (or unsigned into a "
    "wider signed) or f32->f64; (TABLE) the three variant tables agree: ValueSerializer::serialize_T builds the variant of T's class, "
    "deserialize_any hands that variant to visit_T' of the same class, and Serialize for Value emits serialize_T' of the same class, for every "
    "ValueInner variant and every serializer method; (KEYREFUSE) MapKeySerializer returns Ok only for bool, the ten integer widths, char, str, "
    "unit_variant and its two transparent wrappers — every other kind of key is refused with a constant Err, never altered; (SORT) map "
    "printing sorts its entries unless preserve_order is enabled. NOT decided: round-trip equality for the data-model family (needs execution).")
NOT_DECIDED = "round-trip equality over the serde data model; enum shape encoding details"
ASSUMPTIONS = ["serde's primitive visitors perform checked narrowing when handed a wider integer (serde contract)"]

SER_CLASS = {  # serializer method -> expected ValueInner variant
    "serialize_bool": "Bool",
    "serialize_i8": "I64", "serialize_i16": "I64", "serialize_i32": "I64", "serialize_i64": "I64", "serialize_i128": "I128",
    "serialize_u8": "U64", "serialize_u16": "U64", "serialize_u32": "U64", "serialize_u64": "U64", "serialize_u128": "U128",
    "serialize_f32": "F64", "serialize_f64": "F64",
    "serialize_char": "String", "serialize_str": "String", "serialize_unit_variant": "String",
    "serialize_bytes": "Bytes", "serialize_none": "None", "serialize_unit": "None",
}
DE_VISIT = {"Bool": "visit_bool", "I64": "visit_i64", "U64": "visit_u64", "I128": "visit_i128", "U128": "visit_u128", "F64": "visit_f64",
            "String": "visit_str", "Bytes": "visit_bytes", "None": "visit_unit", "Undefined": "visit_unit", "Array": "visit_seq", "Map": "visit_map"}
SER_EMIT = {"Bool": "serialize_bool", "I64": "serialize_i64", "U64": "serialize_u64", "I128": "serialize_i128", "U128": "serialize_u128",
            "F64": "serialize_f64", "String": "serialize_str", "Bytes": "serialize_bytes", "None": "serialize_unit", "Undefined": "serialize_unit",
            "Array": "serialize_seq", "Map": "serialize_map"}
KEY_OK = {"serialize_bool", "serialize_i8", "serialize_i16", "serialize_i32", "serialize_i64", "serialize_i128", "serialize_u8", "serialize_u16",
          "serialize_u32", "serialize_u64", "serialize_u128", "serialize_char", "serialize_str", "serialize_unit_variant"}
KEY_WRAPPERS = {"serialize_some", "serialize_newtype_struct"}


def run(ctx, rep):
    for cfg in ctx.tera_configs():
        crate = ctx.crate(cfg)
        check_cast(crate, rep, cfg)
        check_table(crate, rep, cfg)
        check_keyrefuse(crate, rep, cfg)
        check_sort(crate, rep, cfg)
        check_elem(crate, rep, cfg)
        check_enum(crate, rep, cfg)
        # "maps print in sorted key order": the sort in format_map is by Key, whose integer order is KeyNumber::cmp (C15.KEYNUM, shared)
        from props import c15
        c15.check_keynum_ord(crate, rep, cfg)


def check_cast(crate, rep, cfg):
    n = 0
    bodies = [b for b in crate.in_files("value/ser.rs", "value/de.rs")]
    bodies += [b for p, b in crate.bodies.items() if p.startswith("<value::Value as std::convert::From<") or
               p in ("<value::Value as serde::Serialize>::serialize", "<value::key::Key<'a> as serde::Serialize>::serialize")]
    for b in bodies:
        k = 0
        for bb, idx, rv in casts(b):
            n += 1
            rep.analysed(b)
            ok = (rv["ck"] == "IntToInt" and lossless_int_cast(rv["from"], rv["to"])) or (rv["ck"] == "FloatToFloat" and rv["from"] == "f32" and rv["to"] == "f64")
            key = "C19.CAST:%s:cast#%d" % (b.path, k)
            k += 1
            (rep.ok if ok else rep.bad)("C19.CAST", key, b.where(bb, idx), "%s %s->%s is lossless" % (rv["ck"], rv["from"], rv["to"]) +
                                        ("" if ok else " — VIOLATED: the stored value differs from the Rust value"))
    rep.floor("C19.CAST", "numeric casts in the serde bridge [%s]" % cfg, n, 12)


def ser_method_bodies(crate, self_ty):
    out = {}
    for p, b in crate.bodies.items():
        m = re.match(r"^<%s as serde::Serializer>::(serialize_\w+)$" % re.escape(self_ty), p)
        if m:
            out[m.group(1)] = b
    return out


def check_table(crate, rep, cfg):
    sm = ser_method_bodies(crate, "value::ser::ValueSerializer")
    rep.floor("C19.TABLE", "ValueSerializer methods [%s]" % cfg, len(sm), 25)
    for meth, want in SER_CLASS.items():
        b = sm.get(meth)
        key = "C19.TABLE:ser:%s" % meth
        if b is None:
            rep.bad("C19.TABLE", key, "", "anchor-missing: ValueSerializer::%s" % meth)
            continue
        rep.analysed(b)
        built = {s["rv"]["variant"] for bb, idx, s in find_aggs(b, "value::ValueInner")}
        if not built:
            # delegating (serialize_unit_struct -> serialize_unit): follow one local call
            for bb, t in b.calls():
                tgt = crate.bodies.get(t["f"].get("res") or t["f"]["def"])
                if tgt is not None:
                    built |= {s["rv"]["variant"] for bb2, idx, s in find_aggs(tgt, "value::ValueInner")}
        ok = built == {want}
        (rep.ok if ok else rep.bad)("C19.TABLE", key, b.where(0), "ValueSerializer::%s builds ValueInner::%s" % (meth, want) + ("" if ok else " — VIOLATED: builds %s" % sorted(built)))
    vi = crate.adts["value::ValueInner"]
    # deserialize_any
    de = crate.one("<value::de::ValueDeserializer as serde::Deserializer<'de>>::deserialize_any")
    rep.analysed(de)
    tab = variant_call_table(de, vi, lambda l: l.kind == "param" and l.detail == 1 and ".inner" in l.projs and not any(p.startswith("as:") for p in l.projs),
                             r"serde::de::Visitor::(visit_\w+)$")
    for v, want in DE_VISIT.items():
        got = tab.get(v, set())
        key = "C19.TABLE:de:%s" % v
        ok = got == {want}
        (rep.ok if ok else rep.bad)("C19.TABLE", key, de.where(0), "deserialize_any hands ValueInner::%s to Visitor::%s" % (v, want) + ("" if ok else " — VIOLATED: %s" % sorted(got)))
    # Serialize for Value
    sv = crate.one("<value::Value as serde::Serialize>::serialize")
    rep.analysed(sv)
    tab = variant_call_table(sv, vi, lambda l: l.kind == "param" and l.detail == 1 and ".inner" in l.projs and not any(p.startswith("as:") for p in l.projs),
                             r"serde::Serializer::(serialize_\w+)$")
    for v, want in SER_EMIT.items():
        got = tab.get(v, set())
        key = "C19.TABLE:emit:%s" % v
        ok = got == {want}
        (rep.ok if ok else rep.bad)("C19.TABLE", key, sv.where(0), "Serialize for Value emits ValueInner::%s as Serializer::%s" % (v, want) + ("" if ok else " — VIOLATED: %s" % sorted(got)))
    # Serialize for Key mirrors the key serializer
    sk = crate.one("<value::key::Key<'a> as serde::Serialize>::serialize")
    k = crate.adts["value::key::Key"]
    tab = variant_call_table(sk, k, lambda l: l.kind == "param" and l.detail == 1 and not any(p.startswith("as:") for p in l.projs), r"serde::Serializer::(serialize_\w+)$")
    want = {"Bool": "serialize_bool", "U64": "serialize_u64", "I64": "serialize_i64", "U128": "serialize_u128", "I128": "serialize_i128",
            "String": "serialize_str", "Str": "serialize_str"}
    for v, w in want.items():
        ok = tab.get(v, set()) == {w}
        rep.add("C19.TABLE", "C19.TABLE:key-emit:%s" % v, ok, sk.where(0), "Serialize for Key emits Key::%s as %s" % (v, w) + ("" if ok else " — VIOLATED: %s" % sorted(tab.get(v, ()))))


def variant_call_table(body, adt, is_subject, callee_rx):
    vw = VariantWalk(body, adt, 1, lambda l: 0 if is_subject(l) else None)
    st = vw.run()
    rx = re.compile(callee_rx)
    out = {}
    # first matching call reached per variant (the arm's head call); arms are disjoint regions after the discriminant switch
    for bb, t in body.calls():
        m = None
        for n in callee_names(t):
            m = m or rx.search(n)
        if not m:
            continue
        tuples = st.get(bb, ())
        if len(tuples) > 4:
            continue     # shared join code, not an arm
        for (v,) in tuples:
            out.setdefault(v, set()).add(m.group(1))
    return out


def check_keyrefuse(crate, rep, cfg):
    km = ser_method_bodies(crate, "value::ser::MapKeySerializer")
    rep.floor("C19.KEYREFUSE", "MapKeySerializer methods [%s]" % cfg, len(km), 28)
    for meth, b in sorted(km.items()):
        rep.analysed(b)
        oks = list(find_aggs(b, "std::result::Result", "Ok"))
        errs = list(find_aggs(b, "std::result::Result", "Err"))
        delegates = [callee_def(t) for bb, t in b.calls() if t["dest"]["l"] == 0]
        key = "C19.KEYREFUSE:%s" % meth
        if meth in KEY_OK:
            ok = bool(oks) and any(True for _ in find_aggs(b, "value::key::Key"))
            if not ok and not oks and not errs:
                # narrow widths forward to the 64-bit method of the same serializer through a lossless cast
                fw = [d.rsplit("::", 1)[-1] for d in delegates]
                ok = len(fw) == 1 and fw[0] in ("serialize_i64", "serialize_u64") and \
                    all(rv["ck"] == "IntToInt" and lossless_int_cast(rv["from"], rv["to"]) for bb, idx, rv in casts(b))
            what = "MapKeySerializer::%s accepts the key (builds a Key)" % meth
        elif meth in KEY_WRAPPERS:
            ok = not oks and not errs and any("serde::Serialize::serialize" in d or "Serialize" in d for d in delegates)
            what = "MapKeySerializer::%s only forwards to the inner value's Serialize with the same key serializer" % meth
        else:
            ok = not oks and bool(errs)
            what = "MapKeySerializer::%s refuses with a constant Err (a key that is not a string/integer/bool/char is not altered into something else)" % meth
        (rep.ok if ok else rep.bad)("C19.KEYREFUSE", key, b.where(0), what if ok else what + " — VIOLATED: Ok sites %d, Err sites %d, delegates %s" % (len(oks), len(errs), delegates[:2]))


def check_sort(crate, rep, cfg):
    b = crate.one("value::format_map")
    rep.analysed(b)
    feats = set(crate.features)
    sorts = [bb for bb, t in b.calls() if re.search(r"::sort(_by|_by_key|_unstable\w*)?$", callee_def(t))]
    key = "C19.SORT:format_map"
    if "preserve_order" in feats:
        rep.ok("C19.SORT", key, b.where(0), "preserve_order enabled: maps print in insertion order by design (sort sites: %d)" % len(sorts))
        return
    # the sort must be reached on every path to the first write
    writes = [bb for bb, t in find_calls(b, ["std::io::Write::write_all"])]
    ok = bool(sorts) and bool(writes)
    if ok:
        reach = b.reach_from(0, removed_blocks=frozenset(sorts))
        ok = not (set(writes) & reach)
    (rep.ok if ok else rep.bad)("C19.SORT", key, b.where(sorts[0]) if sorts else b.where(0), "every path of format_map to its first write passes the key sort "
                                "(maps print in sorted key order)" + ("" if ok else " — VIOLATED"))


def check_elem(crate, rep, cfg):
    """C19.ELEM — nested values are deserialised by a *complete* Deserializer: the element / value deserializers that the bridge hands to
    serde's SeqDeserializer / MapDeserializer are of a type whose Deserializer impl implements deserialize_option and deserialize_enum itself
    (not through forward_to_deserialize_any, which would reject `Some(..)` and enums nested in arrays and maps)."""
    import re
    impls = {}
    for p_, b in crate.bodies.items():
        m = re.match(r"^<(.+) as serde::Deserializer<'de>>::(deserialize_\w+)$", p_) or re.match(r"^value::de::<impl serde::Deserializer<'de> for (.+)>::(deserialize_\w+)$", p_)
        if m:
            impls.setdefault(m.group(1), {})[m.group(2)] = bool(b.j.get("from_exp"))
    full = {t for t, ms in impls.items() if ms.get("deserialize_option") is False and ms.get("deserialize_enum") is False}
    rep.add("C19.ELEM", "C19.ELEM:complete-impls", bool(full), "tera/src/value/de.rs", "Deserializer impls that implement deserialize_option and deserialize_enum themselves: %s; "
            "forwarding impls: %s" % (sorted(full), sorted(set(impls) - full)) + ("" if full else " — VIOLATED"))
    n = 0
    for b in crate.in_files("value/de.rs"):
        if b.kind == "const":
            continue
        for bb, t in b.calls():
            cd = callee_def(t)
            if not (("SeqDeserializer" in cd or "MapDeserializer" in cd) and cd.endswith("::new")):
                continue
            n += 1
            rep.analysed(b)
            ity = (t["f"].get("targs") or t["atys"] or ["?"])[0]
            m = re.search(r"\{closure@[^:]+:(\d+):", ity)
            elem = None
            if m:
                line = int(m.group(1))
                cl = [c for c in crate.children(crate.root_of(b)) if c.j.get("line") == line]
                if len(cl) == 1:
                    elem = cl[0].local_ty(0)
            else:
                m2 = re.search(r"Iter<'_, (?:[^,<>]+(?:<[^<>]*>)?, )?([^<>]+)>$", ity)
                elem = ("&" + m2.group(1)) if m2 else None
            is_map = "MapDeserializer" in cd
            if elem is None:
                ok, shown = False, "unknown (%s)" % ity[:80]
            else:
                comps = [x.strip() for x in elem.strip("()").split(",")] if elem.startswith("(") else [elem]
                val = comps[-1]
                ok = val in full
                shown = val
            key = "C19.ELEM:%s:%s#%d" % (crate.root_of(b).path.rsplit("::", 1)[-1], "map-values" if is_map else "seq-elements", n)
            rep.add("C19.ELEM", key, ok, b.where(bb), "%s are deserialised through `%s`, a complete Deserializer impl" % ("map values" if is_map else "sequence elements", shown)
                    + ("" if ok else " — VIOLATED: that impl forwards deserialize_option / deserialize_enum to deserialize_any: `Some(..)` and enum values nested here no longer "
                                     "round-trip"))
    rep.floor("C19.ELEM", "Seq/MapDeserializer constructions in the bridge [%s]" % cfg, n, 2)


def check_enum(crate, rep, cfg):
    """C19.ENUM — the serializer writes `E::V(x)` as the one-entry map {"V": x} and a unit variant as the string "V". Reading back, the payload
    handed to the variant access is `Some(the entry's value)` whenever the encoding was a map — unconditionally, whatever that value is (a
    `none` payload is `V(None)` / `V(())`, not "no payload") — and `None` only for the string form."""
    cands = [b for p_, b in crate.bodies.items() if p_.endswith("::deserialize_enum") and "ValueDeserializer" in p_]
    if len(cands) != 1:
        rep.anchor_missing("C19.ENUM", "ValueDeserializer::deserialize_enum (%d)" % len(cands))
        return
    b = cands[0]
    rep.analysed(b)
    tr = Tracer(b)
    ef = EdgeFacts(b, crate)
    aggs = list(find_aggs(b, "value::de::EnumDeserializer", "EnumDeserializer"))
    ok = len(aggs) == 1
    why = "construction of EnumDeserializer not found"
    if ok:
        rv = aggs[0][2]["rv"]
        ls = [l for l in tr.operand(rv["ops"][rv["fields"].index("params")]) if l.kind != "cycle"]
        ok = bool(ls)
        # which blocks are under the Map / String arm of `match self.value.inner`
        arm = {}
        for sb in sorted(b.reachable):
            if b.term(sb)["k"] != "switch":
                continue
            for tgt, fl in ef.facts_for_switch(sb).items():
                for f in fl:
                    if f[0] == "variant" and f[1].endswith("ValueInner") and f[4] and len(f[3]) == 1 and tgt != sb:
                        arm.setdefault(next(iter(f[3])), set()).update(x for x in b.reach_from(tgt) if b.dominates(tgt, x))
        n_some = 0
        for l in ls:
            if not (l.kind == "agg" and l.detail[1] == "std::option::Option"):
                ok, why = False, "the payload is computed (%s) instead of being Some(value) / None by encoding" % leaf_str(l)
                continue
            if l.detail[2] == "Some":
                n_some += 1
                vl = [x for x in tr.operand(b.blocks[l.detail[3]]["s"][l.detail[4]]["rv"]["ops"][0]) if x.kind != "cycle"]
                if not (l.detail[3] in arm.get("Map", set()) and vl and all(x.kind == "call" and x.detail[0].endswith("Iterator::next") or
                                                                          (x.kind == "call" and x.detail[0].endswith("::iter")) for x in vl)):
                    ok, why = False, "Some(..) does not wrap the map entry's value under the Map arm"
            elif l.detail[3] in arm.get("Map", set()):
                ok, why = False, "a map-encoded variant can lose its payload (None built under the Map arm)"
        if ok and n_some != 1:
            ok, why = False, "%d Some(..) payloads" % n_some
    rep.add("C19.ENUM", "C19.ENUM:deserialize_enum:map-form-always-carries-its-value", ok, b.where(aggs[0][0]) if aggs else b.where(0), "deserialize_enum hands the variant access "
            "Some(entry value) for the map encoding, unconditionally, and None only for the string encoding" + ("" if ok else " — VIOLATED: " + why))
