"""C17 — every built-in is total (narrow): reviewed panic sites of filters/tests/functions/args + guarded std preconditions."""
from engine import (Tracer, EdgeFacts, find_calls, find_aggs, AnchorMissing, leaf_str, leaf_call_is, callee_def, callee_names, name_matches)
import rpanic
import re

import rrec

EXPLANATION = (
    "Decides structural clauses of C17 on the MIR of filters, tests, functions and args: (PANIC) the set of panic-capable sites (indexing, "
    "unwrap/expect, explicit panics, division, signed/128-bit overflow checks, std functions with documented panics) is exactly the reviewed "
    "set, one reason per row; (PRE) the std preconditions of the highest-risk rows are guard-dominated: i128::from_str_radix behind the "
    "`(2..=36).contains(&base)` test, str::repeat fed from `.min(1000)`, Vec::with_capacity/loop of `range` behind the MAX_RANGE_LEN test "
    "with the length computed through checked_* only; (ITERABLE) the `iterable` test, Value::can_be_iterated_on and the loop iterator "
    "factory agree on the iterable kinds (type tests partition consistently). NOT decided: the documented contracts of the individual "
    "built-ins (behavioural).")
NOT_DECIDED = "behavioural contracts of individual filters/tests/functions"
ASSUMPTIONS = []


def run(ctx, rep):
    for cfg in ctx.tera_configs():
        crate = ctx.crate(cfg)
        rpanic.check(crate, rep, "R-PANIC.builtins", ("filters.rs", "tests.rs", "functions.rs", "args.rs"), cfg, 18)
        check_pre(crate, rep, cfg)
        check_iterable(crate, rep, cfg)
        check_deleg(crate, rep, cfg)
        check_round(crate, rep, cfg)
        check_casemap(crate, rep, cfg)


def lossless(a, b):
    def bits(t):
        return {"usize": 64, "isize": 64}.get(t) or int(re.sub(r"\D", "", t) or 0)
    sa, sb_ = a.startswith("i"), b.startswith("i")
    if sa == sb_:
        return bits(b) >= bits(a)
    return (not sa) and sb_ and bits(b) > bits(a)


def dominated_by_call_fact(body, crate, bb, callee_suffix, truth):
    ef = EdgeFacts(body, crate)
    for sb in sorted(body.reachable):
        if body.term(sb)["k"] != "switch" or not body.dominates(sb, bb):
            continue
        for tgt, fl in ef.facts_for_switch(sb).items():
            for f in fl:
                if f[0] == "call" and f[1].endswith(callee_suffix) and f[3] is truth and body.dominates(tgt, bb) and tgt != sb:
                    return True
    return False


def check_pre(crate, rep, cfg):
    b = crate.one("filters::int")
    rep.analysed(b)
    calls = [bb for bb, t in b.calls() if callee_def(t).endswith("::from_str_radix")]
    ok = bool(calls) and all(dominated_by_call_fact(b, crate, bb, "::contains", True) for bb in calls)
    rep.add("C17.PRE", "C17.PRE:int:from_str_radix-base", ok, b.where(calls[0]) if calls else b.where(0), "i128::from_str_radix (panics for a base outside 2..=36) is dominated by "
            "the true edge of `(2..=36).contains(&base)`" + ("" if ok else " — VIOLATED"))
    b = crate.one("filters::indent")
    rep.analysed(b)
    tr = Tracer(b, transparent=None)
    ok = False
    for bb, t in b.calls():
        if callee_def(t).endswith("<impl str>::repeat"):
            leaves = tr.operand(t["args"][1])
            ok = bool(leaves) and all(leaf_call_is(l, "std::cmp::Ord::min") for l in leaves)
    rep.add("C17.PRE", "C17.PRE:indent:repeat-capped", ok, b.where(0), "the repeat count of filters::indent comes from `.min(1000)`" + ("" if ok else " — VIOLATED: unbounded allocation"))
    b = crate.one("functions::range")
    rep.analysed(b)
    ef = EdgeFacts(b, crate)
    # where the sequence is materialised: the pre-allocation, or the `collect()` of `(0..len).map(..)`
    caps = [bb for bb, t in b.calls() if callee_def(t).endswith("::with_capacity") or callee_def(t).endswith("Iterator::collect") or callee_def(t).endswith("FromIterator::from_iter")]
    ok = bool(caps)
    for cb in caps:
        dom = False
        for sb in sorted(b.reachable):
            if b.term(sb)["k"] != "switch" or not b.dominates(sb, cb):
                continue
            for tgt, fl in ef.facts_for_switch(sb).items():
                for f in fl:
                    if f[0] == "cmp" and b.dominates(tgt, cb) and tgt != sb:
                        # one side is the constant MAX_RANGE_LEN (possibly through `as i128`); the edge must be the within-limit one,
                        # whichever way round the comparison is written
                        d = ef.single_def(b.term(sb)["op"]["pl"]["l"])
                        if d and d[3]["k"] == "bin":
                            maxv = (crate.consts.get("functions::MAX_RANGE_LEN") or {}).get("v")

                            def is_max(r):
                                if r["k"] == "const":
                                    return maxv is not None and r.get("v") == maxv
                                if r["k"] in ("copy", "move"):
                                    for (b2, i2, dp, rv) in b.defs.get(r["pl"]["l"], []):
                                        if rv["k"] in ("cast", "use") and rv["op"]["k"] == "const" and maxv is not None and rv["op"].get("v") == maxv:
                                            return True
                                return False
                            side = "r" if is_max(d[3]["r"]) else ("l" if is_max(d[3]["l"]) else None)
                            if side and rrec.NOT_EXCEEDING.get((f[1], side)) == f[4]:
                                # ... and what is compared is the computed length itself, not a narrowed copy of it (`len as usize`
                                # wraps a count of k * 2^64 + small into `small` before the test)
                                other = d[3]["l"] if side == "r" else d[3]["r"]
                                narrowed = False
                                for l in Tracer(b).operand(other):
                                    for pr in l.projs:
                                        m = re.match(r"^cast:IntToInt:(\w+)->(\w+)$", pr)
                                        if m and not lossless(m.group(1), m.group(2)):
                                            narrowed = True
                                if not narrowed:
                                    dom = True
        ok = ok and dom
    rep.add("C17.PRE", "C17.PRE:range:len-capped", ok, b.where(caps[0]) if caps else b.where(0), "Vec::with_capacity(len) and the fill loop of `range` are dominated by the within-limit edge "
            "of the comparison of len with MAX_RANGE_LEN" + ("" if ok else " — VIOLATED"))
    # the length arithmetic (in range itself and in private helpers only range calls) uses no raw i128 +,-,*,/ — only checked_* calls
    scope = [b] + [h for p_, h in crate.bodies.items() if h.kind in ("fn", "assoc_fn") and p_.startswith("functions::") and h is not b
                   and rrec.only_called_from(crate, p_, {"functions::range"})]
    n_checked = sum(len([1 for bb, t in x.calls() if any(y in callee_def(t) for y in ("checked_sub", "checked_add", "checked_neg", "checked_div", "checked_mul"))]) for x in scope)
    ok = n_checked >= 3
    rep.add("C17.PRE", "C17.PRE:range:checked-length", ok, b.where(0), "the length of `range` is computed through checked_* calls (%d sites in range and its private helpers; "
            "the remaining raw operations are rows of R-PANIC.builtins)" % n_checked + ("" if ok else " — VIOLATED"))


def check_iterable(crate, rep, cfg):
    from engine import VariantWalk
    vi = crate.adts["value::ValueInner"]
    cbi = crate.one("value::Value::can_be_iterated_on")

    def bool_table(body):
        vw = VariantWalk(body, vi, 1, lambda l: 0 if l.kind == "param" and l.detail == 1 and not any(p.startswith("as:") for p in l.projs) else None)
        st = vw.run()
        out = {}
        for bb, idx, s in body.stmts():
            if idx != "t" and s["k"] == "assign" and s["pl"]["l"] == 0 and not s["pl"]["p"] and s["rv"]["k"] == "use" and s["rv"]["op"]["k"] == "const":
                for (v,) in st.get(bb, ()):
                    out.setdefault(v, set()).add(s["rv"]["op"].get("v"))
        return {v for v, o in out.items() if o == {"1"}}
    a = bool_table(cbi)
    # the iterator factory: variants for which a Some(..) is produced
    fac = [b for p, b in crate.bodies.items() if p.endswith("create_for_loop_iterator")]
    key = "C17.ITERABLE:tables-agree"
    if not fac:
        rep.bad("C17.ITERABLE", key, cbi.where(0), "anchor-missing: create_for_loop_iterator")
        return
    f = fac[0]
    vw = VariantWalk(f, vi, 1, lambda l: 0 if l.kind == "param" and l.detail == 1 and not any(p.startswith("as:") for p in l.projs) else None)
    st = vw.run()
    some = set()
    none = set()
    for bb, idx, s in f.stmts():
        if idx != "t" and s["k"] == "assign" and s["pl"]["l"] == 0 and not s["pl"]["p"] and s["rv"]["k"] == "agg" and s["rv"].get("adt") == "std::option::Option":
            for (v,) in st.get(bb, ()):
                (some if s["rv"]["variant"] == "Some" else none).add(v)
    b_ = some - none
    ok = a == b_ and bool(a)
    rep.add("C17.ITERABLE", key, ok, f.where(0), "can_be_iterated_on is true exactly for the kinds create_for_loop_iterator builds an iterator for: %s vs %s" % (sorted(a), sorted(b_))
            + ("" if ok else " — VIOLATED: ForLoop::new's expect can fire / an iterable kind is refused"))
    ti = crate.one("tests::is_iterable")
    kind_of = {"is_map": "Map", "is_array": "Array", "is_string": "String", "is_bytes": "Bytes", "is_bool": "Bool", "is_none": "None", "is_undefined": "Undefined"}
    called = {callee_def(t).rsplit("::", 1)[-1] for bb, t in ti.calls()}
    if any(c.endswith("can_be_iterated_on") for c in called):
        tset = a
    else:
        tset = {kind_of[c] for c in called if c in kind_of}
    ok = tset == a and all(c in kind_of or c.endswith("can_be_iterated_on") for c in called)
    rep.add("C17.ITERABLE", "C17.ITERABLE:test-agrees", ok, ti.where(0), "the `iterable` test accepts exactly the kinds can_be_iterated_on accepts: %s" % sorted(tset)
            + ("" if ok else " — VIOLATED (calls %s)" % sorted(called)))


# string filters whose documented law is exactly a std operation: reviewed as delegations. A hand-written replacement (a loop, a state flag)
# is where "changes nothing but what it documents" gets lost; like a new panic site it needs a review, which this rule asks for by name.
DELEG = {
    "filters::upper": ({"to_uppercase"}, ()),
    "filters::lower": ({"to_lowercase"}, ()),
    "filters::wordcount": ({"split_whitespace", "count"}, ()),
    "filters::newlines_to_br": ({"replace"}, ("\r\n", "<br>")),
    "filters::replace": ({"replace"}, ()),
    "filters::trim": ({"trim", "trim_start_matches", "trim_end_matches"}, ()),
    "filters::trim_start": ({"trim_start", "trim_start_matches"}, ()),
    "filters::trim_end": ({"trim_end", "trim_end_matches"}, ()),
}
PLUMBING = {"to_string", "to_owned", "into", "from", "get", "must_get", "branch", "from_residual", "deref", "as_str", "as_ref", "borrow", "clone", "unwrap_or", "unwrap_or_default"}


def check_deleg(crate, rep, cfg):
    from engine import iter_operands
    n = 0
    for path, (want, consts) in sorted(DELEG.items()):
        b = crate.one(path)
        rep.analysed(b)
        n += 1
        bodies = crate.with_closures(b)
        calls = set()
        for bd in bodies:
            for bb, t in bd.calls():
                calls.add(callee_def(t).rsplit("::", 1)[-1])
        work = calls - PLUMBING
        loops = any(bd.natural_loops() for bd in bodies)
        seen_consts = set()
        for bd in bodies:
            for bb, idx, st in bd.stmts():
                for op in iter_operands(st):
                    if op["k"] == "const" and isinstance(op.get("s"), str):
                        seen_consts.add(op["s"])
        ok = work == want and not loops and all(c in seen_consts for c in consts)
        why = "calls %s%s" % (sorted(work), ", hand-written loop" if loops else "")
        rep.add("C17.DELEG", "C17.DELEG:%s" % path, ok, b.where(0), "%s is the std operation(s) %s applied to the input, no loop of its own%s" % (
            path.rsplit("::", 1)[-1], sorted(want), (" (constants %s)" % list(consts)) if consts else "") + ("" if ok else " — VIOLATED (review): " + why))
    rep.floor("C17.DELEG", "string filters reviewed as std delegations [%s]" % cfg, n, 8)
    check_seq_deleg(crate, rep, cfg)
    check_type_tests(crate, rep, cfg)


SEQ_DELEG = {"filters::first": {"first"}, "filters::last": {"last"}, "filters::nth": {"get"}}


def check_seq_deleg(crate, rep, cfg):
    """first / last / nth are slice::first / last / get(n) with `n` the unsigned argument as given — so they agree with indexing, with
    `reverse`, and answer none for every position that does not exist."""
    for path, want in sorted(SEQ_DELEG.items()):
        b = crate.one(path)
        rep.analysed(b)
        work = {callee_def(t).rsplit("::", 1)[-1] for bb, t in b.calls() if "<impl [T]>" in callee_def(t) or "Vec::<T" in callee_def(t)}
        other = {callee_def(t).rsplit("::", 1)[-1] for bb, t in b.calls()} - work - PLUMBING - {"cloned", "unwrap_or", "none", "unwrap_or_else"}
        work |= other
        arith = [1 for bb, idx, st in b.stmts() if idx != "t" and st.get("k") == "assign" and st["rv"]["k"] in ("bin", "un", "cast")]
        ok = work == want and not arith and not b.natural_loops()
        rep.add("C17.DELEG", "C17.DELEG:%s" % path, ok, b.where(0), "%s is slice::%s on the input, no index arithmetic of its own" % (path.rsplit("::", 1)[-1], sorted(want)[0])
                + ("" if ok else " — VIOLATED (review): calls %s%s" % (sorted(work), ", arithmetic/casts on the index" if arith else "")))


TYPE_TESTS = ["is_string", "is_number", "is_map", "is_bool", "is_array", "is_none", "is_undefined", "is_defined", "is_iterable", "is_integer", "is_float"]
KIND_ONLY = {"is_string", "is_number", "is_map", "is_bool", "is_array", "is_none", "is_undefined", "is_bytes", "is_f64", "kind"}


def kind_predicate_method(crate, name):
    """a crate-local `Value` method returning bool that itself only asks kind predicates / matches on the kind (e.g. can_be_iterated_on)"""
    b = crate.bodies.get("value::Value::" + name)
    if b is None or b.local_ty(0) != "bool":
        return False
    inner = {callee_def(t).rsplit("::", 1)[-1] for bb, t in b.calls()}
    if not inner <= KIND_ONLY:
        return False
    # no payload of the value is read: only discriminants
    for bb, idx, st in b.stmts():
        if idx != "t" and st.get("k") == "assign" and st["rv"]["k"] == "use" and st["rv"]["op"]["k"] in ("copy", "move"):
            if any(isinstance(p, dict) and "dc" in p for p in st["rv"]["op"]["pl"]["p"]):
                return False
    return True


def check_type_tests(crate, rep, cfg):
    """"Type tests partition values consistently": each built-in type test asks the value for its KIND only (Value::is_* / kind()); a
    converting accessor (`as_i128`, `as_f64`, `as_str` ..) answers None for some members of the kind, or Some for non-members."""
    n = 0
    for name in TYPE_TESTS:
        c = [b for p_, b in crate.bodies.items() if p_ == "tests::" + name]
        if not c:
            continue
        b = c[0]
        n += 1
        called = {callee_def(t).rsplit("::", 1)[-1] for bb, t in b.calls() if "value::Value" in callee_def(t)}
        conv = sorted(c_ for c_ in called - KIND_ONLY if not kind_predicate_method(crate, c_))
        ok = bool(called) and not conv
        rep.add("C17.TYPETEST", "C17.TYPETEST:%s:by-kind-only" % name, ok, b.where(0), "`%s` is decided by kind predicates only (%s)" % (name[3:], sorted(called))
                + ("" if ok else " — VIOLATED: %s" % (conv or "no kind predicate called")))
    rep.floor("C17.TYPETEST", "type tests reviewed [%s]" % cfg, n, 9)
    ii = [b for p_, b in crate.bodies.items() if p_ == "tests::is_integer"]
    if ii:
        called = {callee_def(t).rsplit("::", 1)[-1] for bb, t in ii[0].calls() if "value::Value" in callee_def(t)}
        ok = called == {"is_number", "is_f64"}
        rep.add("C17.TYPETEST", "C17.TYPETEST:is_integer:number-and-not-float", ok, ii[0].where(0), "`integer` is `number and not float` (so integer xor float iff number)" + ("" if ok else " — VIOLATED: %s" % sorted(called)))


def check_round(crate, rep, cfg):
    """C17.PRE — `round(precision=p)` scales by 10^p for every p != 0 (negative p rounds to tens, hundreds ..): the unscaled multiplier 1.0 is
    chosen on exactly one edge, the true edge of `precision == 0`, and that test reads nothing but the precision."""
    b = crate.one("filters::round")
    rep.analysed(b)
    ef = EdgeFacts(b, crate)
    ones = [(bb, idx) for bb, idx, st in b.stmts() if idx != "t" and st.get("k") == "assign" and st["rv"]["k"] == "use" and st["rv"]["op"]["k"] == "const"
            and st["rv"]["op"].get("ty") == "f64" and b.local_ty(st["pl"]["l"]) == "f64" and not st["pl"]["p"]]
    powi = [bb for bb, t in b.calls() if callee_def(t).endswith("<impl f64>::powi")]
    ok = len(ones) == 1 and len(powi) == 1
    why = "%d constant multipliers, %d powi calls" % (len(ones), len(powi))
    if ok:
        ob = ones[0][0]
        g = None
        for sb in sorted(b.reachable):
            if b.term(sb)["k"] != "switch" or not b.dominates(sb, ob) or sb == ob:
                continue
            for tgt, fl in ef.facts_for_switch(sb).items():
                for f in fl:
                    if f[0] == "cmp" and f[1] in ("Eq", "Ne") and f[3] == ("const", "0") and b.dominates(tgt, ob) and tgt != sb and \
                            ((f[1] == "Eq" and f[4] is True) or (f[1] == "Ne" and f[4] is False)):
                        g = (sb, tgt)
        ok = g is not None
        why = "1.0 is not chosen on the true edge of `precision == 0`"
        if ok:
            # the only predecessor of the constant's block is that edge (no `||` joining another condition)
            ok = len(b.pred[g[1]]) == 1 and (g[1] == ob or (b.dominates(g[1], ob) and all(len(b.pred[x]) == 1 for x in [ob])))
            why = "another condition also leads to the unscaled multiplier"
    rep.add("C17.PRE", "C17.PRE:round:unscaled-only-for-precision-0", ok, b.where(ones[0][0]) if ones else b.where(0), "round uses the multiplier 1.0 only when precision == 0 and "
            "10^precision otherwise" + ("" if ok else " — VIOLATED: " + why))


def check_casemap(crate, rep, cfg):
    """C17.DELEG — `title` / `capitalize` "change only letter case": a character's upper / lower case can be several characters (ß -> SS,
    İ -> i̇); the iterator char::to_uppercase / to_lowercase returns is consumed whole (Display, collect, extend), never stepped by hand."""
    for path in ("filters::title", "filters::capitalize"):
        b = crate.one(path)
        rep.analysed(b)
        stepped = []
        maps = 0
        for bd in crate.with_closures(b):
            for bb, t in bd.calls():
                cd = callee_def(t)
                if cd.endswith("<impl char>::to_uppercase") or cd.endswith("<impl char>::to_lowercase"):
                    maps += 1
                if cd.rsplit("::", 1)[-1] in ("next", "nth", "last", "next_back") and any(x in str(t.get("atys")) for x in ("ToUppercase", "ToLowercase")):
                    stepped.append(bd.where(bb))
        ok = maps >= 1 and not stepped
        rep.add("C17.DELEG", "C17.DELEG:%s:case-mapping-consumed-whole" % path, ok, b.where(0), "%s writes every character of each to_uppercase / to_lowercase result" % path.rsplit("::", 1)[-1]
                + ("" if ok else " — VIOLATED: %s" % (("stepped by hand at %s" % stepped[:2]) if stepped else "no char case mapping found")))
