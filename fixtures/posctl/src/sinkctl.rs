//! C01.SINK control: a raw `Value::format` to the output with no permit test at all.
use std::io::Write;

pub mod value {
    use std::io::Write;
    pub struct Value(pub String);
    impl Value {
        pub fn format(&self, f: &mut impl Write) -> std::io::Result<()> {
            f.write_all(self.0.as_bytes())
        }
        pub fn is_safe(&self) -> bool {
            false
        }
    }
}

pub struct VM {
    pub on: bool,
}

impl VM {
    pub fn leaky(&self, v: &value::Value, out: &mut impl Write) -> std::io::Result<()> {
        if self.on {
            // no escaping, no is_safe test
        }
        v.format(out)
    }
}
