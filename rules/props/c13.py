"""C13 — integer arithmetic is exact or an error; mixed comparisons are exact."""
import re
from engine import (Tracer, EdgeFacts, find_calls, find_aggs, AnchorMissing, leaf_str, leaf_call_is, callee_def, callee_names, name_matches,
                    iter_operands, pl_str)

EXPLANATION = (
    "Decides on the type-checked MIR of value::number, the comparison impls of Value and the numeric conversions: (CHK) no raw/wrapping/"
    "saturating/unchecked integer operation on 64/128-bit operands anywhere on the arithmetic paths — every integer result comes from a "
    "checked_* call whose None edge constructs an Err; (CALLEE) each operator uses the callee that makes the property's formula hold "
    "(checked_add/sub/mul/neg/pow with a u32::try_from exponent, checked_rem_euclid and checked_div_euclid for % and //), `/` performs only a "
    "float division of two as_float() results, and the zero test returns Err before any division; (CMP) the comparison skeleton contains no "
    "int->float cast of a non-constant operand and no float->int cast except the floor value behind both range tests; (CONV) the integer "
    "conversions use only widening casts and TryFrom, int->float conversion happens only in the listed functions; the VM's math arms call the "
    "number::* function of the same name. NOT decided: float results, NaN ordering values.")
NOT_DECIDED = "floating-point results; NaN ordering values"
ASSUMPTIONS = ["std checked_* / *_euclid integer methods implement exact arithmetic with None on overflow (std contract)"]

INT_TYPES = {"i128", "u128", "i64", "u64", "i32", "u32", "i16", "u16", "i8", "u8", "isize", "usize"}
WIDE = {"i128", "u128", "i64", "u64"}
BITS = {"i8": 8, "u8": 8, "i16": 16, "u16": 16, "i32": 32, "u32": 32, "i64": 64, "u64": 64, "i128": 128, "u128": 128, "isize": 64, "usize": 64}
ARITH_OPS = {"Add", "Sub", "Mul", "Div", "Rem", "Shl", "Shr", "AddWithOverflow", "SubWithOverflow", "MulWithOverflow", "AddUnchecked",
             "SubUnchecked", "MulUnchecked", "ShlUnchecked", "ShrUnchecked"}
BAD_METHOD = re.compile(r"::(wrapping_|saturating_|overflowing_|unchecked_)\w+$")

OPS = {  # number::fn -> required integer callee
    "add": "checked_add", "sub": "checked_sub", "mul": "checked_mul", "rem": "checked_rem_euclid",
    "floor_div": "checked_div_euclid", "pow": "checked_pow", "negate": "checked_neg",
}


def lossless_int_cast(frm, to):
    if frm not in BITS or to not in BITS:
        return False
    fs, ts = frm[0] == "i", to[0] == "i"
    if fs == ts:
        return BITS[to] >= BITS[frm]
    if not fs and ts:
        return BITS[to] > BITS[frm]
    return False


def number_fns(crate):
    out = {}
    for name in list(OPS) + ["div"]:
        out[name] = crate.one("value::number::" + name)
    return out


def reach_bodies(crate, roots, files):
    """roots + local callees (transitively) that live in `files`"""
    seen, work = {}, list(roots)
    while work:
        b = work.pop()
        if b.path in seen:
            continue
        seen[b.path] = b
        for c in crate.children(b):
            work.append(c)
        for bb, t in b.calls():
            tgt = t["f"].get("res") if t["f"].get("res_local") else (t["f"]["def"] if t["f"].get("local") else None)
            if tgt and tgt in crate.bodies and any(crate.bodies[tgt].file.endswith(f) for f in files):
                work.append(crate.bodies[tgt])
    return list(seen.values())


def run(ctx, rep):
    for cfg in ctx.tera_configs():
        crate = ctx.crate(cfg)
        check_chk(crate, rep, cfg)
        check_callee(crate, rep, cfg)
        check_cmp(crate, rep, cfg)
        check_conv(crate, rep, cfg)
        check_vm(crate, rep, cfg)
    pos = ctx.posctl()
    b = pos.bodies.get("arithctl::raw_add")
    fired = False
    if b is not None:
        fired = bool(raw_int_ops(b))
    if not ctx.control("C13.CHK", fired):
        raise AnchorMissing("positive control for C13.CHK did not fire")


def raw_int_ops(body):
    out = []
    for bb, idx, s in body.stmts():
        if idx == "t":
            if s["k"] == "assert" and s.get("ak") in ("Overflow", "OverflowNeg", "DivisionByZero", "RemainderByZero") and s.get("lty") in WIDE:
                out.append((bb, idx, "overflow-checked raw %s on %s (panics)" % (s.get("bop", s.get("ak")), s.get("lty"))))
            if s["k"] == "call":
                for n in callee_names(s):
                    if BAD_METHOD.search(n) and any(w in n for w in ("i128", "u128", "i64", "u64", "num::")):
                        out.append((bb, idx, "call of %s" % n))
                        break
            continue
        if s["k"] != "assign":
            continue
        rv = s["rv"]
        if rv["k"] == "bin" and rv["op"] in ARITH_OPS and rv.get("lty") in WIDE:
            out.append((bb, idx, "raw %s on %s" % (rv["op"], rv["lty"])))
        if rv["k"] == "un" and rv["op"] == "Neg" and rv.get("ty") in WIDE:
            out.append((bb, idx, "raw Neg on %s" % rv["ty"]))
    return out


def check_chk(crate, rep, cfg):
    fns = number_fns(crate)
    bodies = reach_bodies(crate, list(fns.values()), ("value/number.rs",))
    n = 0
    for b in bodies:
        rep.analysed(b)
        raws = raw_int_ops(b)
        key = "C13.CHK:%s:no-raw-int-op" % b.path
        n += 1
        if raws:
            bb, idx, what = raws[0]
            rep.bad("C13.CHK", key, b.where(bb, idx), "no raw / wrapping / saturating / unchecked integer operation on 64/128-bit operands — VIOLATED: %s "
                    "(%d site(s)): a wrapped, truncated or panicking result instead of Err" % (what, len(raws)))
        else:
            rep.ok("C13.CHK", key, b.where(0), "no raw / wrapping / saturating / unchecked integer operation on 64/128-bit operands")
    rep.floor("C13.CHK", "functions on the arithmetic paths of value::number [%s]" % cfg, n, 10)
    # every checked_* result: None edge leads to an Err construction
    for name, b in fns.items():
        if name == "div":
            continue
        ef = EdgeFacts(b, crate)
        calls = [(bb, t) for bb, t in b.calls() if any(re.search(r"::checked_\w+$", n_) for n_ in callee_names(t))]
        for k, (bb, t) in enumerate(calls):
            dest = t["dest"]["l"]
            ok = False
            for sb in sorted(b.reachable):
                tt = b.term(sb)
                if tt["k"] != "switch" or tt["op"]["k"] == "const":
                    continue
                d = ef.single_def(tt["op"]["pl"]["l"]) if not tt["op"]["pl"]["p"] else None
                if d and d[3]["k"] == "discr" and d[3]["pl"]["l"] == dest and not d[3]["pl"]["p"]:
                    for tgt, fl in ef.facts_for_switch(sb).items():
                        for f in fl:
                            if f[0] == "variant" and "None" in f[3] and "Some" not in f[3]:
                                region = b.reach_from(tgt)
                                if any(True for _ in find_aggs(b, "std::result::Result", "Err", blocks=sorted(region))) and \
                                        not any(True for _ in find_aggs(b, "std::result::Result", "Ok", blocks=sorted(region - b.reach_from(
                                            [x for x in b.succ[sb] if x != tgt])))):
                                    ok = True
            if not ok:
                # `x.checked_op(y).map(..).ok_or_else(|| Error..)?`: None becomes Err by ok_or*, and the `?` returns it
                cur, hops, via_ok_or = dest, 0, False
                while hops < 4:
                    nxt = None
                    for b3, t3 in b.calls():
                        if t3["args"] and t3["args"][0]["k"] in ("copy", "move") and not t3["args"][0]["pl"]["p"] and t3["args"][0]["pl"]["l"] == cur:
                            nm = callee_def(t3).rsplit("::", 1)[-1]
                            if nm in ("map", "ok_or_else", "ok_or") and "Option" in callee_def(t3):
                                via_ok_or = via_ok_or or nm.startswith("ok_or")
                                nxt = t3["dest"]["l"]
                            elif nm == "branch" and via_ok_or:
                                ok = True
                    if via_ok_or and nxt is not None and nxt == 0:
                        ok = True       # the Result of ok_or* is the function's own result (returned as it is)
                    if via_ok_or and nxt is not None and not ok:
                        # ... or moved into the return place without being looked at
                        for (b4, i4, dp4, rv4) in b.defs.get(0, []):
                            if not dp4 and rv4["k"] == "use" and rv4["op"]["k"] in ("copy", "move") and not rv4["op"]["pl"]["p"] and rv4["op"]["pl"]["l"] == nxt:
                                ok = True
                    if nxt is None or ok:
                        break
                    cur, hops = nxt, hops + 1
            key = "C13.CHK:%s:%s#%d:none->err" % (b.path, callee_def(t).rsplit("::", 1)[-1], k)
            what = "the None edge of %s leads to an Err (never to a substituted value)" % callee_def(t).rsplit("::", 1)[-1]
            (rep.ok if ok else rep.bad)("C13.CHK", key, b.where(bb), what if ok else what + " — VIOLATED")


def check_callee(crate, rep, cfg):
    fns = number_fns(crate)
    for name, want in OPS.items():
        b = fns[name]
        ints = [callee_def(t).rsplit("::", 1)[-1] for bb, t in b.calls()
                if any(re.search(r"(i128|num)::.*::(checked_|wrapping_|saturating_|overflowing_|unchecked_|pow$|abs$|rem_euclid$|div_euclid$)", n) or
                       re.search(r"::(checked_\w+|pow|rem_euclid|div_euclid)$", n) for n in callee_names(t)) and
                (t["atys"] and t["atys"][0] in ("i128", "i64", "u64", "u128"))]
        key = "C13.CALLEE:%s" % name
        ok = ints == [want]
        what = "number::%s computes its integer result with i128::%s only" % (name, want)
        (rep.ok if ok else rep.bad)("C13.CALLEE", key, b.where(0), what if ok else what + " — VIOLATED: integer callees %s" % ints)
    # pow exponent from u32::try_from
    b = fns["pow"]
    tr = Tracer(b, transparent=None)
    for bb, t in b.calls():
        if callee_def(t).endswith("checked_pow"):
            leaves = tr.operand(t["args"][1])
            ok = bool(leaves) and all(leaf_call_is(l, "std::convert::TryFrom::try_from", "std::result::Result::<T, E>::map_err") for l in leaves)
            rep.add("C13.CALLEE", "C13.CALLEE:pow:exponent-try_from", ok, b.where(bb), "the exponent of checked_pow comes from u32::try_from (out of range => Err)"
                    + ("" if ok else " — VIOLATED: origin %s" % sorted(leaf_str(l) for l in leaves)[:2]))
    # zero test before any division
    for name in ("rem", "floor_div", "div"):
        b = fns[name]
        ef = EdgeFacts(b, crate)
        divs = [bb for bb, t in b.calls() if re.search(r"(rem_euclid|div_euclid)$", callee_def(t))]
        for bb, idx, s in b.stmts():
            if idx != "t" and s["k"] == "assign" and s["rv"]["k"] == "bin" and s["rv"]["op"] in ("Div", "Rem"):
                divs.append(bb)
        ok = bool(divs)
        for db in divs:
            dom = False
            for sb in sorted(b.reachable):
                if b.term(sb)["k"] != "switch":
                    continue
                for tgt, fl in ef.facts_for_switch(sb).items():
                    for f in fl:
                        if f[0] == "call" and f[1].endswith("Number::is_zero") and f[3] is False and b.dominates(tgt, db) and tgt != sb:
                            dom = True
            if not dom:
                import rrec
                dom = bool(rrec.gate_call_establishes(b, db, crate, lambda f, h: f[0] == "call" and f[1].endswith("Number::is_zero") and f[3] is False))
            ok = ok and dom
        key = "C13.CALLEE:%s:zero-test" % name
        what = "every division in number::%s is dominated by the false edge of `right.is_zero()` (zero => Err)" % name
        (rep.ok if ok else rep.bad)("C13.CALLEE", key, b.where(0), what if ok else what + " — VIOLATED")
    # div: float division of two as_float() results only
    b = fns["div"]
    tr = Tracer(b, transparent=None)
    fdivs = [(bb, idx, s) for bb, idx, s in b.stmts() if idx != "t" and s["k"] == "assign" and s["rv"]["k"] == "bin" and s["rv"]["op"] in ("Div", "Rem")]
    ok = len(fdivs) == 1 and fdivs[0][2]["rv"]["lty"] == "f64"
    if ok:
        rv = fdivs[0][2]["rv"]
        ok = all(leaf_call_is(l, "value::number::Number::as_float") for l in tr.operand(rv["l"]) | tr.operand(rv["r"]))
    rep.add("C13.CALLEE", "C13.CALLEE:div:float-only", ok, b.where(0), "`/` performs exactly one f64 division of two Number::as_float() results (never an integer division)"
            + ("" if ok else " — VIOLATED"))


CMP_FNS = ["<value::Value as std::cmp::PartialEq>::eq", "<value::Value as std::cmp::PartialOrd>::partial_cmp", "value::cmp_f64_to_number",
           "value::cmp_f64_to_i128", "value::cmp_f64_to_u128"]


def casts(body):
    for bb, idx, s in body.stmts():
        if idx != "t" and s["k"] == "assign" and s["rv"]["k"] == "cast" and s["rv"]["ck"] in ("IntToInt", "IntToFloat", "FloatToInt", "FloatToFloat"):
            yield bb, idx, s["rv"]


def check_cmp(crate, rep, cfg):
    n = 0
    for p in CMP_FNS:
        b = crate.one(p)
        rep.analysed(*crate.with_closures(b))
        for bd in crate.with_closures(b):
            tr = Tracer(bd, transparent=None)
            ef = EdgeFacts(bd, crate)
            k = 0
            for bb, idx, rv in casts(bd):
                n += 1
                key = "C13.CMP:%s:cast#%d:%s" % (bd.path, k, rv["ck"])
                k += 1
                if rv["ck"] == "IntToFloat":
                    ok = rv["op"]["k"] == "const"
                    what = "int->float cast in the comparison skeleton has a constant operand (range bound), never a compared value"
                elif rv["ck"] == "FloatToInt":
                    leaves = tr.operand(rv["op"])
                    is_floor = bool(leaves) and all(leaf_call_is(l, "std::f64::<impl f64>::floor") for l in leaves)
                    # dominated by two range-test false edges (x < MIN -> return, x >= MAX -> return)
                    guards = 0
                    for sb in sorted(bd.reachable):
                        if bd.term(sb)["k"] != "switch" or not bd.dominates(sb, bb):
                            continue
                        for tgt, fl in ef.facts_for_switch(sb).items():
                            for f in fl:
                                if f[0] == "cmp" and f[1] in ("Lt", "Ge", "Le", "Gt") and f[4] is False and bd.dominates(tgt, bb) and tgt != sb:
                                    guards += 1
                    ok = is_floor and guards >= 2
                    what = "float->int cast converts the floor value and is dominated by both range tests"
                elif rv["ck"] == "IntToInt":
                    ok = lossless_int_cast(rv["from"], rv["to"])
                    what = "integer cast %s->%s in the comparison skeleton is a lossless widening" % (rv["from"], rv["to"])
                else:
                    ok = True
                    what = "float->float"
                (rep.ok if ok else rep.bad)("C13.CMP", key, bd.where(bb, idx), what if ok else what + " — VIOLATED: %s %s->%s makes the comparison depend "
                                            "on the representation" % (rv["ck"], rv["from"], rv["to"]))
    rep.floor("C13.CMP", "numeric casts in the comparison skeleton [%s]" % cfg, n, 5)
    # float x float: IEEE comparison (`-0.0 == 0.0`, so neither is less), the documented NaN placement only where that is undecided.
    # A bit-pattern order (total_cmp, to_bits, integer compare of the bits) separates -0.0 from 0.0 and splits NaNs by sign.
    for p in CMP_FNS:
        b = crate.one(p)
        for bd in crate.with_closures(b):
            bits = sorted({callee_def(t).rsplit("::", 1)[-1] for bb, t in bd.calls() if callee_def(t).rsplit("::", 1)[-1] in ("total_cmp", "to_bits", "from_bits", "to_ne_bytes", "to_le_bytes", "to_be_bytes")
                           and ("f64" in callee_def(t) or "f32" in callee_def(t))})
            rep.add("C13.CMP", "C13.CMP:%s:no-bit-pattern-order" % bd.path, not bits, bd.where(0), "floats are never compared through their bit pattern"
                    + ("" if not bits else " — VIOLATED: %s" % bits))
    po = crate.one(CMP_FNS[1])
    ff = [bb for bb, t in po.calls() if callee_def(t) == "std::cmp::PartialOrd::partial_cmp" and t["f"].get("self_ty") in ("f64", "&f64")]
    ok = len(ff) == 1
    why = "%d IEEE partial_cmp calls on f64" % len(ff)
    if ok:
        # its None (a NaN is involved) is the only case decided by hand, through is_nan of the two operands
        import rrec
        se = rrec.ok_edges_of_call(po, crate, ff[0])
        alt = [t for bb, t in po.calls() if callee_def(t).rsplit("::", 1)[-1] in ("unwrap_or_else", "unwrap_or", "map_or_else", "or_else")
               and any(l.kind == "call" and l.detail[2] == ff[0] for l in Tracer(po).operand(t["args"][0]))]
        nan_tests = sum(1 for bd in crate.with_closures(po) for bb, t in bd.calls() if callee_def(t).endswith("<impl f64>::is_nan"))
        ok = (bool(se) or bool(alt)) and nan_tests >= 2
        why = "the undecided case is not settled by is_nan of both operands"
    rep.add("C13.CMP", "C13.CMP:float-float:ieee-then-nan-placement", ok, po.where(ff[0]) if ff else po.where(0), "Value::partial_cmp compares two floats with f64::partial_cmp and "
            "places NaNs by is_nan only when that answers None" + ("" if ok else " — VIOLATED: " + why))
    # integer x integer goes through as_u128 / as_i128 only (no direct payload comparison across widths)
    for p in CMP_FNS[:2]:
        b = crate.one(p)
        direct = []
        for bb, t in b.calls():
            if any(name_matches(n_, ["std::cmp::PartialEq::eq", "std::cmp::PartialOrd::partial_cmp", "std::cmp::Ord::cmp"]) for n_ in callee_names(t)):
                st = t["f"].get("self_ty", "")
                if st in ("u64", "i64", "&u64", "&i64"):
                    direct.append(st)
        key = "C13.CMP:%s:no-width-specific-compare" % p
        (rep.ok if not direct else rep.bad)("C13.CMP", key, b.where(0), "no 64-bit payload is compared directly (integers are compared through as_u128/as_i128)"
                                            + ("" if not direct else " — VIOLATED: %s" % direct))


CONV_FNS = ["value::Value::as_i128", "value::Value::as_u128", "value::Value::as_i64", "value::Value::as_u64", "value::Value::as_number"]
INT_TO_FLOAT_ALLOWED = {
    "value::number::Number::into_float": "float promotion of arithmetic operands (documented: any float operand => floating point)",
    "value::number::Number::as_float": "float view used by `/` and filters",
    "value::Value::as_f64": "guarded by the 2^53 exactness test",
    "args::f32_from_value": "argument extraction into a float-typed filter parameter (the callee asked for a float)",
    "args::<impl std::convert::TryFrom<value::Value> for f64>::try_from": "argument extraction into a float-typed filter parameter",
    "<f64 as args::ArgFromValue<'k>>::from_value": "argument extraction into a float-typed filter parameter",
}


FLOAT_TO_INT_ALLOWED = {
    "args::int_from_value": "argument extraction into an integer-typed parameter: whole, finite, in range",
    "value::cmp_f64_to_i128": "floor value compared with an integer, after both range tests",
    "value::cmp_f64_to_u128": "floor value compared with an integer, after both range tests",
    "value::number::Number::as_integer": "whole, finite float in [i128::MIN, 2^127)",
}


def check_conv(crate, rep, cfg):
    for p in CONV_FNS:
        b = crate.one(p)
        rep.analysed(b)
        bad = [(bb, idx, rv) for bb, idx, rv in casts(b) if not (rv["ck"] == "IntToInt" and lossless_int_cast(rv["from"], rv["to"]))]
        key = "C13.CONV:%s:lossless" % p
        (rep.ok if not bad else rep.bad)("C13.CONV", key, b.where(bad[0][0], bad[0][1]) if bad else b.where(0),
                                         "%s uses only lossless widening casts (narrowing goes through TryFrom)" % p.rsplit("::", 1)[-1]
                                         + ("" if not bad else " — VIOLATED: %s %s->%s" % (bad[0][2]["ck"], bad[0][2]["from"], bad[0][2]["to"])))
    # as_number refuses u128 > i128::MAX via try_from
    b = crate.one("value::Value::as_number")
    ok = any(True for _ in find_calls(b, ["std::convert::TryFrom::try_from"]))
    rep.add("C13.CONV", "C13.CONV:as_number:u128-try_from", ok, b.where(0), "as_number converts U128 through i128::try_from (values above i128::MAX are refused, not wrapped)"
            + ("" if ok else " — VIOLATED"))
    # int_from_value (args): TryFrom + the guarded float case
    for b in [x for x in crate.in_files("args.rs") if x.path.endswith("int_from_value")]:
        rep.analysed(b)
        ef = EdgeFacts(b, crate)
        for k, (bb, idx, rv) in enumerate(casts(b)):
            key = "C13.CONV:int_from_value:cast#%d:%s" % (k, rv["ck"])
            if rv["ck"] == "FloatToInt":
                guards = 0
                for sb in sorted(b.reachable):
                    if b.term(sb)["k"] != "switch" or not b.dominates(sb, bb):
                        continue
                    for tgt, fl in ef.facts_for_switch(sb).items():
                        for f in fl:
                            if f[0] == "cmp" and f[1] in ("Lt", "Ge") and b.dominates(tgt, bb) and tgt != sb:
                                guards += 1
                ok = guards >= 2
                what = "float->i128 cast in int_from_value is dominated by both range tests"
            elif rv["ck"] == "IntToFloat":
                ok = rv["op"]["k"] == "const"
                what = "int->float casts in int_from_value are constant range bounds"
            else:
                ok = lossless_int_cast(rv["from"], rv["to"])
                what = "lossless widening"
            (rep.ok if ok else rep.bad)("C13.CONV", key, b.where(bb, idx), what if ok else what + " — VIOLATED")
    # crate-wide: non-constant int->float casts of 64/128-bit integers only in the listed functions
    n = 0
    for b in crate.bodies.values():
        if not (b.file.endswith("value/mod.rs") or b.file.endswith("value/number.rs") or b.file.endswith("vm/interpreter.rs") or b.file.endswith("args.rs")):
            continue
        for bb, idx, rv in casts(b):
            if rv["ck"] == "IntToFloat" and rv["op"]["k"] != "const" and rv["from"] in WIDE:
                n += 1
                root = crate.root_of(b).path
                ok = root in INT_TO_FLOAT_ALLOWED
                key = "C13.CONV:int-to-float:%s" % root
                (rep.ok if ok else rep.bad)("C13.CONV", key, b.where(bb, idx), "non-constant 64/128-bit int->float cast only in the reviewed conversion functions [%s]" %
                                            INT_TO_FLOAT_ALLOWED.get(root, "UNLISTED") + ("" if ok else " — VIOLATED"))
    rep.floor("C13.CONV", "non-constant wide int->float casts (value, vm, args) [%s]" % cfg, n, 5)
    # crate-wide: a float->int `as` saturates (and maps NaN to 0); only in the reviewed functions, each behind its two range tests
    m = 0
    for b in crate.bodies.values():
        if b.kind == "const":
            continue
        ef = None
        for bb, idx, rv in casts(b):
            if rv["ck"] != "FloatToInt":
                continue
            m += 1
            root = crate.root_of(b).path
            listed = root in FLOAT_TO_INT_ALLOWED
            if ef is None:
                ef = EdgeFacts(b, crate)
            guards = 0
            for sb in sorted(b.reachable):
                if b.term(sb)["k"] != "switch" or not b.dominates(sb, bb) or sb == bb:
                    continue
                for tgt, fl in ef.facts_for_switch(sb).items():
                    for f in fl:
                        if f[0] == "cmp" and f[1] in ("Lt", "Ge", "Le", "Gt") and b.dominates(tgt, bb) and tgt != sb:
                            guards += 1
            ok = listed and guards >= 2
            rep.add("C13.CONV", "C13.CONV:float-to-int:%s" % root, ok, b.where(bb, idx), "float->int cast only in the reviewed functions [%s], behind two range comparisons" %
                    FLOAT_TO_INT_ALLOWED.get(root, "UNLISTED") + ("" if ok else " — VIOLATED: %s" % ("unlisted function" if not listed else "%d dominating range tests" % guards)))
    rep.floor("C13.CONV", "float->int casts in the crate [%s]" % cfg, m, 4)


VM_OPS = {"Mul": "mul", "Div": "div", "FloorDiv": "floor_div", "Mod": "rem", "Plus": "add", "Minus": "sub", "Power": "pow", "Negative": "negate"}


def check_vm(crate, rep, cfg):
    b = crate.one("vm::interpreter::VirtualMachine::<'tera>::interpret")
    instr = crate.adts["parsing::instructions::Instruction"]
    ef = EdgeFacts(b, crate)
    # arm entry blocks per variant
    arm = {}
    for sb in sorted(b.reachable):
        t = b.term(sb)
        if t["k"] != "switch":
            continue
        for tgt, fl in ef.facts_for_switch(sb).items():
            for f in fl:
                if f[0] == "variant" and f[1].endswith("instructions::Instruction") and f[4] and len(f[3]) == 1:
                    arm[next(iter(f[3]))] = (sb, tgt)
    heads = {bb for bb, t in find_calls(b, ["parsing::instructions::Chunk::get"])}
    for v, fn in VM_OPS.items():
        key = "C13.VM:%s->number::%s" % (v, fn)
        if v not in arm:
            rep.bad("C13.VM", key, b.where(0), "anchor-missing: VM arm for Instruction::%s" % v)
            continue
        sb, tgt = arm[v]
        region = b.reach_from(tgt, removed_blocks=frozenset(heads))
        called = {callee_def(t).rsplit("::", 1)[-1] for bb, t in b.calls(sorted(region)) if callee_def(t).startswith("value::number::")}
        ok = called == {fn}
        (rep.ok if ok else rep.bad)("C13.VM", key, b.where(tgt), "the VM arm of Instruction::%s calls exactly value::number::%s" % (v, fn)
                                    + ("" if ok else " — VIOLATED: calls %s" % sorted(called)))
