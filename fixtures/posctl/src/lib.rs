//! Positive controls: tiny known-bad constructs that the zero-expected rules must flag on every run.
#![allow(dead_code, unused)]
pub mod ordctl;
pub mod recctl;
pub mod sinkctl;
pub mod arithctl;
pub mod cellctl;
