//! C13.CHK control: raw i128 addition.
pub fn raw_add(a: i128, b: i128) -> i128 {
    a + b
}
