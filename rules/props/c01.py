"""C01 — autoescaping: no unescaped path from a value to an output; frozen set of safe-mint points."""
from engine import (Tracer, EdgeFacts, find_calls, find_aggs, field_accesses, AnchorMissing, leaf_str, leaf_call_is, pl_projs, pl_str,
                    callee_def, callee_names, callee_name, name_matches, iter_operands, TRANSPARENT_CALLS, VariantWalk, const_table)
import rrec

EXPLANATION = (
    "Decides the taint discipline behind C01 on the type-checked MIR, for every path of the VM: (SINK) every call that receives an output "
    "sink (the `impl Write` parameter or a capture buffer) is classified; a raw `Value::format` to a sink is unreachable once the permit "
    "edges (autoescape off; `is_safe()` of the same value true) are removed from the CFG; a `Value::format` into the scratch buffer is always "
    "followed by the indirect call through `Tera.escape_fn` on that buffer; raw `write_all` only emits template text or the block buffer; "
    "(MINT) the safe mark is minted only at the reviewed points, each with its provenance/dominance condition checked; no SmartString is "
    "built outside SmartString::new/mark_safe; (ISSAFE) per-kind table of Value::is_safe (Array/Map/Bytes never safe, strings by kind); "
    "(ESC) the default escaper has explicit arms for & < > \" ' that write constants free of < > \" '; (CFG) writers of "
    "Template.autoescape_enabled and the override plumbing into child VMs. NOT decided: correctness of user-supplied escape functions and "
    "`is_safe` filters; the exact entity text.")
NOT_DECIDED = "user-supplied escape fn / safe-registered filters; entity text beyond 'contains no special character'"
ASSUMPTIONS = ["with feature fast_escape the escaper is pulldown_cmark_escape::escape_html (trusted third party)"]

SINK_TRANSPARENT = set(TRANSPARENT_CALLS) | {
    "core::slice::<impl [T]>::last_mut", "std::ops::IndexMut::index_mut", "std::option::Option::<T>::unwrap",
    "std::string::String::from_utf8", "std::result::Result::<T, E>::unwrap", "std::string::String::as_str",
    "std::str::from_utf8_unchecked",
}
# non-writing management of capture buffers (stack discipline), accepted idioms
SINK_IDIOMS = {
    "std::vec::Vec::<T, A>::pop", "std::vec::Vec::<T, A>::push", "std::vec::Vec::<T, A>::is_empty", "std::vec::Vec::<T, A>::len",
    "std::ops::DerefMut::deref_mut", "std::ops::Deref::deref", "core::slice::<impl [T]>::last_mut", "std::ops::IndexMut::index_mut",
    "std::ops::Index::index", "std::mem::take", "std::mem::replace", "std::ops::Drop::drop", "std::mem::drop",
    "std::vec::Vec::<T, A>::clear", "std::str::from_utf8_unchecked",
}
PASS_ON = ("VirtualMachine::<'tera>::interpret", "VirtualMachine::<'tera>::render_include", "VirtualMachine::<'tera>::render_to")


def run(ctx, rep):
    for cfg in ctx.tera_configs():
        crate = ctx.crate(cfg)
        check_sink(crate, rep, cfg)
        check_mint(crate, rep, cfg)
        check_issafe(crate, rep, cfg)
        check_esc(crate, rep, cfg)
        check_cfg(crate, rep, cfg)
        # a literal in an expression is escaped at render time by WriteTop: the fusion pass must not turn value writes into text writes
        # (it may build only the path-fusion instructions) — C09.ONLY, shared
        from props import c09
        c09.check_only(crate, crate.one("parsing::instructions::Chunk::optimize"), rep, cfg)
    pos = ctx.posctl()
    b = pos.bodies.get("sinkctl::VM::leaky")
    fired = False
    if b is not None:
        from engine import Report
        r2 = Report("ctl")
        sink_rule(pos, b, r2, "posctl", counts={})
        fired = any(not i.ok for i in r2.instances)
    if not ctx.control("C01.SINK", fired):
        raise AnchorMissing("positive control for C01.SINK did not fire")


# ------------------------------------------------------------------------------------------------------------ SINK

def sink_params(body):
    out = set()
    for i in range(1, body.arg_count + 1):
        ty = body.local_ty(i)
        if "impl std::io::Write" in ty or "dyn std::io::Write" in ty or "impl Write" in ty:
            out.add(i)
    return out


def classify_writer(body, tr, op, sinks):
    """'out' | 'capture' | 'escape_buffer' | 'block_buffer' | None for an argument operand"""
    if op["k"] == "const":
        return None
    kinds = set()
    for l in tr.operand(op):
        if l.kind == "param" and l.detail in sinks and not [p for p in l.projs if p.startswith(".")]:
            kinds.add("out")
        elif ".capture_buffers" in l.projs:
            kinds.add("capture")
        elif ".escape_buffer" in l.projs:
            kinds.add("escape_buffer")
        elif ".block_buffer" in l.projs:
            kinds.add("block_buffer")
    for k in ("out", "capture", "escape_buffer", "block_buffer"):
        if k in kinds:
            return k
    return None


def sink_rule(crate, body, rep, cfg, counts):
    sinks = sink_params(body)
    tr = Tracer(body, transparent=SINK_TRANSPARENT)
    ef = EdgeFacts(body, crate)
    ordn = {}

    def nxt(label):
        n = ordn.get(label, 0)
        ordn[label] = n + 1
        counts[label] = counts.get(label, 0) + 1
        return n

    # permit edges
    permit = set()
    permit_safe = {}   # edge -> leaves of the is_safe receiver
    for sb in sorted(body.reachable):
        t = body.term(sb)
        if t["k"] != "switch":
            continue
        for tgt, fl in ef.facts_for_switch(sb).items():
            for f in fl:
                if f[0] == "call" and f[1].endswith("::autoescape_enabled") and f[3] is False:
                    permit.add((sb, tgt))
                if f[0] == "call" and f[1].endswith("value::Value::is_safe") and f[3] is True:
                    permit.add((sb, tgt))
                    permit_safe[(sb, tgt)] = f
    for bb, t in body.calls():
        f = t["f"]
        wk = [(i, classify_writer(body, tr, a, sinks)) for i, a in enumerate(t["args"])]
        wk = [(i, k) for i, k in wk if k]
        if not wk and not f.get("indirect"):
            continue
        names = callee_names(t)
        if f.get("indirect"):
            # indirect call: must be the configured escape function
            fl = tr.operand(f["op"])
            is_esc = bool(fl) and all(".escape_fn" in l.projs for l in fl)
            if not is_esc:
                if wk:
                    rep.bad("C01.SINK", "C01.SINK:%s:indirect#%d" % (body.path, nxt("indirect-other")), body.where(bb),
                            "indirect call receives an output sink but is not `Tera.escape_fn`")
                continue
            src = tr.operand(t["args"][0])
            from_buf = bool(src) and all(".escape_buffer" in l.projs for l in src)
            key = "C01.SINK:%s:escape_fn#%d" % (body.path, nxt("escape_fn"))
            what = "the escaper is applied to the scratch buffer just filled by Value::format and writes to the sink"
            (rep.ok if from_buf and wk else rep.bad)("C01.SINK", key, body.where(bb), what if from_buf and wk else what + " — VIOLATED: input origin %s" %
                                                     sorted(leaf_str(l) for l in src)[:2])
            continue
        if any(n.endswith("value::Value::format") for n in names):
            target = classify_writer(body, tr, t["args"][1], sinks)
            if target in ("out", "capture"):
                key = "C01.SINK:%s:format->%s#%d" % (body.path, target, nxt("format->" + target))
                # same-value condition: every is_safe permit edge used must test the value being written
                val = {(l.kind, l.detail) for l in tr.operand(t["args"][0])}
                usable = set()
                for e in permit:
                    f2 = permit_safe.get(e)
                    if f2 is None:
                        usable.add(e)
                    else:
                        call = body.term(f2[4])
                        recv = {(l.kind, l.detail) for l in tr.operand(call["args"][0])}
                        if recv == val:
                            usable.add(e)
                reach = body.reach_from(0, removed_edges=frozenset(usable))
                what = ("raw Value::format to the %s is unreachable once the permit edges (autoescape off / is_safe() of the same value) are "
                        "removed from the CFG" % ("output" if target == "out" else "capture buffer"))
                if bb in reach:
                    rep.bad("C01.SINK", key, body.where(bb), what + " — VIOLATED: a value can be written to the output without passing the escaper "
                            "and without carrying the safe mark")
                else:
                    rep.ok("C01.SINK", key, body.where(bb), what)
            elif target == "escape_buffer":
                key = "C01.SINK:%s:format->escape_buffer#%d" % (body.path, nxt("format->escape_buffer"))
                esc_blocks = set()
                for b2, t2 in body.calls():
                    if t2["f"].get("indirect"):
                        fl = tr.operand(t2["f"]["op"])
                        if fl and all(".escape_fn" in l.projs for l in fl):
                            esc_blocks.add(b2)
                heads = {b2 for b2, t2 in find_calls(body, ["parsing::instructions::Chunk::get"])}
                reach = body.reach_from(t["t"], removed_blocks=frozenset(esc_blocks)) if t["t"] is not None else set()
                what = "after formatting into the scratch buffer, the next instruction is reached only through the escape_fn call (or an error return)"
                if not heads:
                    rep.bad("C01.SINK", key, body.where(bb), what + " — anchor-missing: dispatch loop head")
                elif reach & heads:
                    rep.bad("C01.SINK", key, body.where(bb), what + " — VIOLATED")
                else:
                    rep.ok("C01.SINK", key, body.where(bb), what)
            else:
                # formatting into some other local buffer (e.g. Display impl): not a sink of the VM
                continue
            continue
        if any(n.endswith("std::io::Write::write_all") for n in names):
            target = wk[0][1] if wk else None
            if target not in ("out", "capture"):
                continue
            src = tr.operand(t["args"][1])
            ok = bool(src) and all(("as:WriteText" in l.projs) or (".block_buffer" in l.projs) for l in src)
            key = "C01.SINK:%s:write_all#%d" % (body.path, nxt("write_all"))
            what = "raw write_all to the sink only emits template text (Instruction::WriteText payload) or the finished block buffer"
            (rep.ok if ok else rep.bad)("C01.SINK", key, body.where(bb), what if ok else what + " — VIOLATED: bytes origin %s" % sorted(leaf_str(l) for l in src)[:2])
            continue
        if callee_def(t).endswith("Vec::<T, A>::extend_from_slice") and wk and wk[0][0] == 0 and wk[0][1] in ("out", "capture"):
            # bytes copied from one of the VM's own output buffers: a fresh local Vec that was handed, as the sink, to the VM's own
            # interpret (so everything in it already went through this very discipline)
            src = {(l.kind, l.detail) for l in tr.operand(t["args"][1])}
            fed = False
            for b2, t2 in body.calls():
                if any(n.endswith(PASS_ON) for n in callee_names(t2)) and t2["args"]:
                    o = {(l.kind, l.detail) for l in tr.operand(t2["args"][-1])}
                    if o and o == src and all(k == "call" and (d[0].endswith("::with_capacity") or d[0].endswith("Vec::<T>::new")) for k, d in o):
                        fed = True
            key = "C01.SINK:%s:copy-of-vm-output#%d" % (body.path, nxt("copy-of-vm-output"))
            what = "bytes appended to the sink come from a fresh local buffer that the VM's own interpret filled as its output sink"
            (rep.ok if fed else rep.bad)("C01.SINK", key, body.where(bb), what if fed else what + " — VIOLATED: origin %s" % sorted(src)[:2])
            continue
        if any(n.endswith(PASS_ON) for n in names):
            key = "C01.SINK:%s:pass-on:%s#%d" % (body.path, callee_def(t).rsplit("::", 1)[-1], nxt("pass-on"))
            rep.ok("C01.SINK", key, body.where(bb), "the sink is handed on to the VM's own %s (analysed by the same rule)" % callee_def(t).rsplit("::", 1)[-1])
            continue
        if any(n in SINK_IDIOMS for n in names) or callee_def(t) in SINK_IDIOMS:
            nxt("idiom")
            continue
        if callee_def(t) in ("std::option::Option::<T>::expect", "std::option::Option::<T>::unwrap"):
            # `capture_buffers.last_mut().expect(..)`: navigation to the buffer, writes nothing
            nxt("idiom")
            continue
        if callee_def(t) == "std::option::Option::<T>::map" and len(t["args"]) == 2 and t["args"][1]["k"] == "const" and \
                str(t["args"][1].get("fn", "")) in ("std::mem::take",):
            # `capture_buffers.last_mut().map(std::mem::take)`: moves the buffer out, writes nothing
            nxt("idiom")
            continue
        if all(k in ("escape_buffer", "block_buffer") for _, k in wk):
            # only reads of the scratch buffers (from_utf8 etc.)
            continue
        key = "C01.SINK:%s:unrecognised:%s#%d" % (body.path, callee_def(t), nxt("unrecognised"))
        rep.bad("C01.SINK", key, body.where(bb), "unrecognised write to an output sink: call of %s with the sink as argument — every writer must be "
                "the escaper, a guarded Value::format, template text, or the VM itself" % callee_def(t))


def check_sink(crate, rep, cfg):
    counts = {}
    bodies = [b for b in crate.in_files("vm/interpreter.rs")] + \
             [b for b in crate.in_files("tera.rs") if "::render" in b.path or "one_off" in b.path]
    for b in bodies:
        rep.analysed(b)
        sink_rule(crate, b, rep, cfg, counts)
    rep.floor("C01.SINK", "raw Value::format to output [%s]" % cfg, counts.get("format->out", 0), 2)
    rep.floor("C01.SINK", "raw Value::format to capture [%s]" % cfg, counts.get("format->capture", 0), 2)
    rep.floor("C01.SINK", "Value::format into the scratch buffer [%s]" % cfg, counts.get("format->escape_buffer", 0), 2)
    rep.floor("C01.SINK", "escape_fn calls [%s]" % cfg, counts.get("escape_fn", 0), 4)
    rep.floor("C01.SINK", "raw write_all to a sink [%s]" % cfg, counts.get("write_all", 0), 3)
    # escape_buffer writers: clear + Value::format only
    n = 0
    for a in field_accesses(crate, "vm::state::State", "escape_buffer"):
        if a["kind"] == "call" and a["mut"]:
            n += 1
            meth = a["callee"].rsplit("::", 1)[-1]
            ok = meth in ("clear", "format")
            key = "C01.SINK:escape_buffer-writer:%s:%s" % (a["body"].path, meth)
            (rep.ok if ok else rep.bad)("C01.SINK", key, a["body"].where(a["bb"]), "State.escape_buffer is written only by Vec::clear and Value::format"
                                        + ("" if ok else " — VIOLATED: %s" % a["callee"]))
        elif a["kind"] in ("assign", "assign-part"):
            rep.bad("C01.SINK", "C01.SINK:escape_buffer-writer:%s:assign" % a["body"].path, a["body"].where(a["bb"], a["idx"]),
                    "State.escape_buffer assigned directly")
    rep.floor("C01.SINK", "mutating uses of State.escape_buffer [%s]" % cfg, n, 4)


# ------------------------------------------------------------------------------------------------------------ MINT

MINT_DEFS = {"value::Value::safe_string", "value::SmartString::mark_safe", "value::Value::mark_safe"}


def check_mint(crate, rep, cfg):
    counts = {}

    def count(row):
        counts[row] = counts.get(row, 0) + 1
        return counts[row] - 1

    for b in crate.bodies.values():
        root = crate.root_of(b).path
        tr = Tracer(b, transparent=SINK_TRANSPARENT)
        ef = None
        # (a) Safe constants
        for bb, idx, s in find_aggs(b, "value::StringKind", "Safe"):
            ok = b.path in ("value::Value::safe_string", "value::SmartString::mark_safe")
            key = "C01.MINT:safe-const:%s#%d" % (b.path, count("const:" + b.path))
            (rep.ok if ok else rep.bad)("C01.MINT", key, b.where(bb, idx), "StringKind::Safe is constructed only inside Value::safe_string / SmartString::mark_safe"
                                        + ("" if ok else " — VIOLATED: a new mint point"))
        # (d) SmartString aggregates
        for bb, idx, s in find_aggs(b, "value::SmartString"):
            ok = b.path in ("value::SmartString::new", "value::SmartString::mark_safe") or rrec.derive_generated(crate, b.path)
            key = "C01.MINT:smartstring-agg:%s#%d" % (b.path, count("ss:" + b.path))
            (rep.ok if ok else rep.bad)("C01.MINT", key, b.where(bb, idx), "SmartString values are built only by SmartString::new / mark_safe (and derived Clone)"
                                        + ("" if ok else " — VIOLATED"))
        # (c) SmartString::new with a non-constant kind
        for bb, t in find_calls(b, ["value::SmartString::new"]):
            leaves = tr.operand(t["args"][1])
            consts = [l for l in leaves if l.kind == "agg" and l.detail[1] == "value::StringKind"]
            if leaves and len(consts) == len(leaves):
                kinds = {l.detail[2] for l in consts}
                if kinds == {"Normal"}:
                    count("normal")
                    continue
                ok = b.path == "value::Value::safe_string"
                key = "C01.MINT:new-safe:%s" % b.path
                (rep.ok if ok else rep.bad)("C01.MINT", key, b.where(bb), "SmartString::new(_, Safe) only in Value::safe_string" + ("" if ok else " — VIOLATED"))
            else:
                ok = bool(leaves) and all(leaf_call_is(l, "value::SmartString::kind") for l in leaves) and b.path in ("value::Value::get_item", "value::Value::slice")
                key = "C01.MINT:new-kind-inherited:%s" % b.path
                count("row9")
                what = "string index/slice results inherit `.kind()` of the receiver string (a part of an escaped text stays escaped)"
                (rep.ok if ok else rep.bad)("C01.MINT", key, b.where(bb), what if ok else what + " — VIOLATED: kind origin %s" % sorted(leaf_str(l) for l in leaves)[:2])
        # (b) calls of the mint functions
        for bb, t in find_calls(b, list(MINT_DEFS)):
            cd = callee_def(t)
            if b.path in MINT_DEFS:
                # Value::mark_safe -> SmartString::mark_safe (definition chain)
                rep.ok("C01.MINT", "C01.MINT:def:%s->%s" % (b.path, cd.rsplit("::", 2)[-2] + "::" + cd.rsplit("::", 1)[-1]), b.where(bb), "definition chain of the mark")
                count("row1")
                continue
            leaves = tr.operand(t["args"][0])
            lstr = sorted(leaf_str(l) for l in leaves)
            row, ok, what = classify_mint(crate, b, bb, t, cd, leaves)
            key = "C01.MINT:%s:%s#%d" % (b.path, row, count(row))
            (rep.ok if ok else rep.bad)("C01.MINT", key, b.where(bb), what if ok else what + " — VIOLATED: argument origin %s" % lstr[:2])
        # function-item uses
        for bb, idx, s in b.stmts():
            for op in iter_operands(s):
                if op["k"] == "const" and op.get("fn") in MINT_DEFS:
                    if idx == "t" and s["k"] == "call" and s["f"].get("def") == op["fn"]:
                        continue
                    ok = b.path == "tera::Tera::render_component_to"
                    key = "C01.MINT:%s:fn-item:%s" % (b.path, op["fn"].rsplit("::", 1)[-1])
                    count("row8")
                    what = "Value::safe_string passed as a function value only in Tera::render_component_to (API contract: the caller supplies the body as markup)"
                    (rep.ok if ok else rep.bad)("C01.MINT", key, b.where(bb, idx), what if ok else what + " — VIOLATED")
    floors = {"row1": 1, "explicit-safe-filter": 1, "end-capture": 1, "component-result": 2, "component-body": 1, "super-output": 1,
              "registered-safe": 3, "row8": 1, "row9": 2, "normal": 8}
    for row, fl in floors.items():
        rep.floor("C01.MINT", "mint sites of class %s [%s]" % (row, cfg), counts.get(row, 0), fl)


def classify_mint(crate, b, bb, t, cd, leaves):
    if b.path == "filters::safe":
        return "explicit-safe-filter", True, "the `safe` filter is the explicit user mark"
    ls = list(leaves)
    if b.path.endswith("::interpret") or b.path.endswith("State::<'t>::call_filter"):
        if ls and all(leaf_call_is(l, "std::vec::Vec::<T, A>::pop") for l in ls) and cd.endswith("safe_string"):
            # the popped Vec is state.capture_buffers
            call = b.term(ls[0].detail[2])
            recv = Tracer(b).operand(call["args"][0])
            ok = bool(recv) and any(".capture_buffers" in l.projs for l in recv) and \
                all(".capture_buffers" in l.projs or leaf_call_is(l, "std::mem::take") for l in recv)
            return "end-capture", ok, "EndCapture mints the text popped from capture_buffers (escaped when it was written — C01.SINK)"
        if ls and all(leaf_call_is(l, "vm::interpreter::VirtualMachine::<'tera>::render_component") for l in ls):
            return "component-result", True, "the text returned by render_component (written through the same VM) is minted safe"
        if ls and all(leaf_call_is(l, "vm::stack::Stack::pop") for l in ls) and cd.endswith("mark_safe"):
            # must be in the has-body branch of a component call: the next calls include build_context
            ok = False
            tr2 = Tracer(b, transparent=SINK_TRANSPARENT)
            for cb, ct in find_calls(b, ["parsing::ast::ComponentDefinition::build_context"]):
                a = ct["args"][-1]
                body_arg = tr2.place(a["pl"], ["as:Some", ".0"]) if a["k"] in ("copy", "move") else set()
                if any(l.kind == "call" and l.detail[2] == bb for l in body_arg):
                    ok = True
            return "component-body", ok, "the component body popped from the stack (pushed by EndCapture) is marked safe before build_context"
        if ls and all(leaf_call_is(l, "std::vec::Vec::<T>::with_capacity") for l in ls) and cd.endswith("safe_string"):
            return "super-output", True, "super(): the local buffer filled by the nested interpret is minted safe"
        if ls and all(leaf_call_is(l, "functions::StoredFunction::call", "filters::StoredFilter::call") for l in ls) and cd.endswith("mark_safe"):
            ef = EdgeFacts(b, crate)
            ok = False
            for sb in sorted(b.reachable):
                if b.term(sb)["k"] != "switch" or not b.dominates(sb, bb):
                    continue
                for tgt, fl in ef.facts_for_switch(sb).items():
                    for f in fl:
                        if f[0] == "call" and (f[1].endswith("StoredFunction::is_safe") or f[1].endswith("StoredFilter::is_safe")) and f[3] is True \
                                and b.dominates(tgt, bb) and tgt != sb:
                            ok = True
            return "registered-safe", ok, "result of a registered filter/function is marked safe only on the true edge of its is_safe() flag"
    return "unlisted", False, "mint point is one of the reviewed classes"


# ------------------------------------------------------------------------------------------------------------ ISSAFE

def check_issafe(crate, rep, cfg):
    f = crate.one("value::Value::is_safe")
    vi = crate.adts["value::ValueInner"]
    rep.analysed(f)
    vw = VariantWalk(f, vi, 1, lambda l: 0 if l.kind == "param" and l.detail == 1 else None)
    st = vw.run()
    outcome = {v: set() for v in vi.variant_names()}
    for bb, idx, s in f.stmts():
        tuples = st.get(bb, ())
        if idx == "t":
            if s["k"] == "call" and s["dest"]["l"] == 0:
                for (v,) in tuples:
                    outcome[v].add("call:" + callee_def(s).rsplit("::", 1)[-1])
        elif s["k"] == "assign" and s["pl"]["l"] == 0 and not s["pl"]["p"]:
            rv = s["rv"]
            val = "expr"
            if rv["k"] == "use" and rv["op"]["k"] == "const":
                val = "const:" + str(rv["op"].get("v"))
            for (v,) in tuples:
                outcome[v].add(val)
    for v in vi.variant_names():
        o = outcome[v]
        key = "C01.ISSAFE:%s" % v
        if v == "String":
            ok = o and not any(x.startswith("const") for x in o)
            what = "String: is_safe compares the string's kind with Safe (not a constant)"
        elif v in ("Array", "Map", "Bytes"):
            ok = o == {"const:0"}
            what = "%s: is_safe is constant false (its format emits member strings verbatim, so it must be escaped)" % v
        else:
            ok = o == {"const:1"}
            what = "%s: is_safe is constant true (format writes only constants / numeric Display — checked below)" % v
        (rep.ok if ok else rep.bad)("C01.ISSAFE", key, f.where(0), what if ok else what + " — VIOLATED: outcomes %s" % sorted(o))
    # Value::format arms of the always-safe kinds never write a str payload
    fm = crate.one("value::Value::format")
    rep.analysed(fm)
    vw = VariantWalk(fm, vi, 1, lambda l: 0 if l.kind == "param" and l.detail == 1 and ".inner" in l.projs and not any(p.startswith("as:") for p in l.projs) else None)
    st = vw.run()
    tr = Tracer(fm)
    always_safe = [v for v in vi.variant_names() if v not in ("String", "Array", "Map", "Bytes")]
    for bb, t in find_calls(fm, ["std::io::Write::write_all"]):
        tuples = st.get(bb, ())
        vs = {v for (v,) in tuples}
        src = tr.operand(t["args"][1])
        const_only = bool(src) and all(l.kind == "const" or leaf_call_is(l, "itoa::Buffer::format") for l in src)
        for v in vs & set(always_safe):
            key = "C01.ISSAFE:format:%s:write_all" % v
            (rep.ok if const_only else rep.bad)("C01.ISSAFE", key, fm.where(bb), "format's arm for always-safe kind %s writes only constants/number digits" % v
                                                + ("" if const_only else " — VIOLATED: writes %s" % sorted(leaf_str(l) for l in src)[:2]))


# ------------------------------------------------------------------------------------------------------------ ESC

SPECIALS = {"38": "&", "60": "<", "62": ">", "34": "\"", "39": "'"}


def closure_stops_at_all_specials(cb):
    """the predicate closure answers true for each of the five special bytes"""
    for sb in sorted(cb.reachable):
        t = cb.term(sb)
        if t["k"] != "switch" or t.get("ty") != "u8":
            continue
        tg = dict((v, tgt) for v, tgt in t["targets"])
        if not all(v in tg for v in SPECIALS):
            continue
        good = True
        for v in SPECIALS:
            vals = set()
            for bb, idx, st in cb.stmts(sorted(cb.reach_from(tg[v], removed_blocks=frozenset([sb])))):
                if idx != "t" and st.get("k") == "assign" and st["pl"]["l"] == 0 and not st["pl"]["p"] and st["rv"]["k"] == "use" and st["rv"]["op"]["k"] == "const":
                    vals.add(str(st["rv"]["op"].get("v")))
            if vals != {"1"} or tg[v] == t["otherwise"]:
                good = False
        if good:
            return True
    return False


def check_esc(crate, rep, cfg):
    feats = set(crate.features)
    cands = [b for b in crate.in_files("utils.rs") if b.path.endswith("escape_html")]
    if len(cands) != 1:
        rep.anchor_missing("C01.ESC", "utils::escape_html")
        return
    f = cands[0]
    rep.analysed(f)
    if "fast_escape" in feats:
        ok = any(True for _ in find_calls(f, ["pulldown_cmark_escape::escape_html", "escape_html"], pred=lambda t: "pulldown" in callee_def(t)))
        rep.add("C01.ESC", "C01.ESC:fast_escape:delegates", ok, f.where(0), "with fast_escape the escaper delegates to pulldown_cmark_escape::escape_html (trusted)"
                + ("" if ok else " — VIOLATED"))
        return
    # byte switch with explicit targets for the five specials, each writing a constant that contains none of < > " '
    found = {}
    tr = Tracer(f)
    for sb in sorted(f.reachable):
        t = f.term(sb)
        if t["k"] != "switch" or t["ty"] != "u8":
            continue
        for v, tgt in t["targets"]:
            if v in SPECIALS:
                # constant written on that arm
                region = f.reach_from(tgt, removed_blocks=frozenset([sb]))
                consts = set()
                for bb, idx, s in f.stmts(sorted(f.dominated_by(tgt)) if tgt != t["otherwise"] else []):
                    for op in iter_operands(s):
                        if op["k"] == "const" and "s" in op:
                            consts.add(op["s"])
                found[v] = (tgt, consts)
    for v, ch in SPECIALS.items():
        key = "C01.ESC:default:byte=%s" % v
        if v not in found:
            rep.bad("C01.ESC", key, f.where(0), "the default escaper has an explicit arm for %r — VIOLATED: no arm; the byte is copied through" % ch)
            continue
        tgt, consts = found[v]
        ok = bool(consts) and all(not any(c in s for c in "<>\"'") for s in consts)
        what = "the default escaper's arm for %r writes a constant entity free of < > \" ' (%s)" % (ch, sorted(consts))
        (rep.ok if ok else rep.bad)("C01.ESC", key, f.where(tgt), what if ok else what + " — VIOLATED")
    # ... and nothing else of the input reaches the output raw: a write whose bytes come from the input is either ONE byte (the byte the
    # five-way switch just looked at, `slice::from_ref(c)`), or a run that a search for the first special character has cleared — and
    # that search must stop at all five
    k = 0
    for bd in crate.with_closures(f):
        btr = Tracer(bd)
        for bb, t in bd.calls():
            if not callee_def(t).endswith("Write::write_all"):
                continue
            data = [l for l in btr.operand(t["args"][1]) if l.kind != "cycle"]
            # `entity(c).unwrap_or(from_ref(c))`: either alternative; a crate-local lookup table of constants counts as a constant
            from props.c07 import returns_only_consts
            for _ in range(3):
                nxt = []
                for l in data:
                    if l.kind == "call" and l.detail[0].rsplit("::", 1)[-1] in ("unwrap_or", "unwrap_or_else"):
                        ct = bd.term(l.detail[2])
                        for a in ct["args"]:
                            nxt += [x for x in btr.operand(a) if x.kind != "cycle"]
                    elif l.kind == "agg" and l.detail[0] == "adt" and l.detail[2] == "Some":
                        nxt += [x for x in btr.operand(bd.blocks[l.detail[3]]["s"][l.detail[4]]["rv"]["ops"][0]) if x.kind != "cycle"]
                    elif l.kind == "agg" and l.detail[0] == "adt" and l.detail[2] == "None":
                        continue
                    elif l.kind == "call" and l.detail[0] in crate.bodies and returns_only_consts(crate, crate.bodies[l.detail[0]]):
                        nxt.append(type(l)(("const", ("table", l.detail[0]), ())))
                    else:
                        nxt.append(l)
                data = nxt
            if all(l.kind == "const" for l in data):
                continue     # constants only (an entity)
            ok, why = True, ""
            for l in data:
                if l.kind == "const" or (l.kind == "call" and l.detail[0].endswith("from_ref")):
                    continue
                if l.kind == "agg" and l.detail[0] == "array" and len(bd.blocks[l.detail[3]]["s"][l.detail[4]]["rv"]["ops"]) == 1:
                    continue     # `&[*c]`: one byte
                # a run of input bytes: cleared by position(|b| <special?>) — whole input on its None edge, or the prefix below its result
                pos = [(pb, pt) for pb, pt in bd.calls() if callee_def(pt).endswith("Iterator::position") and bd.dominates(pb, bb)]
                cleared = False
                for pb, pt in pos:
                    cls = [bd.blocks[x.detail[3]]["s"][x.detail[4]]["rv"]["def"] for x in btr.operand(pt["args"][1]) if x.kind == "agg" and x.detail[0] == "closure"]
                    if len(cls) == 1 and cls[0] in crate.bodies and closure_stops_at_all_specials(crate.bodies[cls[0]]):
                        cleared = True
                if not cleared:
                    ok, why = False, "a run of input bytes (%s) is written without a search that stops at all of & < > \" '" % leaf_str(l)
            rep.add("C01.ESC", "C01.ESC:default:raw-write#%d" % k, ok, bd.where(bb), "input bytes are written raw one at a time behind the five-way switch, or as a run cleared by a "
                    "search for all five special characters" + ("" if ok else " — VIOLATED: " + why))
            k += 1
    # escape_fn default value and writers
    n = 0
    for a in field_accesses(crate, "tera::Tera", "escape_fn"):
        if a["kind"] in ("assign", "agg-init"):
            n += 1
            b = a["body"]
            ok = b.path in ("tera::Tera::set_escape_fn", "tera::Tera::reset_escape_fn", "<tera::Tera as std::default::Default>::default",
                            "<tera::Tera as std::clone::Clone>::clone")
            key = "C01.ESC:escape_fn-writer:%s" % b.path
            (rep.ok if ok else rep.bad)("C01.ESC", key, b.where(a["bb"], a["idx"]), "Tera.escape_fn is set only by Default (escape_html), set_escape_fn, reset_escape_fn"
                                        + ("" if ok else " — VIOLATED"))
    rep.floor("C01.ESC", "writers of Tera.escape_fn [%s]" % cfg, n, 3)


# ------------------------------------------------------------------------------------------------------------ CFG

def check_suffix_rule(crate, rep, cfg):
    """C01.CFG — a template is autoescaped iff its registered name ends with one of the configured suffixes, both compared AS THEY ARE: the
    flag is the result of `suffixes.iter().any(|s| name.ends_with(s))` with `name` the map key itself and `s` the stored suffix — no case
    folding or other transformation on one side only (a suffix that can then never match silently switches escaping off)."""
    b = crate.one("tera::Tera::set_templates_auto_escape")
    rep.analysed(b)
    tr = Tracer(b)
    ws = [(bb, idx, st) for bb, idx, st in b.stmts() if idx != "t" and st.get("k") == "assign" and pl_projs(st["pl"])[-1:] == [".autoescape_enabled"]]
    anys = [(bb, t) for bb, t in b.calls() if callee_def(t).endswith("Iterator::any")]
    ok = len(ws) == 1 and len(anys) == 1
    why = "flag assignment / any() call not found"
    if ok:
        # the flag is the any() result
        fl = tr._rv(ws[0][2]["rv"], (), set(), 0, ws[0][0], ws[0][1])
        ok = bool(fl) and all(l.kind == "call" and l.detail[2] == anys[0][0] for l in fl)
        why = "the flag is not the result of the suffix search"
        # the suffixes searched are the stored ones
        il = tr.operand(anys[0][1]["args"][0])
        ok = ok and bool(il) and all(l.kind == "call" and l.detail[0].endswith("::iter") for l in il)
        for l in il:
            if l.kind == "call":
                rl = tr.operand(b.term(l.detail[2])["args"][0])
                ok = ok and bool(rl) and all(x.kind == "param" and x.detail == 1 and ".autoescape_suffixes" in x.projs for x in rl)
    if ok:
        cls = [st["rv"]["def"] for b2, i2, st in b.stmts() if i2 != "t" and st.get("k") == "assign" and st["rv"]["k"] == "agg" and st["rv"].get("ak") == "closure"]
        ok = len(cls) == 1 and cls[0] in crate.bodies
        why = "suffix predicate closure not found"
        if ok:
            cb = crate.bodies[cls[0]]
            calls = [callee_def(t) for bb, t in cb.calls()]
            extra = [c for c in calls if not c.endswith(("::deref", "::as_ref", "::as_str", "<impl str>::ends_with", "::borrow"))]
            ew = [(bb, t) for bb, t in cb.calls() if callee_def(t).endswith("<impl str>::ends_with")]
            ok = not extra and len(ew) == 1
            why = "the predicate transforms an operand before comparing: %s" % sorted(set(extra))[:3]
            if ok:
                ctr = Tracer(cb)
                recv = ctr.operand(ew[0][1]["args"][0])
                pat = ctr.operand(ew[0][1]["args"][1])
                ok = bool(recv) and all(x.kind == "param" and x.detail == 1 for x in recv) and bool(pat) and all(x.kind == "param" and x.detail == 2 for x in pat)
                why = "ends_with is not `captured name`.ends_with(`the suffix element`)"
                # the captured value is the iterated map key
                ups = cb.j.get("upvars", [])
                ok = ok and len(ups) == 1
        if ok:
            agg = [(b2, i2, st) for b2, i2, st in b.stmts() if i2 != "t" and st.get("k") == "assign" and st["rv"]["k"] == "agg" and st["rv"].get("ak") == "closure"][0]
            cap = tr.operand(agg[2]["rv"]["ops"][0])
            ok = bool(cap) and all(x.kind == "call" and x.detail[0].endswith("Iterator::next") and x.projs[:3] == ("as:Some", ".0", ".0") for x in cap)
            why = "the name compared is not the map key of the template being flagged"
    rep.add("C01.CFG", "C01.CFG:suffix-rule:plain-ends_with", ok, b.where(ws[0][0]) if ws else b.where(0), "autoescape_enabled = autoescape_suffixes.iter().any(|s| key.ends_with(s)) on the "
            "template's own map key and the stored suffix, nothing else" + ("" if ok else " — VIOLATED: " + why))


def check_cfg(crate, rep, cfg):
    check_suffix_rule(crate, rep, cfg)
    allowed = {"template::Template::new", "tera::Tera::set_templates_auto_escape", "tera::Tera::render_str_to"}
    n = 0
    for a in field_accesses(crate, "template::Template", "autoescape_enabled"):
        if a["kind"] not in ("assign", "agg-init"):
            continue
        b = a["body"]
        root = crate.root_of(b).path
        n += 1
        ok = root in allowed or rrec.derive_generated(crate, root)
        key = "C01.CFG:writer:%s" % root
        (rep.ok if ok else rep.bad)("C01.CFG", key, b.where(a["bb"], a["idx"]), "Template.autoescape_enabled is written only by Template::new (true), "
                                    "set_templates_auto_escape (suffix rule) and render_str_to (API flag)" + ("" if ok else " — VIOLATED"))
    rep.floor("C01.CFG", "writers of Template.autoescape_enabled [%s]" % cfg, n, 3)
    # Template::new initialises it to true
    tn = crate.one("template::Template::new")
    for bb, idx, s in find_aggs(tn, "template::Template", "Template"):
        rv = s["rv"]
        op = rv["ops"][rv["fields"].index("autoescape_enabled")]
        ok = op["k"] == "const" and op.get("v") == "1"
        rep.add("C01.CFG", "C01.CFG:Template::new:default-true", ok, tn.where(bb, idx), "a new template starts with autoescaping on" + ("" if ok else " — VIOLATED"))
    # finalize ends with set_templates_auto_escape on the success path
    fin = crate.one("tera::Tera::finalize_templates")
    calls = [bb for bb, t in find_calls(fin, ["tera::Tera::set_templates_auto_escape"])]
    ok = False
    if calls:
        commit = [bb for bb, t in find_calls(fin, ["std::collections::HashMap::<K, V, S, A>::iter_mut", "std::collections::HashMap::<K, V, S>::iter_mut"])]
        ok = bool(commit) and all(fin.postdominates(calls[0], cb) or calls[0] in fin.reach_from(cb) for cb in commit) and \
            all(fin.dominates(cb, calls[0]) for cb in commit)
    rep.add("C01.CFG", "C01.CFG:finalize:sets-autoescape", ok, fin.where(calls[0]) if calls else fin.where(0),
            "finalize_templates applies the suffix rule to every template after the commit loop" + ("" if ok else " — VIOLATED"))
    # child VMs copy the override; autoescape_enabled() = override.unwrap_or(template flag)
    for path in ("vm::interpreter::VirtualMachine::<'tera>::render_component", "vm::interpreter::VirtualMachine::<'tera>::render_include"):
        b = crate.one(path)
        tr = Tracer(b)
        for bb, idx, s in find_aggs(b, "vm::interpreter::VirtualMachine", "VirtualMachine"):
            rv = s["rv"]
            op = rv["ops"][rv["fields"].index("autoescape_override")]
            leaves = tr.operand(op)
            ok = bool(leaves) and all(l.kind == "param" and l.detail == 1 and ".autoescape_override" in l.projs for l in leaves)
            rep.add("C01.CFG", "C01.CFG:%s:override-copied" % path.rsplit("::", 1)[-1], ok, b.where(bb, idx),
                    "the child VM's autoescape_override is a copy of the parent's (an API-level autoescape=false/true is inherited by components and includes)"
                    + ("" if ok else " — VIOLATED: origin %s" % sorted(leaf_str(l) for l in leaves)[:2]))
    ae = crate.one("vm::interpreter::VirtualMachine::<'tera>::autoescape_enabled")
    tr = Tracer(ae)
    calls = list(find_calls(ae, ["std::option::Option::<T>::unwrap_or"]))
    ok = False
    if len(calls) == 1:
        bb, t = calls[0]
        l0 = tr.operand(t["args"][0])
        l1 = tr.operand(t["args"][1])
        ok = all(".autoescape_override" in l.projs for l in l0) and all(".autoescape_enabled" in l.projs for l in l1) and bool(l0) and bool(l1)
    rep.add("C01.CFG", "C01.CFG:autoescape_enabled:override-or-template", ok, ae.where(0),
            "autoescape_enabled() is `override.unwrap_or(template.autoescape_enabled)`" + ("" if ok else " — VIOLATED"))
