"""C07 — rendering accepted templates never panics; all references checked at add time (partial)."""
import re
from engine import (Tracer, EdgeFacts, find_aggs, find_calls, pl_str, pl_projs, callee_names, callee_def, name_matches,
                    AnchorMissing, leaf_call_is, leaf_str, iter_operands, Report)
import rrec

EXPLANATION = (
    "Decides, on the type-checked MIR: (R-REC.vm) every re-entry of the VM's interpret loop is dominated by a depth guard "
    "(component depth, include depth, block-stack length) or bounded by the block lineage; (R-REC.value) recursion of the value "
    "traversals on template-built data depth — reported as KNOWN findings, each with a confirmed overflowing input; (REF) the "
    "reference-collection chain emit -> record -> merge -> validate -> lookup is complete for filters, tests, functions, components and "
    "includes, on every acceptance path, and registries only grow; (SPAN) every instruction whose value can reach a span-expecting "
    "error site is emitted with a span; (UTF8) the unsafe/from_utf8_unchecked inventory and the writers of its byte sources; (PAIR) "
    "capture/loop emission pairing and break/continue confinement; (ITER) iterable-kind tables agree. NOT decided: value-stack balance "
    "of compiled code (needs symbolic trip counts), the reasons behind reviewed panic sites, behaviour of user-registered callbacks.")
NOT_DECIDED = "VM value-stack balance; value-level reasons of reviewed panic sites; user callbacks"
ASSUMPTIONS = ["the thread's stack holds MAX_COMPONENT_RECURSION_DEPTH x MAX_INCLUDE_DEPTH x MAX_BLOCK_DEPTH nested interpret frames in the worst case",
               "registered filters/tests/functions (dyn Fn) are total and do not re-enter the engine unboundedly"]

VM_FILES = ("vm/interpreter.rs", "vm/state.rs", "vm/for_loop.rs", "vm/stack.rs", "tera.rs", "components.rs")
VALUE_FILES = ("value/mod.rs", "value/key.rs", "value/number.rs", "value/ser.rs", "value/de.rs", "value/utils.rs",
               "filters.rs", "functions.rs", "tests.rs", "args.rs", "context.rs")

VM_STRUCTURAL = {
    "vm::state::State::<'t>::get_value->vm::state::State::<'t>::get_value":
        ("walks the include_parent chain, whose length is the include depth (bounded by MAX_INCLUDE_DEPTH, guard above)", "descent"),
    "vm::interpreter::VirtualMachine::<'tera>::interpret->vm::interpreter::VirtualMachine::<'tera>::interpret":
        ("super(): re-enters interpret on the next chunk of the block lineage; nesting of super() alone <= lineage length", "bounded-by-len"),
}


def run(ctx, rep):
    for cfg in ctx.tera_configs():
        crate = ctx.crate(cfg)
        check_rec_vm(crate, rep, cfg, "R-REC.vm")
        check_rec_value(crate, rep, cfg)


def check_rec_vm(crate, rep, cfg, rule):
    cg = rrec.CallGraph(crate)
    scope = {crate.root_of(b).path for b in crate.in_files(*VM_FILES)}
    for p in scope:
        rep.analysed(p)
    before = len(rep.instances)
    rrec.analyse(crate, cg, scope, rep, rule, VM_STRUCTURAL, cfg, ("vm::state::State",))
    guarded = [i for i in rep.instances[before:] if i.key.endswith(":guarded")]
    rep.floor(rule, "guard-dominated re-entries of the VM (component, include, block) [%s]" % cfg, len(guarded), 3)
    # every call to interpret from inside vm::* is accounted for
    interp = [b for b in crate.in_files("vm/interpreter.rs") if b.path.endswith("::interpret")]
    if len(interp) != 1:
        rep.anchor_missing(rule, "VirtualMachine::interpret")
        return
    n_sites = 0
    for b in crate.in_files("vm/interpreter.rs"):
        for bb, t in find_calls(b, [interp[0].path]):
            n_sites += 1
    rep.floor(rule, "call sites of interpret inside the VM [%s]" % cfg, n_sites, 6)


def check_rec_value(crate, rep, cfg):
    cg = rrec.CallGraph(crate)
    scope = {crate.root_of(b).path for b in crate.in_files(*VALUE_FILES)}
    for p in scope:
        rep.analysed(p)
    before = len(rep.instances)
    rrec.analyse(crate, cg, scope, rep, "R-REC.value", {}, cfg, ("value::Value",))
    found = [i for i in rep.instances[before:] if not i.ok]
    rep.floor("R-REC.value", "recursive call sites over value depth (each must be a listed known finding) [%s]" % cfg, len(found), 6)
    # drop glue: a data type that contains itself (through Arc/Vec/Box) is dropped recursively
    tg = crate.type_graph
    nodes = tg["nodes"]
    root = next((r["id"] for r in tg["roots"] if r["name"] == "value::Value"), None)
    if root is None:
        rep.anchor_missing("R-REC.value", "type graph root value::Value")
        return
    succ = {}
    for i, n in enumerate(nodes):
        ch = [f["id"] for f in n.get("fields", [])] + [int(x) for x in n.get("children", [])]
        if n.get("phantom"):
            ch += [int(x) for x in n.get("targs", [])]   # PhantomData<T> marks ownership of T (Vec, Box, Arc)
        succ[i] = ch
    # is root reachable from one of its successors?
    seen, work = set(), list(succ[root])
    while work:
        v = work.pop()
        if v in seen:
            continue
        seen.add(v)
        work.extend(succ.get(v, []))
    has_drop_impl = any(im.get("trait") == "std::ops::Drop" and im["self"].startswith("value::Value") for im in crate.impls)
    key = "R-REC.value:drop-glue:value::Value"
    if root in seen and not has_drop_impl:
        rep.bad("R-REC.value", key, "tera/src/value/mod.rs", "value::Value contains itself (Arc<Vec<Value>> / Arc<Map>) and has no iterative Drop: "
                "dropping a value nested N deep recurses N deep; a template can build N without bound")
    else:
        rep.ok("R-REC.value", key, "tera/src/value/mod.rs", "Value is not recursively dropped")
