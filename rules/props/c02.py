"""C02 — expressions follow the documented operators and precedence (narrow): PREC (doc table == code table), CUT, SC."""
import re
from engine import (Tracer, EdgeFacts, VariantWalk, find_calls, find_aggs, AnchorMissing, leaf_str, leaf_call_is, callee_def, callee_names,
                    name_matches, iter_operands, pl_str, pl_projs)

EXPLANATION = (
    "Decides structural clauses of C02: (PREC) the binding-power tables read off the MIR of binary_binding_power / unary_binding_power, keyed by "
    "the code's own Display spelling of each operator, agree with the precedence table of docs/content/_index.md row by row (same row <=> same "
    "powers, rows strictly increasing, |l-r| = 1 so associativity is well defined, unary rows placed as documented, ternary below everything, "
    "every operator on exactly one row); (CUT) the Pratt loop's cut-off tests are `left power < min_bp` with the true edge leaving the loop and "
    "the right operand parsed with r_bp — a `<=` would silently flip associativity of every operator; (SC) and/or compile to left, "
    "JumpIf{False,True}OrPop, right with the jump patched to the end, `and` using the False variant; the ternary compiles to cond, "
    "PopJumpIfFalse, true, Jump, false; the VM's three conditional jumps branch on the stated truthiness. NOT decided: values produced, "
    "undefined rules, coercion errors (runtime behaviour).")
NOT_DECIDED = "values produced by operators; one-level-undefined rules; coercion errors"
ASSUMPTIONS = ["the documentation table in docs/content/_index.md is the specification of precedence"]

SUGAR = {"not in": "in", "is not": "is"}
POSTFIX = {".", "[]", "()"}


def tuple_table(body, adt):
    """variant -> (l, r) for `fn(op) -> (u8, u8)` or ((), u8)"""
    vw = VariantWalk(body, adt, 1, lambda l: 0 if l.kind == "param" and l.detail == 1 else None)
    st = vw.run()
    out = {}
    for bb, idx, s in body.stmts():
        if idx != "t" and s["k"] == "assign" and s["pl"]["l"] == 0 and not s["pl"]["p"] and s["rv"]["k"] == "agg" and s["rv"]["ak"] == "tuple":
            vals = tuple(op.get("v") if op["k"] == "const" else None for op in s["rv"]["ops"])
            for (v,) in st.get(bb, ()):
                out.setdefault(v, set()).add(vals)
    return out


def display_table(body, adt):
    vw = VariantWalk(body, adt, 1, lambda l: 0 if l.kind == "param" and l.detail == 1 else None)
    st = vw.run()
    out = {}
    for bb, idx, s in body.stmts():
        if idx != "t" and s["k"] == "assign" and s["rv"]["k"] == "use" and s["rv"]["op"]["k"] == "const" and "s" in s["rv"]["op"] \
                and "str" in s["rv"]["op"].get("ty", ""):
            tuples = st.get(bb, ())
            if len(tuples) == 1:
                out[next(iter(tuples))[0]] = s["rv"]["op"]["s"]
    return out


def parse_doc_table(path):
    rows = []
    lines = open(path, encoding="utf-8").read().splitlines()
    i = next((k for k, l in enumerate(lines) if l.strip().lower().startswith("#### operator precedence")), None)
    if i is None:
        return None
    started = False
    for l in lines[i + 1:]:
        ls = l.strip()
        if ls.startswith("|"):
            cell = ls.strip("|").strip()
            if cell.lower() == "operators" or set(cell) <= set("-: "):
                started = True
                continue
            toks = re.findall(r"`((?:\\\||[^`])+)`(\s*\(unary\))?", cell)
            row = []
            for tok, un in toks:
                tok = tok.replace("\\|", "|")
                row.append((tok, bool(un)))
            rows.append(row)
        elif started and ls.startswith("#"):
            break
        elif started and not ls and rows:
            break
    return rows


def run(ctx, rep):
    for cfg in ctx.tera_configs():
        crate = ctx.crate(cfg)
        check_prec(ctx, crate, rep, cfg)
        check_cut(crate, rep, cfg)
        check_sc(crate, rep, cfg)
        check_lookup(crate, rep, cfg)
        check_in(crate, rep, cfg)
        check_concat(crate, rep, cfg)
        check_attr_push(crate, rep, cfg)
        # "exactly one level of undefined" in the fused path instructions (shared with C09)
        from props import c09
        c09.check_fused_load(crate, crate.one("vm::interpreter::VirtualMachine::<'tera>::interpret"), rep, cfg)


def check_prec(ctx, crate, rep, cfg):
    bop = crate.adts["parsing::ast::BinaryOperator"]
    uop = crate.adts["parsing::ast::UnaryOperator"]
    fb = crate.one("parsing::parser::binary_binding_power")
    fu = crate.one("parsing::parser::unary_binding_power")
    db = crate.one("<parsing::ast::BinaryOperator as std::fmt::Display>::fmt")
    du = crate.one("<parsing::ast::UnaryOperator as std::fmt::Display>::fmt")
    rep.analysed(fb, fu, db, du)
    bt = tuple_table(fb, bop)
    ut = tuple_table(fu, uop)
    bd = display_table(db, bop)
    ud = display_table(du, uop)
    rep.floor("C02.PREC", "binary operators with a binding power [%s]" % cfg, len(bt), 19)
    rep.floor("C02.PREC", "unary operators with a binding power [%s]" % cfg, len(ut), 2)
    bad_tab = [v for v, s in bt.items() if len(s) != 1 or None in next(iter(s))]
    if bad_tab or set(bt) != set(bop.variant_names()) or set(bd) != set(bop.variant_names()):
        rep.bad("C02.PREC", "C02.PREC:tables-complete", fb.where(0), "binding-power and Display tables cover every BinaryOperator with constants — VIOLATED: %s / %s" % (
            bad_tab, sorted(set(bop.variant_names()) - set(bd))))
        return
    power = {v: tuple(int(x) for x in next(iter(s))) for v, s in bt.items()}
    upower = {v: int(next(iter(s))[1]) for v, s in ut.items()}
    sym2op = {s: v for v, s in bd.items()}
    usym2op = {s: v for v, s in ud.items()}
    rep.ok("C02.PREC", "C02.PREC:tables-complete", fb.where(0), "code tables: %s ; unary r_bp %s" % (
        ", ".join("%s=%s" % (bd[v], power[v]) for v in sorted(power, key=lambda x: power[x])), upower))
    rows = parse_doc_table(ctx.repo_file("docs/content/_index.md"))
    if not rows:
        rep.anchor_missing("C02.PREC", "precedence table in docs/content/_index.md")
        return
    rep.floor("C02.PREC", "rows of the documented precedence table", len(rows), 10)
    seen_ops = {}
    row_power = []
    for ri, row in enumerate(rows):
        powers = set()
        kinds = set()
        for tok, unary in row:
            key = "C02.PREC:doc-row%d:%s%s" % (ri, tok, "(unary)" if unary else "")
            if tok in POSTFIX:
                ok = ri == len(rows) - 1
                (rep.ok if ok else rep.bad)("C02.PREC", key, "docs/content/_index.md", "postfix `%s` is documented on the last (tightest) row; attribute/subscript "
                                            "parsing consults no binding power" % tok + ("" if ok else " — VIOLATED"))
                kinds.add("postfix")
                continue
            if unary or (tok in usym2op and tok not in sym2op):
                op = usym2op.get(tok)
                if op is None:
                    rep.bad("C02.PREC", key, "docs/content/_index.md", "documented unary operator `%s` has no UnaryOperator spelling in the code" % tok)
                    continue
                kinds.add(("unary", op))
                seen_ops[("u", op)] = ri
                rep.ok("C02.PREC", key, "docs/content/_index.md", "unary `%s` = UnaryOperator::%s, r_bp %d" % (tok, op, upower[op]))
                continue
            base = SUGAR.get(tok, tok)
            op = sym2op.get(base)
            if op is None:
                rep.bad("C02.PREC", key, "docs/content/_index.md", "documented operator `%s` has no BinaryOperator spelling in the code" % tok)
                continue
            powers.add(power[op])
            kinds.add("binary")
            if tok == base:
                seen_ops[("b", op)] = ri
            rep.ok("C02.PREC", key, "docs/content/_index.md", "`%s` = BinaryOperator::%s, (l, r) = %s" % (tok, op, power[op]))
        key = "C02.PREC:doc-row%d:same-power" % ri
        if "binary" in kinds:
            ok = len(powers) == 1
            (rep.ok if ok else rep.bad)("C02.PREC", key, "docs/content/_index.md", "operators documented on row %d share one binding power %s" % (ri, sorted(powers))
                                        + ("" if ok else " — VIOLATED: the code gives them different precedence"))
            row_power.append((ri, next(iter(powers)) if powers else None, "binary"))
        for k in kinds:
            if isinstance(k, tuple):
                row_power.append((ri, (upower[k[1]], upower[k[1]]), "unary:" + k[1]))
    # every operator documented exactly once / every documented
    for v in power:
        key = "C02.PREC:documented:%s" % v
        ok = ("b", v) in seen_ops
        (rep.ok if ok else rep.bad)("C02.PREC", key, "docs/content/_index.md", "BinaryOperator::%s (`%s`) appears in the documented table" % (v, bd[v]) + ("" if ok else " — VIOLATED"))
    for v in upower:
        ok = ("u", v) in seen_ops
        rep.add("C02.PREC", "C02.PREC:documented:unary:%s" % v, ok, "docs/content/_index.md", "UnaryOperator::%s appears in the documented table" % v + ("" if ok else " — VIOLATED"))
    # rows strictly increasing (binary rows by l; unary rows by r relative to neighbours)
    seq = sorted(row_power, key=lambda x: x[0])
    prev = None
    for ri, pw, kind in seq:
        if pw is None:
            continue
        cur_lo = min(pw)
        key = "C02.PREC:order:row%d" % ri
        if prev is not None:
            ok = cur_lo >= prev[1] if kind.startswith("unary") or prev[2].startswith("unary") else min(pw) > max(prev[0])
            if kind.startswith("unary"):
                ok = pw[0] > min(prev[0])           # binds tighter than the previous row's left power
            elif prev[2].startswith("unary"):
                ok = min(pw) >= prev[0][0]          # `not` r_bp <= next row's l_bp (not a in b == not (a in b))
            (rep.ok if ok else rep.bad)("C02.PREC", key, "docs/content/_index.md", "documented row %d (%s, power %s) binds tighter than row %d (power %s)" % (
                ri, kind, pw, prev[3], prev[0]) + ("" if ok else " — VIOLATED: the code orders them differently"))
        prev = (pw, max(pw), kind, ri)
    for v, (l, r) in power.items():
        ok = abs(l - r) == 1
        rep.add("C02.PREC", "C02.PREC:assoc:%s" % v, ok, fb.where(0), "`%s`: |l - r| = 1 (%s-associative)" % (bd[v], "left" if l < r else "right") + ("" if ok else " — VIOLATED"))
    # disjoint intervals between rows
    ivs = sorted({(min(p), max(p)) for p in power.values()})
    ok = all(ivs[i][1] < ivs[i + 1][0] for i in range(len(ivs) - 1))
    rep.add("C02.PREC", "C02.PREC:intervals-disjoint", ok, fb.where(0), "binding-power intervals of different rows are disjoint: %s" % ivs + ("" if ok else " — VIOLATED"))
    tern = crate.consts.get("parsing::parser::TERNARY_L_BP")
    ok = tern is not None and int(tern.get("v", "99")) < min(min(p) for p in power.values())
    rep.add("C02.PREC", "C02.PREC:ternary-lowest", ok, fb.where(0), "TERNARY_L_BP (%s) is below every binary left power" % (tern or {}).get("v") + ("" if ok else " — VIOLATED"))


def check_cut(crate, rep, cfg):
    b = crate.one("parsing::parser::Parser::<'a>::parse_expr_bp")
    rep.analysed(b)
    tr = Tracer(b)
    ef = EdgeFacts(b, crate)
    loops = b.loops()
    main = max(loops, key=len) if loops else set()
    n = 0
    for bb, idx, s in b.stmts():
        if idx == "t" or s["k"] != "assign" or s["rv"]["k"] != "bin" or s["rv"]["op"] not in ("Lt", "Le", "Gt", "Ge"):
            continue
        rv = s["rv"]
        if rv.get("lty") != "u8":
            continue
        l, r = tr.operand(rv["l"]), tr.operand(rv["r"])
        r_is_min = bool(r) and all(x.kind == "param" and x.detail == 2 for x in r)
        l_is_min = bool(l) and all(x.kind == "param" and x.detail == 2 for x in l)
        if not (r_is_min or l_is_min):
            continue
        n += 1
        other = l if r_is_min else r
        src_ok = bool(other) and all((x.kind == "call" and leaf_call_is(x, "parsing::parser::binary_binding_power") and ".0" in x.projs) or
                                     (x.kind == "const") for x in other)
        # normal form: left power < min_bp ; true edge leaves the loop
        norm = rv["op"] if r_is_min else {"Lt": "Gt", "Gt": "Lt", "Le": "Ge", "Ge": "Le"}[rv["op"]]
        dest = s["pl"]["l"]
        leaves_loop = False
        for sb in sorted(b.reachable):
            t = b.term(sb)
            if t["k"] == "switch" and t["op"]["k"] in ("copy", "move") and t["op"]["pl"]["l"] == dest:
                for v, tgt in t["targets"]:
                    pass
                true_tgt = t["otherwise"] if t["targets"] and t["targets"][0][0] == "0" else None
                if true_tgt is not None:
                    reach = b.reach_from(true_tgt, removed_blocks=frozenset([sb]))
                    # must not come back to the loop's consuming part: no call to next_or_error reachable before return within the loop
                    leaves_loop = not any(x in main and any(True for _ in find_calls(b, ["parsing::parser::Parser::<'a>::next_or_error"], blocks=[x])) for x in reach)
        key = "C02.CUT:test#%d" % (n - 1)
        ok = src_ok and norm == "Lt" and leaves_loop
        what = "Pratt cut-off is `left binding power < min_bp` (strict) with the true edge leaving the operator loop"
        (rep.ok if ok else rep.bad)("C02.CUT", key, b.where(bb, idx), what if ok else what + " — VIOLATED: normal form `%s`, source ok=%s, leaves loop=%s "
                                    "(a non-strict test flips the associativity of every operator)" % (norm, src_ok, leaves_loop))
    rep.floor("C02.CUT", "cut-off comparisons against min_bp [%s]" % cfg, n, 3)
    # right operand parsed with r_bp
    ok = False
    for bb, t in find_calls(b, ["parsing::parser::Parser::<'a>::inner_parse_expression"]):
        leaves = tr.operand(t["args"][1])
        if leaves and all(x.kind == "call" and leaf_call_is(x, "parsing::parser::binary_binding_power") and ".1" in x.projs for x in leaves):
            ok = True
    rep.add("C02.CUT", "C02.CUT:rhs-uses-r_bp", ok, b.where(0), "the right operand of a binary operator is parsed with that operator's r_bp" + ("" if ok else " — VIOLATED"))
    ok = False
    for bb, t in find_calls(b, ["parsing::parser::Parser::<'a>::inner_parse_expression"]):
        leaves = tr.operand(t["args"][1])
        if leaves and all(x.kind == "call" and leaf_call_is(x, "parsing::parser::unary_binding_power") and ".1" in x.projs for x in leaves):
            ok = True
    rep.add("C02.CUT", "C02.CUT:unary-uses-r_bp", ok, b.where(0), "the operand of a unary operator is parsed with unary_binding_power(op).1" + ("" if ok else " — VIOLATED"))


def const_of(body, op, depth=0):
    """the constant operand an operand is a (re)borrow/copy of, if any"""
    if op["k"] == "const":
        return op
    if depth > 6 or op["k"] not in ("copy", "move"):
        return None
    for (b2, i2, dp, rv) in body.defs.get(op["pl"]["l"], []):
        if dp:
            continue
        if rv["k"] == "use":
            return const_of(body, rv["op"], depth + 1)
        if rv["k"] == "ref":
            return const_of(body, {"k": "copy", "pl": {"l": rv["pl"]["l"], "p": []}}, depth + 1)
    return None


def check_sc(crate, rep, cfg):
    b = crate.one("parsing::compiler::Compiler::compile_expr")
    rep.analysed(b)
    tr = Tracer(b, transparent=None)
    ef = EdgeFacts(b, crate)
    # And => JumpIfFalseOrPop : the aggregate sits on the true edge of `op.op == And`
    fa = list(find_aggs(b, "parsing::instructions::Instruction", "JumpIfFalseOrPop"))
    ta = list(find_aggs(b, "parsing::instructions::Instruction", "JumpIfTrueOrPop"))
    ok = False
    if len(fa) == 1 and len(ta) == 1:
        fbb, tbb = fa[0][0], ta[0][0]
        for sb in sorted(b.reachable):
            t = b.term(sb)
            if t["k"] != "switch":
                continue
            for tgt, fl in ef.facts_for_switch(sb).items():
                for f in fl:
                    if f[0] == "call" and "BinaryOperator as std::cmp::PartialEq" in f[1]:
                        call = b.term(f[4])
                        is_and = any("parsing::ast::BinaryOperator::And" in ((const_of(b, a) or {}).get("pagg") or []) for a in call["args"])
                        if is_and and f[3] is True and b.dominates(tgt, fbb) and not b.dominates(tgt, tbb):
                            ok = True
    rep.add("C02.SC", "C02.SC:and=>JumpIfFalseOrPop", ok, b.where(fa[0][0]) if fa else b.where(0), "`and` emits JumpIfFalseOrPop (on the true edge of `op == And`), "
            "`or` emits JumpIfTrueOrPop" + ("" if ok else " — VIOLATED"))
    # order: compile_expr(left) < emission < compile_expr(right) < patch
    # the emission point is the Chunk::add call that receives the conditional-jump instruction (the aggregate itself may be built earlier)
    def add_block_of(agg):
        trx = Tracer(b)
        for b2, t2 in find_calls(b, ["parsing::instructions::Chunk::add"]):
            if any(l.kind == "agg" and l.detail[-2:] == (agg[0], agg[1]) for l in trx.operand(t2["args"][1])):
                return b2
        return agg[0]
    if fa:
        fa = [(add_block_of(fa[0]),) + tuple(fa[0][1:])]
        if ta:
            ta = [(add_block_of(ta[0]),) + tuple(ta[0][1:])]
        fbb = fa[0][0]
        lefts = [bb for bb, t in find_calls(b, ["parsing::compiler::Compiler::compile_expr"]) if any(".left" in l.projs for l in tr.operand(t["args"][1]))]
        rights = [bb for bb, t in find_calls(b, ["parsing::compiler::Compiler::compile_expr"]) if any(".right" in l.projs for l in tr.operand(t["args"][1]))]
        l_sc = [x for x in lefts if b.dominates(x, fbb)]
        r_sc = [x for x in rights if any(b.dominates(j, x) for j in (fbb, ta[0][0] if ta else fbb)) or b.dominates(l_sc[0] if l_sc else 0, x)]
        r_after = [x for x in rights if l_sc and b.dominates(l_sc[0], x) and x not in b.reach_from(0, removed_blocks=frozenset([fbb, ta[0][0] if ta else fbb]))]
        patches = []
        for bb, idx, s in b.stmts():
            if idx != "t" and s["k"] == "assign" and pl_projs(s["pl"]) == ["deref"]:
                for (b2, i2, dp, rv) in b.defs.get(s["pl"]["l"], []):
                    if rv["k"] == "ref" and any(p in ("as:JumpIfFalseOrPop", "as:JumpIfTrueOrPop") for p in pl_projs(rv["pl"])):
                        patches.append(bb)
                        break
        ok = bool(l_sc) and bool(r_after) and bool(patches) and all(any(b.dominates(r, p) for r in r_after) for p in patches)
        rep.add("C02.SC", "C02.SC:order", ok, b.where(fbb), "short-circuit: left operand compiled before the conditional jump, right operand only after it, jump "
                "patched after the right operand (left %s, right %s, patches %s)" % (l_sc[:1], r_after[:1], patches[:2]) + ("" if ok else " — VIOLATED"))
        # every and/or node owns its jump: it opens its own ShortCircuit body before compiling the left operand, and every path from the
        # emission of the conditional jump to the return of this activation patches it (so the jump lands right after this node's own
        # right operand, not at the end of some enclosing expression)
        bodies = [bb for bb, idx, st in find_aggs(b, "parsing::compiler::ProcessingBody", "ShortCircuit")]
        ok = bool(bodies) and bool(l_sc) and any(b.dominates(x, l_sc[0]) for x in bodies)
        rep.add("C02.SC", "C02.SC:own-body", ok, b.where(bodies[0]) if bodies else b.where(fbb), "an and/or node always opens its own ShortCircuit body before compiling its left "
                "operand" + ("" if ok else " — VIOLATED: the body is opened conditionally / shared with an enclosing chain"))
        emis = [fbb] + ([ta[0][0]] if ta else [])
        tr2 = Tracer(b)
        pops = [bb for bb, t in find_calls(b, ["std::vec::Vec::<T, A>::pop"]) if any(".processing_bodies" in l.projs for l in tr2.operand(t["args"][0]))]
        leaks = []
        for e in emis:
            reach = b.reach_from(e, removed_blocks=frozenset(pops))
            leaks += [x for x in reach if b.term(x)["k"] == "return"]
        # the patch loop runs over the jumps of the body that was just popped
        from_pop = bool(patches) and all(any(b.dominates(pb, x) for pb in pops) for x in patches)
        ok = bool(patches) and bool(pops) and not leaks and from_pop
        rep.add("C02.SC", "C02.SC:patch-own-jump", ok, b.where(leaks[0]) if leaks else b.where(fbb), "every path from the emission of JumpIfFalseOrPop/JumpIfTrueOrPop to the return "
                "of that compile_expr activation pops the node's ShortCircuit body, and the patch loop runs after that pop" + ("" if ok else " — VIOLATED: a path returns and "
                "leaves the jump to be patched by someone else"))
    # ternary
    conds = [bb for bb, t in find_calls(b, ["parsing::compiler::Compiler::compile_expr"]) if any(".true_expr" in l.projs for l in tr.operand(t["args"][1]))]
    falses = [bb for bb, t in find_calls(b, ["parsing::compiler::Compiler::compile_expr"]) if any(".false_expr" in l.projs for l in tr.operand(t["args"][1]))]
    exprs = [bb for bb, t in find_calls(b, ["parsing::compiler::Compiler::compile_expr"])
             if any(".expr" in l.projs and any("Ternary" in str(p) for p in l.projs) for l in tr.operand(t["args"][1]))]
    pj = [x[0] for x in find_aggs(b, "parsing::instructions::Instruction", "PopJumpIfFalse")]
    jm = [x[0] for x in find_aggs(b, "parsing::instructions::Instruction", "Jump")]
    ok = False
    if conds and falses:
        tb, fb_ = conds[0], falses[0]
        pjs = [x for x in pj if b.dominates(x, tb)]
        jms = [x for x in jm if b.dominates(tb, x) and b.dominates(x, fb_)]
        ok = bool(pjs) and bool(jms)
    rep.add("C02.SC", "C02.SC:ternary-order", ok, b.where(conds[0]) if conds else b.where(0), "ternary: PopJumpIfFalse emitted before the true branch, Jump between the "
            "true and the false branch (only the taken branch is evaluated)" + ("" if ok else " — VIOLATED"))
    # VM arms
    vm = crate.one("vm::interpreter::VirtualMachine::<'tera>::interpret")
    vef = EdgeFacts(vm, crate)
    vtr = Tracer(vm)
    ips = ip_locals(vm)
    want = {"PopJumpIfFalse": False, "JumpIfFalseOrPop": False, "JumpIfTrueOrPop": True}
    got = {}
    for bb, idx, s in vm.stmts():
        if idx != "t" and s["k"] == "assign" and not s["pl"]["p"] and s["pl"]["l"] in ips:
            for l in vtr._rv(s["rv"], (), set(), 0, bb, idx):
                for v in want:
                    if "as:" + v in l.projs:
                        # dominating is_truthy edge
                        for sb in sorted(vm.reachable):
                            if vm.term(sb)["k"] != "switch" or not vm.dominates(sb, bb):
                                continue
                            for tgt, fl in vef.facts_for_switch(sb).items():
                                for f in fl:
                                    if f[0] == "call" and f[1].endswith("Value::is_truthy") and vm.dominates(tgt, bb) and tgt != sb:
                                        got[v] = f[3]
    # merged arm: `let jump_when = matches!(instr, JumpIfTrueOrPop(_)); if top.is_truthy() == jump_when { ip = target }` — per opcode the flag
    # is a constant, so the jump condition is `truthy == <that constant>`
    for bb, idx, s in vm.stmts():
        if idx != "t" and s["k"] == "assign" and not s["pl"]["p"] and s["pl"]["l"] in ips:
            vs = {p[3:] for l in vtr._rv(s["rv"], (), set(), 0, bb, idx) for p in l.projs if p.startswith("as:") and p[3:] in want}
            if len(vs) < 2:
                continue
            for sb in sorted(vm.reachable):
                st = vm.term(sb)
                if st["k"] != "switch" or not vm.dominates(sb, bb) or st["op"]["k"] == "const" or st["op"]["pl"]["p"]:
                    continue
                d = vef.single_def(st["op"]["pl"]["l"])
                if not d or d[3]["k"] != "bin" or d[3]["op"] not in ("Eq", "Ne"):
                    continue
                sides = [d[3]["l"], d[3]["r"]]
                truthy = [x for x in sides if x["k"] in ("copy", "move") and any(leaf_call_is(l, "value::Value::is_truthy") for l in vtr.operand(x))]
                flags = [x for x in sides if x not in truthy and x["k"] in ("copy", "move") and not x["pl"]["p"]]
                if len(truthy) != 1 or len(flags) != 1:
                    continue
                # the flag: constant true on the edge of some opcodes, constant false otherwise
                fl = flags[0]["pl"]["l"]
                srcs = {fl} | {rv["op"]["pl"]["l"] for (b2, i2, dp, rv) in vm.defs.get(fl, []) if rv["k"] == "use" and rv["op"]["k"] in ("copy", "move")}
                true_for = set()
                okflag = True
                for x in srcs:
                    for (b2, i2, dp, rv) in vm.defs.get(x, []):
                        if rv["k"] == "use" and rv["op"]["k"] == "const":
                            val = str(rv["op"].get("v"))
                            for sb2 in sorted(vm.reachable):
                                if vm.term(sb2)["k"] != "switch":
                                    continue
                                for tgt2, fl2 in vef.facts_for_switch(sb2).items():
                                    for f2 in fl2:
                                        if f2[0] == "variant" and f2[1].endswith("instructions::Instruction") and f2[4] and vm.dominates(tgt2, b2) and len(vm.pred[tgt2]) == 1 \
                                                and val == "1" and set(f2[3]) <= vs:
                                            true_for |= set(f2[3])
                if not true_for:
                    continue
                # which edge of the Eq/Ne switch dominates the jump
                for v2, tgt in st["targets"] + [("other", st["otherwise"])]:
                    if vm.dominates(tgt, bb) and tgt != sb and len(vm.pred[tgt]) == 1:
                        eq_holds = (v2 != "0") if v2 != "other" else (st["targets"][0][0] == "0")
                        if d[3]["op"] == "Ne":
                            eq_holds = not eq_holds
                        for v in vs:
                            flag_val = v in true_for
                            got[v] = flag_val if eq_holds else (not flag_val)
    for v, w in want.items():
        ok = got.get(v) == w
        rep.add("C02.SC", "C02.SC:vm:%s" % v, ok, vm.where(0), "the VM arm of %s jumps when the tested value is %s" % (v, "truthy" if w else "falsy")
                + ("" if ok else " — VIOLATED: jumps on %s" % got.get(v)))


def ip_locals(vm):
    """the instruction pointer: the local handed to Chunk::get in the dispatch loop (by shape, not by name)"""
    out = set()
    for bb, t in find_calls(vm, ["parsing::instructions::Chunk::get"]):
        a = t["args"][1]
        if a["k"] in ("copy", "move"):
            out.add(a["pl"]["l"])
            for (b2, i2, dp, rv) in vm.defs.get(a["pl"]["l"], []):
                if rv["k"] == "use" and rv["op"]["k"] in ("copy", "move") and not rv["op"]["pl"]["p"]:
                    out.add(rv["op"]["pl"]["l"])
    return {l for l in out if vm.local_name(l)} or out


# ---------------------------------------------------------------------------------------------------------------- LOOKUP

LOOKUPS = [("BinarySubscript", "value::Value::get_item"), ("Slice", "value::Value::slice")]


def check_lookup(crate, rep, cfg):
    """C02.LOOKUP — `x[i]` and `x[a:b:c]` are evaluated by the one value-level operation that knows the type rules (a string subscript on an
    array/string, a non-sliceable base … are errors there): in the interpreter arm the only values pushed are the Ok payload of that call, or
    `undefined` from the optional-chaining shortcut BEFORE the lookup; the Err edge of the call never rejoins the push."""
    from props.c03 import vm_arm
    import rrec
    vm = crate.one("vm::interpreter::VirtualMachine::<'tera>::interpret")
    tr = Tracer(vm)
    for variant, fn in LOOKUPS:
        reg = vm_arm(vm, crate, variant)
        calls = [(bb, t) for bb, t in vm.calls(sorted(reg)) if callee_def(t).endswith(fn)]
        pushes = [(bb, t) for bb, t in vm.calls(sorted(reg)) if callee_def(t).endswith("stack::Stack::push")]
        ok = len(calls) == 1 and bool(pushes)
        why = "%d calls of %s and %d pushes in the arm" % (len(calls), fn, len(pushes))
        if ok:
            cb = calls[0][0]
            heads = frozenset(bb for bb, t in find_calls(vm, ["parsing::instructions::Chunk::get"]))
            after = vm.reach_from(cb, removed_blocks=heads) & reg
            n_res = 0
            for pb, pt in pushes:
                ls = tr.operand(pt["args"][1])
                res = [l for l in ls if l.kind == "call" and l.detail[2] == cb and l.projs[:2] == ("as:Ok", ".0")]
                und = [l for l in ls if l.kind == "call" and l.detail[0].endswith("value::Value::undefined")]
                if not ls or len(res) + len(und) != len(ls):
                    ok = False
                    why = "a value pushed at %s is neither the lookup's Ok payload nor undefined(): %s" % (vm.where(pb), sorted(leaf_str(l) for l in ls if l not in res and l not in und)[:3])
                elif und and pb in after:
                    ok = False
                    why = "undefined is pushed at %s AFTER the lookup (a failed lookup must raise)" % vm.where(pb)
                elif res:
                    n_res += 1
                    if not all(vm.dominates(tgt, pb) for sb, tgt in rrec.ok_edges_of_call(vm, crate, cb)) or not rrec.ok_edges_of_call(vm, crate, cb):
                        ok = False
                        why = "the push at %s is not under the Ok edge of the lookup" % vm.where(pb)
            if ok and n_res != 1:
                ok = False
                why = "%d pushes of the lookup result" % n_res
            # the base looked up is the popped value itself
            if ok:
                bl = tr.operand(calls[0][1]["args"][0])
                ok = bool(bl) and all(leaf_call_is(l, "vm::stack::Stack::pop") for l in bl)
                why = "the base of the lookup is not the popped value"
        rep.add("C02.LOOKUP", "C02.LOOKUP:%s:only-the-typed-lookup" % variant, ok, vm.where(calls[0][0]) if calls else vm.where(0),
                "the %s arm pushes only the Ok payload of %s on the popped base (or undefined from the `?` shortcut before it); type errors of the lookup are raised, not coerced" % (variant, fn.rsplit("::", 1)[-1])
                + ("" if ok else " — VIOLATED: " + why))


def check_in(crate, rep, cfg):
    """C02.IN — `x in array` is "some element == x" with the language's own `==` (so `2 in [2.0]` like `2 == 2.0`): in Value::contains the
    answer for an array is `<[Value]>::contains(arr, needle)` (std, element-wise PartialEq for Value) and nothing else — no comparison of
    payloads fetched through kind-specific accessors, which disagree with `==` across numeric kinds."""
    b = crate.one("value::Value::contains")
    rep.analysed(b)
    tr = Tracer(b)
    ef = EdgeFacts(b, crate)
    arm = set()
    for sb in sorted(b.reachable):
        if b.term(sb)["k"] != "switch":
            continue
        for tgt, fl in ef.facts_for_switch(sb).items():
            for f in fl:
                if f[0] == "variant" and f[1].endswith("ValueInner") and f[4] and set(f[3]) == {"Array"} and tgt != sb:
                    arm |= {x for x in b.reach_from(tgt) if b.dominates(tgt, x)}
    calls = [(bb, t) for bb, t in b.calls(sorted(arm))]
    cont = [(bb, t) for bb, t in calls if callee_def(t).endswith("<impl [T]>::contains") and "value::Value" in str(t["f"].get("targs"))]
    other = sorted({callee_def(t).rsplit("::", 1)[-1] for bb, t in calls} - {"contains", "deref", "as_slice", "as_ref"})
    ok = bool(arm) and len(cont) == 1 and not other
    why = "array arm calls %s" % (other or "no slice::contains over Value")
    if ok:
        nl = tr.operand(cont[0][1]["args"][1])
        ok = bool(nl) and all(l.kind == "param" and l.detail == 2 for l in nl)
        why = "the value searched for is not the needle itself"
        oks = [(bb, idx, st) for bb, idx, st in find_aggs(b, "std::result::Result", "Ok") if bb in arm]
        for bb, idx, st in oks:
            ol = tr.operand(st["rv"]["ops"][0])
            if not (ol and all(l.kind == "call" and l.detail[2] == cont[0][0] for l in ol)):
                ok, why = False, "the array arm answers with something else than slice::contains' result"
        ok = ok and bool(oks)
    rep.add("C02.IN", "C02.IN:array:element-wise-value-eq", ok, b.where(cont[0][0]) if cont else b.where(0), "`in` on an array is <[Value]>::contains(needle): element-wise `==` of Value, "
            "the same relation as the `==` operator" + ("" if ok else " — VIOLATED: " + why))


def check_concat(crate, rep, cfg):
    """C02.CONCAT — "the output of `~` is always a string": in the StrConcat arm the value pushed is built by Value::from(String) (the joined
    text / format!) on every path — never one of the popped operands handed back as it is (an integer `~ ""` would stay an integer)."""
    from props.c03 import vm_arm
    vm = crate.one("vm::interpreter::VirtualMachine::<'tera>::interpret")
    tr = Tracer(vm, transparent=set())
    reg = vm_arm(vm, crate, "StrConcat")
    pushes = [(bb, t) for bb, t in vm.calls(sorted(reg)) if callee_def(t).endswith("stack::Stack::push")]
    ok = len(pushes) >= 1
    why = "no push in the arm"
    for bb, t in pushes:
        ls = [l for l in tr.operand(t["args"][1]) if l.kind != "cycle"]
        for l in ls:
            good = l.kind == "call" and l.detail[0].endswith("::from") and str((vm.term(l.detail[2]).get("atys") or [""])[0]) in ("std::string::String", "String")
            if not good:
                ok, why = False, "the value pushed can be %s (an operand handed back, not a built string)" % leaf_str(l)
        ok = ok and bool(ls)
    rep.add("C02.CONCAT", "C02.CONCAT:vm:always-a-built-string", ok, vm.where(pushes[0][0]) if pushes else vm.where(0), "the StrConcat arm pushes Value::from(<String built from both operands>) "
            "on every path" + ("" if ok else " — VIOLATED: " + why))


def check_attr_push(crate, rep, cfg):
    """C02.LOOKUP — `a.b` / `a?.b` push the attribute found, or `undefined` (missing attribute; `?.` on a none / undefined base) — never the
    base that was popped (a none base handed back makes `a?.b` none instead of undefined: it prints, it "is defined")."""
    from props.c03 import vm_arm
    vm = crate.one("vm::interpreter::VirtualMachine::<'tera>::interpret")
    tr = Tracer(vm, transparent={"std::clone::Clone::clone", "std::option::Option::<&T>::cloned", "std::option::Option::<T>::unwrap_or_else", "std::option::Option::<T>::unwrap_or"})
    # the two opcodes share one arm (`LoadAttr(attr) | LoadAttrOpt(attr)`): its blocks are those reachable from either variant edge and
    # from no other opcode's edge
    from props.c09 import variant_switches
    heads = frozenset(bb for bb, t in find_calls(vm, ["parsing::instructions::Chunk::get"]))
    reg = set()
    for sb, listed in variant_switches(vm, crate, "instructions::Instruction"):
        if "LoadAttr" in listed and len(listed) > 8:
            mine = set()
            for v in ("LoadAttr", "LoadAttrOpt"):
                if v in listed:
                    mine |= vm.reach_from(listed[v], removed_blocks=heads | {sb})
            other = set()
            for v, tgt in listed.items():
                if v not in ("LoadAttr", "LoadAttrOpt") and tgt not in (listed.get("LoadAttr"), listed.get("LoadAttrOpt")):
                    other |= vm.reach_from(tgt, removed_blocks=heads | {sb})
            reg |= mine - other
    pushes = [(bb, t) for bb, t in vm.calls(sorted(reg)) if callee_def(t).endswith("stack::Stack::push")]
    ok = len(pushes) >= 2
    why = "%d pushes found in the arm" % len(pushes)
    for bb, t in pushes:
        for l in tr.operand(t["args"][1]):
            if l.kind == "cycle":
                continue
            good = l.kind == "call" and (l.detail[0].endswith("value::Value::get_attr") or l.detail[0].endswith("value::Value::undefined"))
            good = good or (l.kind == "const" and "undefined" in str(l.detail))
            if not good:
                ok, why = False, "a pushed value comes from %s" % leaf_str(l)
    rep.add("C02.LOOKUP", "C02.LOOKUP:LoadAttr:attribute-or-undefined", ok, vm.where(pushes[0][0]) if pushes else vm.where(0), "the LoadAttr / LoadAttrOpt arm pushes get_attr's answer or "
            "Value::undefined(), never the popped base" + ("" if ok else " — VIOLATED: " + why))
