#!/usr/bin/env python3
"""Regenerates selftest/mutants/*.patch from the compact definitions below (against /repo's current tree).
Each mutant still compiles; it breaks exactly one rule instance."""
import difflib
import os
import sys

REPO = "/repo"
OUT = os.path.join(os.path.dirname(os.path.abspath(__file__)), "mutants")

M = []


def m(name, prop, expect, what, file, old, new, count=1):
    M.append((name, prop, expect, what, file, old, new, count))


# ---------------------------------------------------------------- C01
m("c01_sink_wrong_value", "C01", r"C01\.SINK:.*interpret:format->", "WritePath tests is_safe() of the root instead of the value written",
  "tera/src/vm/interpreter.rs", "if !self.autoescape_enabled() || val.is_safe() {", "if !self.autoescape_enabled() || root.is_safe() {")
m("c01_mint_strconcat", "C01", r"C01\.MINT:.*interpret:unlisted", "StrConcat keeps the safe mark",
  "tera/src/vm/interpreter.rs", "                            s.push_str(b_str.as_str());\n                            Value::from(s)",
  "                            s.push_str(b_str.as_str());\n                            Value::safe_string(&s)")
m("c01_issafe_bytes", "C01", r"C01\.ISSAFE:Bytes", "Bytes dropped from is_safe's false arm",
  "tera/src/value/mod.rs", "ValueInner::Array(_) | ValueInner::Map(_) | ValueInner::Bytes(_) => false,", "ValueInner::Array(_) | ValueInner::Map(_) => false,")
m("c01_cfg_include_override", "C01", r"C01\.CFG:render_include:override-copied", "render_include drops the autoescape override",
  "tera/src/vm/interpreter.rs", """            template: tpl,
            autoescape_override: self.autoescape_override,""", """            template: tpl,
            autoescape_override: None,""")
m("c01_esc_quote", "C01", r"C01\.ESC:default:byte=39", "single quote arm removed from the default escaper",
  "tera/src/utils.rs", "                b'\\'' => buf.write_all(b\"&#39;\")?,\n", "")
m("c01_mint_from_str", "C01", r"C01\.MINT:new-safe:.*From<&str>", "From<&str> mints Safe",
  "tera/src/value/mod.rs", """impl From<&str> for Value {
    fn from(value: &str) -> Self {
        Value {
            inner: ValueInner::String(SmartString::new(value, StringKind::Normal)),""", """impl From<&str> for Value {
    fn from(value: &str) -> Self {
        Value {
            inner: ValueInner::String(SmartString::new(value, StringKind::Safe)),""")
m("c01_sink_write_fmt", "C01", r"C01\.SINK:.*unrecognised", "WriteTop writes numbers with write! straight to the output",
  "tera/src/vm/interpreter.rs", """                    if !self.autoescape_enabled() || top.is_safe() {
                        if let Some(captured) = state.capture_buffers.last_mut() {""", """                    if top.is_number() {
                        write!(output, "{}", top)?;
                    } else if !self.autoescape_enabled() || top.is_safe() {
                        if let Some(captured) = state.capture_buffers.last_mut() {""")
m("c02_sc_return_before_patch", "C02", r"C02\.SC:patch-own-jump", "an and/or node nested in a capture-free context returns before popping its body",
  "tera/src/parsing/compiler.rs", """                        self.compile_expr(op.right);
                        let end = self.chunk.len();""", """                        self.compile_expr(op.right);
                        if self.processing_bodies.len() > 8 {
                            return;
                        }
                        let end = self.chunk.len();""")
m("c12_pos_col_bytes", "C12", r"C12\.POS:lexer:counters-lockstep", "the tokenizer advances the column by the char's byte length",
  "tera/src/parsing/lexer.rs", "                    _ => current_col += 1,", "                    _ => current_col += c.len_utf8(),")
# ---------------------------------------------------------------- C03
m("c03_scope_context_first", "C03", r"C03\.SCOPE:get_value:order", "the render context is consulted before the assignments",
  "tera/src/vm/state.rs", """        if let Some(val) = self.set_variables.get(name) {
            return val.clone();
        }

        if let Some(parent) = self.include_parent {
            let val = parent.get_value(name);
            if !val.is_undefined() {
                return val;
            }
        }

        if let Some(val) = self.context.data.get(name) {
            return val.clone();
        }
""", """        if let Some(val) = self.context.data.get(name) {
            return val.clone();
        }

        if let Some(val) = self.set_variables.get(name) {
            return val.clone();
        }

        if let Some(parent) = self.include_parent {
            let val = parent.get_value(name);
            if !val.is_undefined() {
                return val;
            }
        }
""")
m("c03_scope_outermost_first", "C03", r"C03\.SCOPE:get_value:innermost-loop-first", "loop frames are searched outermost first",
  "tera/src/vm/state.rs", "        for forloop in self.for_loops.iter().rev() {\n            if let Some(v) = forloop.get(name) {",
  "        for forloop in self.for_loops.iter() {\n            if let Some(v) = forloop.get(name) {")
m("c03_scope_loopvar_shadows_set", "C03", r"C03\.SCOPE:frame:assignments-before-loop-variables", "the loop variable wins over an assignment of the same name made in the body",
  "tera/src/vm/for_loop.rs", """                if !self.context.is_empty()
                    && let Some(v) = self.context.get(name)
                {
                    return Some(v.clone());
                }

                if self.value_name == name {
                    return Some(self.current_values.1.clone());
                }
""", """                if self.value_name == name {
                    return Some(self.current_values.1.clone());
                }

                if !self.context.is_empty()
                    && let Some(v) = self.context.get(name)
                {
                    return Some(v.clone());
                }
""")
m("c03_store_outer_frame", "C03", r"C03\.STORE:store_local", "`set` inside nested loops writes into the outermost loop frame",
  "tera/src/vm/state.rs", "        if let Some(forloop) = self.for_loops.last_mut() {\n            forloop.store(name, value);",
  "        if let Some(forloop) = self.for_loops.first_mut() {\n            forloop.store(name, value);")
m("c03_store_vm_swapped", "C03", r"C03\.STORE:vm:SetGlobal", "set_global stores like a plain set",
  "tera/src/vm/interpreter.rs", """                Instruction::SetGlobal(name) => {
                    let (val, _) = state.stack.pop();
                    state.store_global(name, val);""", """                Instruction::SetGlobal(name) => {
                    let (val, _) = state.stack.pop();
                    state.store_local(name, val);""")
m("c03_store_compiler_blockset", "C03", r"C03\.STORE:compiler:", "a set-block marked global compiles to a plain Set",
  "tera/src/parsing/compiler.rs", """                let instr = if b.global {
                    Instruction::SetGlobal(b.name)
                } else {
                    Instruction::Set(b.name)
                };""", """                let instr = if b.global && b.name.len() < 64 {
                    Instruction::SetGlobal(b.name)
                } else {
                    Instruction::Set(b.name)
                };""")
m("c03_iter_no_clear", "C03", r"C03\.ITER:advance:clears-iteration-assignments", "per-iteration assignments survive when there are more than 8 of them",
  "tera/src/vm/for_loop.rs", "                if !self.context.is_empty() {\n                    self.context.clear();",
  "                if !self.context.is_empty() && self.context.len() <= 8 {\n                    self.context.clear();")
m("c03_iter_last_off", "C03", r"C03\.ITER:counters:last", "loop.last computed from index0",
  "tera/src/vm/for_loop.rs", "        self.last = self.index() == self.length;", "        self.last = self.index0 == self.length;")
m("c03_iter_initial_last", "C03", r"C03\.ITER:counters:initial", "loop.last starts false even for one-element loops",
  "tera/src/vm/for_loop.rs", "            last: length == 1,", "            last: length == 0,")
m("c03_loopvar_index_swapped", "C03", r"C03\.LOOPVAR:vm:__tera_loop_index0", "loop.index0 answers the 1-based index",
  "tera/src/vm/for_loop.rs", "                Some(Value::from(self.loop_data.index0 as u64))", "                Some(Value::from(self.loop_data.index() as u64))")
m("c03_loopvar_parser", "C03", r"C03\.LOOPVAR:parser:loop\.last", "the parser maps loop.last to the first flag",
  "tera/src/parsing/parser.rs", '                            "last" => "__tera_loop_last",', '                            "last" => "__tera_loop_first",')
m("c03_incl_parent_context_only", "C03", r"C03\.INCL:render_include:parent-link", "an include no longer sees the includer's assignments",
  "tera/src/vm/interpreter.rs", "        include_state.include_parent = Some(state);\n", "        include_state.include_parent = state.include_parent;\n")
m("c03_incl_capture_outer", "C03", r"C03\.INCL:vm:include-innermost-capture", "an include inside nested captures writes into the outermost capture",
  "tera/src/vm/interpreter.rs", "                        let last = state.capture_buffers.len() - 1;\n                        let mut buf = std::mem::take(&mut state.capture_buffers[last]);",
  "                        let last = 0;\n                        let mut buf = std::mem::take(&mut state.capture_buffers[last]);")
m("c03_jump_continue_outer", "C03", r"C03\.JUMP:compiler:current-loop-is-innermost", "continue targets the outermost loop being compiled",
  "tera/src/parsing/compiler.rs", """        self.processing_bodies
            .iter()
            .rev()
            .find(|b| matches!(b, ProcessingBody::Loop(..)))""", """        self.processing_bodies
            .iter()
            .find(|b| matches!(b, ProcessingBody::Loop(..)))""")
m("c03_jump_break_outer", "C03", r"C03\.JUMP:vm:break-innermost", "break leaves the outermost running loop",
  "tera/src/vm/interpreter.rs", """                Instruction::Break => {
                    if let Some(for_loop) = state.for_loops.last_mut() {""", """                Instruction::Break => {
                    if let Some(for_loop) = state.for_loops.first_mut() {""")
m("c03_jump_forelse_flag", "C03", r"C03\.JUMP:vm:for-else-flag", "the for-else flag is not negated",
  "tera/src/vm/interpreter.rs", "                            .push(Value::from(!for_loop.iterated()), current_ip..=current_ip);",
  "                            .push(Value::from(for_loop.iterated()), current_ip..=current_ip);")
m("c03_jump_if_no_jump", "C03", r"C03\.JUMP:compiler:if-skeleton", "the jump over the else body is emitted after the conditional jump was patched",
  "tera/src/parsing/compiler.rs", """                    let idx = self.chunk.add(Instruction::Jump(0), None) as usize;
                    self.end_branch(self.chunk.len());
                    self.processing_bodies.push(ProcessingBody::Branch(idx));""", """                    self.end_branch(self.chunk.len());
                    let idx = self.chunk.add(Instruction::Jump(0), None) as usize;
                    self.processing_bodies.push(ProcessingBody::Branch(idx));""")
m("c14_len_bytes", "C14", r"C14\.LEN:value::Value::get_item", "string indexing normalises negative indices against the byte length",
  "tera/src/value/mod.rs", """                Ok(match resolve_index(&item, chars.len(), "String")? {""", """                Ok(match resolve_index(&item, s.len().min(chars.len() + s.len()), "String")? {""")
m("c15_keynum_hash_tag", "C15", r"C15\.KEYNUM:hash-agrees-across-widths", "non-negative signed keys are hashed with their own tag",
  "tera/src/value/key.rs", """            KeyNumber::Signed(v) => {
                0u8.hash(state);
                (v as u128).hash(state);""", """            KeyNumber::Signed(v) => {
                2u8.hash(state);
                (v as u128).hash(state);""")
m("c16_split_skips_empty", "C16", r"C16\.ORDUSE:split:std-split-with-pat", "split drops empty pieces",
  "tera/src/filters.rs", """        .split(pat)
        .map(Into::into)""", """        .split(pat)
        .filter(|p| !p.is_empty())
        .map(Into::into)""")
# ---------------------------------------------------------------- C04
m("c04_order_no_reverse", "C04", r"C04\.ORDER:(render_to:root-end-of-chain|finalize:ancestors-nearest-first)", "find_parents returns the chain nearest-first",
  "tera/src/template.rs", "            parents.reverse();\n            Ok(parents)", "            Ok(parents)")
m("c04_order_root_last", "C04", r"C04\.ORDER:render_to:root-end-of-chain", "rendering starts from the nearest parent",
  "tera/src/vm/interpreter.rs", "let chunk = if let Some(base_tpl_name) = self.template.parents.first() {", "let chunk = if let Some(base_tpl_name) = self.template.parents.last() {")
m("c04_order_lineage_forward", "C04", r"C04\.ORDER:finalize:ancestors-nearest-first", "the super() chain walks the ancestors root-first",
  "tera/src/tera.rs", "                    for parent_tpl_name in tpl_parents[name].iter().rev() {", "                    for parent_tpl_name in tpl_parents[name].iter() {")
m("c04_lineage_always_walk", "C04", r"C04\.LINEAGE:finalize:ancestors-only-if-own-calls-super", "ancestors are appended even when the own definition does not call super()",
  "tera/src/tera.rs", "                if chunk.is_calling_function(\"super\") {\n                    for parent_tpl_name", "                if chunk.is_calling_function(\"super\") || !tpl_parents[name].is_empty() {\n                    for parent_tpl_name")
m("c04_lineage_no_stop", "C04", r"C04\.LINEAGE:finalize:stop-at-first-non-super", "the walk does not stop at an ancestor definition without super()",
  "tera/src/tera.rs", """                            if !parent_chunk.is_calling_function("super") {
                                break;
                            }""", """                            if !parent_chunk.is_calling_function("super") && all_blocks.len() > 8 {
                                break;
                            }""")
m("c04_lineage_overwrite", "C04", r"C04\.LINEAGE:finalize:inherit-without-overwrite", "inherited blocks overwrite the child's own definition",
  "tera/src/tera.rs", "                        child_blocks.entry(block_name).or_insert(lineage);", "                        child_blocks.insert(block_name, lineage);")
m("c04_vm_last_level", "C04", r"C04\.VM:RenderBlock:most-derived-definition", "RenderBlock starts at the last lineage element",
  "tera/src/vm/interpreter.rs", "                    let block_chunk = &block_lineage[0];", "                    let block_chunk = &block_lineage[block_lineage.len() - 1];")
m("c04_vm_lineage_of_root", "C04", r"C04\.VM:RenderBlock:lineage-of-most-derived", "RenderBlock looks the lineage up in the root template",
  "tera/src/vm/interpreter.rs", """                    let Some(block_lineage) = self
                        .template
                        .block_lineage
                        .get(block_name)""", """                    let Some(block_lineage) = self
                        .tera
                        .templates[self.template.parents.first().unwrap_or(&self.template.name)]
                        .block_lineage
                        .get(block_name)""")
m("c04_vm_super_no_restore", "C04", r"C04\.VM:super:level-set-and-restored", "super() restores the level only after the error check",
  "tera/src/vm/interpreter.rs", """                        state.blocks[pos].2 = level;
                        res?;""", """                        res?;
                        state.blocks[pos].2 = level;""")
m("c04_vm_super_position", "C04", r"C04\.VM:super:topmost-matching-block", "super() uses the bottom-most matching active block",
  "tera/src/vm/interpreter.rs", "                            .rposition(|entry| entry.0 == current_block_name)", "                            .position(|entry| entry.0 == current_block_name)")
m("c04_block_capture_any", "C04", r"C04\.BLOCK:vm:capture-the-named-block", "every block rendered while capture_block is set overwrites the block buffer",
  "tera/src/vm/interpreter.rs", "                    let res = if state.capture_block == Some(block_name.as_str()) {", "                    let res = if state.capture_block.is_some() {")
m("c06_lexoff_skip_tag_chars", "C06", r"C06\.LEXOFF", "skip_tag reports the consumed length in characters",
  "tera/src/parsing/lexer.rs", "    Some((block_str.len() - ptr.len(), outer_ws))", "    Some((block_str.chars().count() - ptr.chars().count(), outer_ws))")
m("c18_writer_linewriter", "C18", r"C18\.IOERR:.*writer-handed-on", "render_to wraps the writer in a LineWriter",
  "tera/src/vm/interpreter.rs", "        let mut state = State::new_with_chunk(context, chunk);\n        state.global_context = Some(global_context);", "        let mut output = std::io::LineWriter::new(output);\n        let mut state = State::new_with_chunk(context, chunk);\n        state.global_context = Some(global_context);")
m("c05_getter_and_then", "C05", r"C05\.BIND:getter-is-plain-lookup", "the API getter hides none values",
  "tera/src/tera.rs", "                |key| context.get(key).cloned(),", "                |key| context.get(key).filter(|v| !v.is_none()).cloned(),")
m("c04_lineage_walk_extra_condition", "C04", r"C04\.LINEAGE:finalize:walk-iff-own-calls-super", "the ancestor walk is skipped for templates with a single parent",
  "tera/src/tera.rs", '                if chunk.is_calling_function("super") {\n                    for parent_tpl_name', '                if tpl_parents[name].len() != 1 && chunk.is_calling_function("super") {\n                    for parent_tpl_name')
m("c03_iter_size_hint_inexact", "C03", r"C03\.ITER:size_hint:exact", "the indexed size hint gives a loose upper bound",
  "tera/src/vm/for_loop.rs", "        let remaining = len - index;\n        (remaining, Some(remaining))", "        let remaining = len - index;\n        (remaining, Some(len))")
_st = open(os.path.join(REPO, "tera/src/vm/state.rs")).read()
_a = _st.index("    pub(crate) current_block_name: Option<&'tera str>,")
_b = _st.index("            current_block_name: None,") + len("            current_block_name: None,")
_old = _st[_a:_b]
_new = _old.replace("    pub(crate) current_block_name: Option<&'tera str>,", "    pub(crate) current_block_name: Option<&'tera str>,\n    pub(crate) last_rendered: Option<Value>,", 1) \
    .replace("            current_block_name: None,", "            current_block_name: None,\n            last_rendered: None,", 1)
m("c03_state_new_field", "C03", r"C03\.STATE:fields-reviewed", "State gets an extra field (a place for a memo)", "tera/src/vm/state.rs", _old, _new)
m("c09_fused_writepath_missing", "C09", r"C09\.FUSED:WritePath:missing-attribute-is-an-error", "WritePath prints nothing for a missing last attribute",
  "tera/src/vm/interpreter.rs", """                                None => {
                                    let span = chunk
                                        .get_span_at(current_ip, k + 1)
                                        .expect("to have a span for error");
                                    return Err(self.undefined_field_error(cur, attr, span, chunk));
                                }
                            }
                        }
                        cur""", """                                None => {
                                    if k + 1 == num_attrs {
                                        ip += 1;
                                        continue;
                                    }
                                    let span = chunk
                                        .get_span_at(current_ip, k + 1)
                                        .expect("to have a span for error");
                                    return Err(self.undefined_field_error(cur, attr, span, chunk));
                                }
                            }
                        }
                        cur""")
m("c04_vm_super_skips_render", "C04", r"C04\.VM:super:always-renders", "super() answers an empty string when the ancestor's chunk has no instructions",
  "tera/src/vm/interpreter.rs", "                        let block_chunk = &lineage[level + 1];\n                        let old_chunk = state.chunk.replace(block_chunk);", "                        let block_chunk = &lineage[level + 1];\n                        if block_chunk.len() == 0 {\n                            state.stack.push(Value::safe_string(\"\"), current_ip..=current_ip);\n                            ip += 1;\n                            continue;\n                        }\n                        let old_chunk = state.chunk.replace(block_chunk);")
m("c14_clamp_hi_len", "C14", r"C14\.ARITH:slice_items:clamp-bounds", "negative-step clamp uses len as the upper bound",
  "tera/src/value/mod.rs", "let (lo, hi) = if step > 0 { (0, len) } else { (-1, len - 1) };", "let (lo, hi) = if step > 0 { (0, len) } else { (-1, len) };")
m("c16_sort_unstable", "C16", r"C16\.ORDUSE:sort:stable", "plain sort uses sort_unstable_by",
  "tera/src/filters.rs", "        out.sort_by(|a, b| a.cmp(b));", "        out.sort_unstable_by(|a, b| a.cmp(b));")
# ---------------------------------------------------------------- round 6
m("c02_lookup_slice_err_undefined", "C02", r"C02\.LOOKUP:Slice:only-the-typed-lookup", "a failed slice reads as undefined",
  "tera/src/vm/interpreter.rs", """                            Err(e) => {
                                rendering_error!(e.to_string(), val_span);
                            }""", """                            Err(_) => {
                                state.stack.push(Value::undefined(), val_span);
                            }""")
m("c03_in_loop_last", "C03", r"C03\.LOOPVAR:parser:in-loop-is-any-enclosing-for", "is_in_loop looks at the innermost body only",
  "tera/src/parsing/parser.rs", "        self.body_contexts.contains(&BodyContext::ForLoop)", "        self.body_contexts.last() == Some(&BodyContext::ForLoop)")
m("c05_child_vm_template_override_none", "C05", r"C05\.SAME:render_component:child-vm-inherits:autoescape_override", "the component VM forgets the API escaping override",
  "tera/src/vm/interpreter.rs", """            template: self.template,
            autoescape_override: self.autoescape_override,
            component_recursion_depth: depth,""", """            template: self.template,
            autoescape_override: None,
            component_recursion_depth: depth,""")
m("c08_raw_trim_start_by_open_dash", "C08", r"C08\.RAW:body-trim_start-gated-by-raw-closing-dash", "the raw body's start is trimmed by `{%- raw`",
  "tera/src/parsing/lexer.rs", "                                        if end_ws_start_tag {\n                                            result = result.trim_start();",
  "                                        if ws {\n                                            result = result.trim_start();")
m("c08_raw_token_flag_open_dash", "C08", r"C08\.RAW:token-trailing-flag-is-endraw-closing-dash", "RawContent's trailing flag is the dash that opens endraw",
  "tera/src/parsing/lexer.rs", "                                            Token::RawContent(ws, result, ws_end),", "                                            Token::RawContent(ws, result, start_ws_end_tag),")
m("c09_fused_writetop_template_flag", "C09", r"C09\.FUSED:WritePath:same-escape-decision-as-WriteTop", "WriteTop reads the template flag, ignoring the override",
  "tera/src/vm/interpreter.rs", "                    if !self.autoescape_enabled() || top.is_safe() {", "                    if !self.template.autoescape_enabled || top.is_safe() {")
m("c04_block_skip_unrelated", "C04", r"C04\.BLOCK:vm:every-block-renders", "a single-block render steps over blocks with another name at depth 0",
  "tera/src/vm/interpreter.rs", "                    let block_chunk = &block_lineage[0];\n                    let old_chunk = state.chunk.replace(block_chunk);",
  "                    if state.blocks.is_empty() && state.capture_block.is_some_and(|w| w != block_name.as_str()) {\n                        ip += 1;\n                        continue;\n                    }\n                    let block_chunk = &block_lineage[0];\n                    let old_chunk = state.chunk.replace(block_chunk);")
m("c01_cfg_suffix_trimmed", "C01", r"C01\.CFG:suffix-rule:plain-ends_with", "the suffix rule compares a trimmed, lower-cased name",
  "tera/src/tera.rs", "tpl_name.ends_with(s.as_ref())", "tpl_name.to_lowercase().ends_with(s.as_ref())")
m("c10_add_file_ok_none", "C10", r"C10\.UNDO:add_file:returns-previous", "add_file reports 'was absent' whatever it replaced",
  "tera/src/tera.rs", "        let previous = self.templates.insert(key.clone(), template);\n        Ok((key, previous))", "        let _previous = self.templates.insert(key.clone(), template);\n        Ok((key, None))")
m("c12_note_component_question_mark", "C12", r"C12\.NOTE:vm:render_component#\d:error-exit-through-note-site", "a component error is propagated with ? before the note is added",
  "tera/src/vm/interpreter.rs", """                let val = match self.render_component(&component_chunk, context) {
                    Ok(v) => v,
                    Err(mut e) => {""", """                let val = match self.render_component(&component_chunk, context) {
                    Ok(v) => v,
                    Err(e) if $has_body => return Err(e),
                    Err(mut e) => {""")
m("c13_float_float_bits", "C13", r"C13\.CMP:.*no-bit-pattern-order", "two floats of equal sign are compared through their bits",
  "tera/src/value/mod.rs", """                let ord = a
                    .partial_cmp(b)
                    .unwrap_or_else(|| match (a.is_nan(), b.is_nan()) {""", """                if a.is_sign_positive() && b.is_sign_positive() {
                    return Some(a.to_bits().cmp(&b.to_bits()));
                }
                let ord = a
                    .partial_cmp(b)
                    .unwrap_or_else(|| match (a.is_nan(), b.is_nan()) {""")
m("c16_unique_string_shadow_set", "C16", r"C16\.ORDUSE:unique:decided-by-the-value-set-alone", "unique also remembers the printed form of what it has seen",
  "tera/src/filters.rs", """    for v in val {
        if !seen.contains(v) {
            seen.insert(v.clone());
            res.push(v.clone());
        }
    }

    res""", """    let mut printed = BTreeSet::new();
    for v in val {
        if !seen.contains(v) && printed.insert(v.to_string()) {
            seen.insert(v.clone());
            res.push(v.clone());
        }
    }

    res""")
m("c18_wrap_render_empty_shortcut", "C18", r"C18\.WRAP:vm::interpreter::VirtualMachine::<'tera>::render:no-shortcut", "VM::render answers an empty string for a template without size hint, without calling render_to",
  "tera/src/vm/interpreter.rs", """        let mut output = Vec::with_capacity(self.template.size_hint());
        self.render_to(None, context, global_context, &mut output)?;""", """        if self.template.size_hint() == 0 && self.template.parents.is_empty() {
            return Ok(String::new());
        }
        let mut output = Vec::with_capacity(self.template.size_hint());
        self.render_to(None, context, global_context, &mut output)?;""")
# ---------------------------------------------------------------- round 7
m("c05_prio_override_keeps_priority", "C05", r"C05\.PRIO:table:pairs-of-one-template", "an overriding definition is stored with the priority of the one it replaces",
  "tera/src/tera.rs", """                            // Current has higher priority (lower number), override
                            component_sources.insert(component_name, (&tpl.name, current_priority));""", """                            // Current has higher priority (lower number), override
                            component_sources.insert(component_name, (&tpl.name, existing_priority));""")
m("c05_prio_override_on_le", "C05", r"C05\.PRIO:table:pairs-of-one-template", "equal priority overrides instead of being the duplicate error",
  "tera/src/tera.rs", "                        if current_priority < existing_priority {", "                        if current_priority <= existing_priority {")
m("c04_current_block_not_restored_on_capture", "C04", r"C04\.VM:RenderBlock:current-block-saved-and-restored", "the enclosing block's name is put back only when the block was not the captured one",
  "tera/src/vm/interpreter.rs", """                    state.current_block_name = old_block_name;
                    state.blocks.pop();""", """                    if state.capture_block != Some(block_name.as_str()) {
                        state.current_block_name = old_block_name;
                    }
                    state.blocks.pop();""")
m("c01_esc_bulk_copy_ascii_alnum", "C01", r"C01\.ESC:default:raw-write#\d", "escape_html copies the input in one write when it has no & and no <",
  "tera/src/utils.rs", """        for c in input.as_bytes() {
            match c {
                b'&' => buf.write_all(b"&amp;")?,""", """        if !input.contains('&') && !input.contains('<') {
            return buf.write_all(input.as_bytes());
        }
        for c in input.as_bytes() {
            match c {
                b'&' => buf.write_all(b"&amp;")?,""")
m("c12_parser_trims_source", "C12", r"C12\.SRC:Parser::new:source-as-given", "the parser tokenizes the source with trailing whitespace removed",
  "tera/src/parsing/parser.rs", "        let iter = Box::new(tokenize(source, delimiters)) as Box<dyn Iterator<Item = _>>;", "        let iter = Box::new(tokenize(source.trim_start_matches('\\u{feff}'), delimiters)) as Box<dyn Iterator<Item = _>>;")
m("c16_group_by_insert_always", "C16", r"C16\.ORDUSE:group_by:insert-never-overwrites", "group_by inserts a one-element group for every element whose key is not the previous one",
  "tera/src/filters.rs", """                if let Some(arr) = grouped.get_mut(&key) {
                    arr.push(v.clone());
                } else {
                    grouped.insert(key, vec![v.clone()]);
                }""", """                if let Some(arr) = grouped.get_mut(&key).filter(|a| a.len() < 1024) {
                    arr.push(v.clone());
                } else {
                    grouped.insert(key, vec![v.clone()]);
                }""")
m("c18_component_io_error_dropped", "C18", r"C18\.IOERR:vm:render_component#\d:error-always-returns", "a non-rendering error of a component is replaced by an empty string",
  "tera/src/vm/interpreter.rs", """                let val = match self.render_component(&component_chunk, context) {
                    Ok(v) => v,
                    Err(mut e) => {""", """                let val = match self.render_component(&component_chunk, context) {
                    Ok(v) => v,
                    Err(e) if !matches!(e.kind, ErrorKind::RenderingError(_)) && $has_body => String::new(),
                    Err(mut e) => {""")
m("c19_enum_string_payload_some_none", "C19", r"C19\.ENUM:deserialize_enum:map-form-always-carries-its-value", "an empty-string payload of the map form is treated as no payload",
  "tera/src/value/de.rs", "                (variant.as_value(), Some(value.clone()))", "                (variant.as_value(), if value.as_str() == Some(\"\") { None } else { Some(value.clone()) })")
m("c17_deleg_upper_ascii", "C17", r"C17\.DELEG:filters::upper", "upper uses the ASCII-only upper-casing",
  "tera/src/filters.rs", "    val.to_uppercase()", "    val.to_ascii_uppercase()")
# ---------------------------------------------------------------- round 8
m("c02_in_array_by_string_form", "C02", r"C02\.IN:array:element-wise-value-eq", "`in` on arrays compares printed forms for string needles",
  "tera/src/value/mod.rs", "            ValueInner::Array(arr) => Ok(arr.contains(needle)),", "            ValueInner::Array(arr) => Ok(arr.contains(needle) || needle.as_str().is_some_and(|s| arr.iter().any(|v| v.to_string() == s))),")
m("c04_template_new_skips_trailing_nodes", "C04", r"C04\.BLOCK:Template::new:compiles-every-node", "a child template's nodes after the last top-level block are not compiled",
  "tera/src/template.rs", "        body_compiler.compile(parser_output.nodes);", "        let mut nodes = parser_output.nodes;\n        if extends.is_some() {\n            nodes.retain(|n| !matches!(n, crate::parsing::ast::Node::Content(_)));\n        }\n        body_compiler.compile(nodes);")
m("c05_type_integer_accepts_whole_floats", "C05", r"C05\.TYPE:matches_value:(by-kind-only|Integer)", "integer parameters accept any value with an integer view",
  "tera/src/parsing/ast.rs", """            Type::Integer => matches!(
                value.kind(),
                ValueKind::I64 | ValueKind::U64 | ValueKind::I128 | ValueKind::U128
            ),""", """            Type::Integer => value.as_i128().is_some() || value.as_u128().is_some(),""")
m("c09_fused_writepath_root_via_get", "C09", r"C09\.FUSED:WritePath:root-resolved-like-LoadName", "WritePath resolves its root through State::get::<Value>",
  "tera/src/vm/interpreter.rs", """                    let root = if path.len() == 1 && path[0] == MAGICAL_DUMP_VAR {
                        state.dump_context()
                    } else {
                        state.get_value(&path[0])
                    };""", """                    let root = if path.len() == 1 && path[0] == MAGICAL_DUMP_VAR {
                        state.dump_context()
                    } else {
                        state.context.data.get(path[0].as_str()).cloned().unwrap_or_else(|| state.get_value(&path[0]))
                    };""")
m("c11_resolve_prefixes_any_time", "C11", r"C11\.RESOLVE:fallback_prefixes-writer", "set_fallback_prefixes no longer insists on an empty instance",
  "tera/src/tera.rs", """        if !self.templates.is_empty() {
            return Err(Error::message(
                "set_fallback_prefixes must be called before adding templates",
            ));
        }
        self.fallback_prefixes""", """        self.fallback_prefixes""")
m("c12_span_expand_keeps_col", "C12", r"C12\.POS:Span::expand:end-triple-from-one-span", "Span::expand keeps the larger end column",
  "tera/src/utils.rs", "        self.end_col = other.end_col;", "        self.end_col = other.end_col.max(self.end_col);")
m("c13_float_to_int_in_round", "C13", r"C13\.CONV:float-to-int:", "Number::is_zero compares a truncated float",
  "tera/src/value/number.rs", "            Number::Float(f) => f.is_finite() && f == &0.0,", "            Number::Float(f) => f.is_finite() && (*f as i64) == 0 && f.fract() == 0.0,")
m("c15_keynum_ord_mixed_only", "C15", r"C15\.KEYNUM:ord:same-sign-pairs-compare-payloads", "two signed keys are compared through their distance from zero",
  "tera/src/value/key.rs", "            (KeyNumber::Signed(a), KeyNumber::Signed(b)) => a.cmp(&b),", "            (KeyNumber::Signed(a), KeyNumber::Signed(b)) => (a >= 0, a.unsigned_abs()).cmp(&(b >= 0, b.unsigned_abs())),")
m("c17_typetest_float_via_accessor", "C17", r"C17\.TYPETEST:is_float:by-kind-only", "`float` is true for anything with a float view",
  "tera/src/tests.rs", """pub(crate) fn is_float(val: &Value, _: Kwargs, _: &State) -> bool {
    val.is_f64()""", """pub(crate) fn is_float(val: &Value, _: Kwargs, _: &State) -> bool {
    val.as_f64().is_some() && !val.is_bool()""")
m("c17_deleg_last_by_index", "C17", r"C17\.DELEG:filters::last", "last indexes len - 1 by hand",
  "tera/src/filters.rs", "    Ok(val.last().cloned().unwrap_or(Value::none()))", "    Ok(val.get(val.len().wrapping_sub(1)).cloned().unwrap_or(Value::none()))")
# ---------------------------------------------------------------- round 9
m("c02_concat_same_string_passthrough", "C02", r"C02\.CONCAT:vm:always-a-built-string", "`a ~ b` hands `a` back when b is none",
  "tera/src/vm/interpreter.rs", "                        _ => Value::from(format!(\"{a}{b}\")),", "                        (_, ValueInner::None) => a,\n                        _ => Value::from(format!(\"{a}{b}\")),")
m("c03_load_name_context_first", "C03", r"C03\.SCOPE:load_name:always-the-scope-chain", "load_name looks in the render context before the scope chain",
  "tera/src/vm/state.rs", "            self.stack.push(self.get_value(name), span_idx..=span_idx);", "            let v = self.context.data.get(name).cloned().unwrap_or_else(|| self.get_value(name));\n            self.stack.push(v, span_idx..=span_idx);")
m("c12_report_target_own_when_parentless", "C12", r"C12\.SRC:report_target:own-template-only-for-own-chunk", "report_target uses its own template whenever it has no parents",
  "tera/src/vm/interpreter.rs", "        if self.template.name != chunk.name {", "        if self.template.name != chunk.name && !self.template.parents.is_empty() {")
m("c15_get_attr_stops_at_first_key", "C15", r"C15\.ATTR:get_attr:scan-skips-non-matching-keys", "get_attr's scan answers from the first entry only",
  "tera/src/value/mod.rs", """                m.iter().find_map(|(k, v)| match k.as_str() {
                    Some(s) if s == attr => Some(v),
                    _ => None,
                })""", """                for (k, v) in m.iter() {
                    match k.as_str() {
                        Some(s) if s == attr => return Some(v),
                        Some(_) => continue,
                        None => return None,
                    }
                }
                None""")
m("c17_round_unscaled_for_small_precision", "C17", r"C17\.PRE:round:unscaled-only-for-precision-0", "round ignores negative precisions",
  "tera/src/filters.rs", "    let multiplier = if precision == 0 {", "    let multiplier = if precision <= 0 {")
m("c18_render_to_block_write_error_forgiven", "C18", r"C18\.IOERR:.*render_to", "a failed write of the captured block is forgiven",
  "tera/src/vm/interpreter.rs", "            output.write_all(&state.block_buffer)?;", "            if output.write_all(&state.block_buffer).is_err() {\n                return Ok(());\n            }")
m("c16_reverse_bytes_as_array", "C16", r"C16\.KIND:reverse:Bytes-stays-Bytes", "reversed bytes come back as an array of integers (the defect repaired by 174ddd8)",
  "tera/src/value/mod.rs", """            ValueInner::Bytes(v) => {
                let rev: Vec<u8> = v.iter().rev().copied().collect();
                Ok(Self::from(rev.as_slice()))
            }""", """            ValueInner::Bytes(v) => Ok(Self::from(v.iter().rev().copied().collect::<Vec<_>>())),""")
# ---------------------------------------------------------------- C05
m("c05_iso_global", "C05", r"C05\.ISO:writer:global_context", "render_component gives the component the global context",
  "tera/src/vm/interpreter.rs", """        let mut state = State::new_with_chunk(&context, chunk);
        state.filters = Some(&self.tera.filters);
        let mut output = Vec::with_capacity(1024);""", """        let mut state = State::new_with_chunk(&context, chunk);
        state.filters = Some(&self.tera.filters);
        state.global_context = state.include_parent.and_then(|p| p.global_context);
        let mut output = Vec::with_capacity(1024);""")
m("c05_rec_include_reset", "C05", r"C05\.REC:render_include:child-depth", "render_include resets the component depth",
  "tera/src/vm/interpreter.rs", "            component_recursion_depth: self.component_recursion_depth,\n            include_depth: depth,",
  "            component_recursion_depth: 0,\n            include_depth: depth,")
m("c05_bind_default_over_none", "C05", r"C05\.BIND:(default-only-when-missing|provided-value-bound|type-checked-before-bound)", "a provided none is replaced by the declared default",
  "tera/src/parsing/ast.rs", """                Some(value) => {
                    if !arg_def.type_matches(&value) {""", """                Some(value) => {
                    let value = match &arg_def.default {
                        Some(d) if value.is_none() => d.clone(),
                        _ => value,
                    };
                    if !arg_def.type_matches(&value) {""")
m("c05_bind_typecheck_skipped", "C05", r"C05\.BIND:type-checked-before-bound", "the type check is skipped for parameters that have a default",
  "tera/src/parsing/ast.rs", "                    if !arg_def.type_matches(&value) {", "                    if arg_def.default.is_none() && !arg_def.type_matches(&value) {")
m("c05_bind_unknown_ignored", "C05", r"C05\.BIND:(undeclared-to-rest-or-remembered|unknown-rejected)", "a single unknown argument is silently ignored",
  "tera/src/parsing/ast.rs", "        if !unknown_keys.is_empty() {\n            let kwargs_list = self.kwargs_list();", "        if unknown_keys.len() > 1 {\n            let kwargs_list = self.kwargs_list();")
m("c05_bind_rest_gets_declared", "C05", r"C05\.BIND:undeclared-to-rest-or-remembered", "declared arguments are also copied into the rest map",
  "tera/src/parsing/ast.rs", """            if !self.kwargs.contains_key(key) {
                if self.rest_param_name.is_some() {""", """            if !self.kwargs.contains_key(key) || self.rest_param_name.is_some() {
                if self.rest_param_name.is_some() {""")
m("c05_bind_missing_is_none", "C05", r"C05\.BIND:(default-only-when-missing|only-declared-rest-body)", "a missing untyped argument is bound to none instead of being an error",
  "tera/src/parsing/ast.rs", """                    None => {
                        let typ_msg = arg_def""", """                    None if arg_def.typ.is_none() => {
                        context.insert_value(key.clone(), Value::none());
                    }
                    None => {
                        let typ_msg = arg_def""")
# ---------------------------------------------------------------- C06
m("c06_depth_filter", "C06", r"R-DEPTH\.ast:.*parse_expr_bp", "drop the depth charge for binary/filter/test chains",
  "tera/src/parsing/parser.rs", "            self.next_or_error()?;\n            self.deepen_expression()?;\n", "            self.next_or_error()?;\n")
m("c06_rec_elif", "C06", r"R-REC\.parse:.*parse_if->.*parse_if", "elif recursion guard removed",
  "tera/src/parsing/parser.rs", """                if self.elif_depth > MAX_ELIF_DEPTH {
                    self.elif_depth -= 1;
                    return Err(Error::syntax_error(
                        "Too many `elif` branches".to_string(),
                        &self.current_span,
                    ));
                }
""", "")
m("c06_parseprog_kwargs", "C06", r"C06\.PARSEPROG:.*parse_component_attributes", "spread attribute no longer consumes its opening brace",
  "tera/src/parsing/parser.rs", """                Some(Ok((Token::LeftBrace, _))) => {
                    self.next_or_error()?; // consume '{'
                    expect_token!(self, Token::Spread, "...")?;
                    let expr = self.parse_expression(0)?;
                    expect_token!(self, Token::RightBrace, "}")?;
                    attrs.push(MapEntry::Spread(expr));""", """                Some(Ok((Token::LeftBrace, _))) => {
                    if attrs.len() > 100 {
                        self.next_or_error()?; // consume '{'
                        expect_token!(self, Token::Spread, "...")?;
                        let expr = self.parse_expression(0)?;
                        expect_token!(self, Token::RightBrace, "}")?;
                        attrs.push(MapEntry::Spread(expr));
                    }""")
m("c06_errkind_message", "C06", r"C06\.ERRKIND:.*parse_array:Error::message", "parser raises a plain message error",
  "tera/src/parsing/parser.rs", """            return Err(Error::syntax_error(
                format!("Arrays can have a maximum of {MAX_DIMENSION_ARRAY} dimensions."),
                &span,
            ));""", """            return Err(Error::message(format!(
                "Arrays can have a maximum of {MAX_DIMENSION_ARRAY} dimensions."
            )));""")
m("c06_delim_unvalidated", "C06", r"C06\.DELIM:writer:tera::Tera::set_delimiters", "delimiters stored before validation",
  "tera/src/tera.rs", """        delimiters.validate()?;
        self.delimiters = delimiters;
        Ok(())""", """        self.delimiters = delimiters;
        self.delimiters.validate()?;
        Ok(())""")
m("c06_patch_forgotten", "C06", r"C06\.PATCH:.*compile_expr:PopJumpIfFalse", "list-comprehension condition jump never patched",
  "tera/src/parsing/compiler.rs", """                if let Some(idx) = cond_skip_idx {
                    let jump_back_target = self.chunk.len();
                    if let Some((Instruction::PopJumpIfFalse(t), _)) = self.chunk.get_mut(idx) {
                        *t = jump_back_target;
                    } else {
                        unreachable!();
                    }
                }""", """                let _ = cond_skip_idx;""")
m("c06_jt_offbyone", "C06", r"C06\.JT:.*compile_node:patch", "loop end target computed arithmetically",
  "tera/src/parsing/compiler.rs", """                        if let Some((Instruction::Iterate(jump_target), _)) =
                            self.chunk.get_mut(start_idx)
                        {
                            *jump_target = loop_end;""", """                        if let Some((Instruction::Iterate(jump_target), _)) =
                            self.chunk.get_mut(start_idx)
                        {
                            *jump_target = loop_end + has_else as usize;""")
# ---------------------------------------------------------------- C07
m("c07_ref_a_setblock", "C07", r"C07\.REF\.a:.*compile_node:ApplyFilter", "drop the filter_calls record in the set-block filter chain",
  "tera/src/parsing/compiler.rs", """                        self.compile_kwargs(filter.kwargs);
                        self.filter_calls
                            .entry(filter.name.clone())
                            .or_default()
                            .push(span.clone());
""", "                        self.compile_kwargs(filter.kwargs);\n")
m("c07_ref_b_merge", "C07", r"C07\.REF\.b:.*components-merge=test_calls", "component compiler test_calls not merged",
  "tera/src/template.rs", """                for (name, spans) in compiler.test_calls {
                    test_calls.entry(name).or_default().extend(spans);
                }
""", "")
m("c07_ref_c_tests", "C07", r"C07\.REF\.c:validate:test_calls", "tests validated against the filter registry",
  "tera/src/tera.rs", "if !self.tests.contains_key(test.as_str()) {", "if !self.filters.contains_key(test.as_str()) && !self.tests.is_empty() {")
m("c07_rec_include", "C07", r"R-REC\.vm:.*render_include", "drop the include depth guard",
  "tera/src/vm/interpreter.rs", """        if depth > MAX_INCLUDE_DEPTH {
            return Err(Error::message(format!(
                "Maximum include depth exceeded while including '{name}'."
            )));
        }
""", "")
m("c07_rec_block", "C07", r"R-REC\.vm:.*interpret->.*interpret", "drop the block depth guard",
  "tera/src/vm/interpreter.rs", """                    if state.blocks.len() >= MAX_BLOCK_DEPTH {""", """                    if state.blocks.len() >= MAX_BLOCK_DEPTH && state.for_loops.len() > 1000 {""")
m("c07_span_dropped", "C07", r"C07\.SPAN:compile_expr:RunTest", "test instruction emitted without its span",
  "tera/src/parsing/compiler.rs", "self.chunk.add(Instruction::RunTest(test.name), Some(span));", "self.chunk.add(Instruction::RunTest(test.name), None);")
m("c07_utf8_bytes_raw", "C07", r"C07\.UTF8:value::Value::format", "bytes values written raw instead of lossily",
  "tera/src/value/mod.rs", "ValueInner::Bytes(v) => f.write_all(String::from_utf8_lossy(v).as_bytes()),", "ValueInner::Bytes(v) => f.write_all(v),")
m("c07_pair_endcapture", "C07", r"C07\.PAIR:compile_node:Capture", "filter section without kwargs skips EndCapture",
  "tera/src/parsing/compiler.rs", """                self.chunk
                    .add(Instruction::EndCapture, Some(f.name.span().clone()));
                self.compile_kwargs(f.kwargs);""", """                if !f.kwargs.is_empty() || !f.name.node().is_empty() {
                    self.chunk
                        .add(Instruction::EndCapture, Some(f.name.span().clone()));
                }
                self.compile_kwargs(f.kwargs);""")
m("c07_pair_break_capture", "C07", r"C07\.PAIR:parser:capture-blocks-break", "break allowed inside captures",
  "tera/src/parsing/parser.rs", """                    if *ctx == BodyContext::Capture {
                        return Err(Error::syntax_error(""", """                    if *ctx == BodyContext::ComponentDefinition {
                        return Err(Error::syntax_error(""")
m("c07_pair_scan_forward", "C07", r"C07\.PAIR:parser:capture-blocks-break", "break/continue scan walks the contexts outermost-first: for > capture > break is accepted",
  "tera/src/parsing/parser.rs", "                for ctx in self.body_contexts.iter().rev() {\n                    if *ctx == BodyContext::ForLoop {",
  "                for ctx in self.body_contexts.iter() {\n                    if *ctx == BodyContext::ForLoop {")
m("c07_pair_flag_wrong_ctx", "C07", r"C07\.PAIR:(parser:Break-in-loop|anchor)", "the found-a-loop flag is set for any non-capture context",
  "tera/src/parsing/parser.rs", "                    if *ctx == BodyContext::ForLoop {\n                        in_loop = true;",
  "                    if *ctx != BodyContext::Capture {\n                        in_loop = true;")
m("c06_report_sub_unguarded", "C06", r"R-PANIC\.report:reporting::SourceLocation::<'a>::new\|K4\|Sub usize", "underline width subtracts before testing: multi-line spans (end_col < start_col) overflow at add time",
  "tera/src/reporting.rs", """        let width = if span.end_col > span.start_col {
            span.end_col - span.start_col
        } else {
            1
        };""", """        let width = (span.end_col - span.start_col).max(1);""")
m("c07_pair_find_skips_capture", "C07", r"C07\.PAIR:parser:capture-blocks-break", "break/continue guard rewritten with find() that only looks for a ForLoop (captures are skipped)",
  "tera/src/parsing/parser.rs", """                let mut in_loop = false;
                for ctx in self.body_contexts.iter().rev() {
                    if *ctx == BodyContext::ForLoop {
                        in_loop = true;
                        break;
                    }
                    if *ctx == BodyContext::Capture {
                        return Err(Error::syntax_error(
                            format!(
                                "`{kw}` cannot be used inside a filter section, `set` block or component body"
                            ),
                            &self.current_span,
                        ));
                    }
                }
                if !in_loop {""", """                let innermost = self
                    .body_contexts
                    .iter()
                    .rev()
                    .find(|ctx| matches!(ctx, BodyContext::ForLoop));
                let in_loop = matches!(innermost, Some(BodyContext::ForLoop));
                if !in_loop {""")
m("c07_pair_blocks_pop", "C07", r"C07\.PAIR:vm:blocks-push-pop", "block stack popped after the error check",
  "tera/src/vm/interpreter.rs", """                    state.current_block_name = old_block_name;
                    state.blocks.pop();
                    res?;""", """                    state.current_block_name = old_block_name;
                    res?;
                    state.blocks.pop();""")
m("c07_iter_unchecked", "C07", r"C07\.ITER:vm:ForLoop::new", "iteration check skipped for comprehensions",
  "tera/src/vm/interpreter.rs", "                    if !container.can_be_iterated_on() {", "                    if !container.can_be_iterated_on() && !matches!(instr, Instruction::StartIterateComprehension(_)) {")
# ---------------------------------------------------------------- C08
m("c08_trim_comment", "C08", r"C08\.TRIM:.*arm=Comment", "re-introduce the leaked trim flag through comments",
  "tera/src/parsing/lexer.rs", "            remove_leading_ws = end_ws;\n", "            if end_ws {\n                remove_leading_ws = true;\n            }\n")
m("c08_peek_raw", "C08", r"C08\.PEEK:.*peek", "raw blocks no longer trigger the end trim of the preceding text",
  "tera/src/parsing/lexer.rs", """                    | Some(Ok((Token::Comment(true, _), _)))
                    | Some(Ok((Token::RawContent(true, _, _), _)))""", """                    | Some(Ok((Token::Comment(true, _), _)))""")
# ---------------------------------------------------------------- C11
m("c11_run_cycles", "C11", r"C11\.RUN:finalize:check_include_cycles", "include-cycle check only for templates that extend nothing",
  "tera/src/tera.rs", "            check_include_cycles(self, tpl)?;", "            if parents.is_empty() {\n                check_include_cycles(self, tpl)?;\n            }")
m("c11_walk_visited", "C11", r"C11\.WALK:template::find_parents", "find_parents no longer checks the visited chain",
  "tera/src/template.rs", "if resolved == start.name || parents.iter().any(|name| name == resolved) {", "if resolved == start.name {")
# ---------------------------------------------------------------- C15
m("c15_ord_map", "C15", r"C15\.ORD:.*pair=Map,Map", "drop the total arm for maps in Ord::cmp",
  "tera/src/value/mod.rs", "__SPECIAL_ORD_MAP__", "")
m("c15_keynum_cast", "C15", r"C15\.KEYNUM:.*Hash", "KeyNumber::hash casts negative values",
  "tera/src/value/key.rs", """            KeyNumber::Signed(v) if v < 0 => {
                1u8.hash(state);
                v.hash(state);
            }
""", "")
# ---------------------------------------------------------------- C09
m("c09_jumpset_iterate", "C09", r"C09\.JUMPSET:sets-agree", "Iterate dropped from the optimiser's target-marking loop",
  "tera/src/parsing/instructions.rs", """            | Instruction::JumpIfTrueOrPop(t)
            | Instruction::Iterate(t) = instr
                && *t < is_jump_target.len()""", """            | Instruction::JumpIfTrueOrPop(t) = instr
                && *t < is_jump_target.len()""")
m("c09_guard_writetop", "C09", r"C09\.GUARD:absorb", "WriteTop absorbed even when it is a jump target",
  "tera/src/parsing/instructions.rs", """                let has_write = j < old_instructions.len()
                    && !is_jump_target[j]
                    && matches!""", """                let has_write = j < old_instructions.len()
                    && matches!""")
# ---------------------------------------------------------------- C13
m("c13_rem_callee", "C13", r"C13\.CALLEE:rem", "% uses checked_rem (truncated) instead of checked_rem_euclid",
  "tera/src/value/number.rs", "match a.checked_rem_euclid(b) {", "match a.checked_rem(b) {")
m("c13_zero_test", "C13", r"C13\.CALLEE:floor_div:zero-test", "zero test removed from floor_div",
  "tera/src/value/number.rs", """pub(crate) fn floor_div(lhs: &Value, rhs: &Value) -> TeraResult<Value> {
    match (lhs.as_number(), rhs.as_number()) {
        (Some(mut left), Some(mut right)) => {
            if right.is_zero() {
                return Err(Error::message("Cannot divide by 0".to_string()));
            }
""", """pub(crate) fn floor_div(lhs: &Value, rhs: &Value) -> TeraResult<Value> {
    match (lhs.as_number(), rhs.as_number()) {
        (Some(mut left), Some(mut right)) => {
""")
m("c13_wrapping_neg", "C13", r"C13\.(CHK|CALLEE):.*negate", "negate wraps instead of failing",
  "tera/src/value/number.rs", "Number::Integer(f) => match f.checked_neg() {", "Number::Integer(f) => match Some(f.wrapping_neg()) {")
m("c13_cmp_lossy", "C13", r"C13\.CMP:.*eq:cast", "== compares an i64 with a float through a lossy cast",
  "tera/src/value/mod.rs", """            (ValueInner::F64(a), ValueInner::F64(b)) => (a.is_nan() && b.is_nan()) || a == b,
            (ValueInner::F64(v), _) => cmp_f64_to_number(*v, other) == Some(Ordering::Equal),""",
  """            (ValueInner::F64(a), ValueInner::F64(b)) => (a.is_nan() && b.is_nan()) || a == b,
            (ValueInner::F64(v), ValueInner::I64(i)) => *v == *i as f64,
            (ValueInner::F64(v), _) => cmp_f64_to_number(*v, other) == Some(Ordering::Equal),""")
# ---------------------------------------------------------------- C18
m("c18_freeze_mutex", "C18", r"C18\.FREEZE:tera::Tera", "a Mutex-protected counter added to the engine",
  "tera/src/tera.rs", "__SPECIAL_TERA_MUTEX__", "")
m("c18_ioerr_dropped", "C18", r"C18\.IOERR:.*interpret:write_all", "write failure of template text ignored",
  "tera/src/vm/interpreter.rs", "                        output.write_all(t.as_bytes())?;", "                        let _ = output.write_all(t.as_bytes());")
m("c18_wrap_extra", "C18", r"C18\.WRAP:tera::Tera::render_str", "render_str post-processes the buffer",
  "tera/src/tera.rs", """        self.render_str_to(input, context, autoescape, &mut output)?;
        Ok(String::from_utf8(output)?)""", """        self.render_str_to(input, context, autoescape, &mut output)?;
        output.extend_from_slice(b"");
        Ok(String::from_utf8(output)?)""")
# ---------------------------------------------------------------- C10
m("c10_commit_early", "C10", r"C10\.COMMIT:", "components map committed before the error check",
  "tera/src/tera.rs", """        if !errors.is_empty() {
            // Sort by template name, then by position in source""", """        self.components = components.clone();
        if !errors.is_empty() {
            // Sort by template name, then by position in source""")
m("c10_undo_norev", "C10", r"C10\.UNDO:tera::Tera::add_raw_templates:undo-branch", "undo list walked forward",
  "tera/src/tera.rs", """            // Undo in reverse so duplicate names within the batch restore correctly.
            for (key, previous) in inserted.into_iter().rev() {""", """            // Undo in reverse so duplicate names within the batch restore correctly.
            for (key, previous) in inserted.into_iter() {""")
m("c10_derived_cache", "C10", r"C10\.DERIVED:read:Template\.parents", "finalize reuses parents computed by a previous registration",
  "tera/src/tera.rs", "            let parents = find_parents(self, tpl, tpl, vec![])?;",
  "            let parents = if tpl.parents.is_empty() { find_parents(self, tpl, tpl, vec![])? } else { tpl.parents.clone() };")
m("c10_mut_remove", "C10", r"C10\.MUT:mutator-set", "a remove_template API that skips finalize",
  "tera/src/tera.rs", """    fn get_template_priority(&self, name: &str) -> usize {""", """    /// Removes a template
    pub fn remove_template(&mut self, name: &str) -> bool {
        self.templates.remove(name).is_some()
    }

    fn get_template_priority(&self, name: &str) -> usize {""")
m("c10_mut_skip_finalize", "C10", r"C10\.MUT:tera::Tera::add_raw_templates:reaches-finalize", "big batches skip finalize",
  "tera/src/tera.rs", """                inserted.push((key, previous));
            }
            self.finalize_templates()
        })();

        if result.is_err() {
            // Undo in reverse""", """                inserted.push((key, previous));
            }
            if inserted.len() > 1000 {
                return Ok(());
            }
            self.finalize_templates()
        })();

        if result.is_err() {
            // Undo in reverse""")
# ---------------------------------------------------------------- C20
m("c20_url_plus", "C20", r"C20\.URL:urlencode:set", "'+' no longer percent-encoded",
  "tera-contrib/src/urlencode.rs", "    .add(b'+')\n", "")
m("c20_b64_alphabet", "C20", r"C20\.B64:decode:url_safe=True", "url-safe decoder built on the standard alphabet",
  "tera-contrib/src/base64.rs", """const URL_SAFE_DECODE: general_purpose::GeneralPurpose = general_purpose::GeneralPurpose::new(
    &base64::alphabet::URL_SAFE,""", """const URL_SAFE_DECODE: general_purpose::GeneralPurpose = general_purpose::GeneralPurpose::new(
    &base64::alphabet::STANDARD,""")
m("c20_b64_arm", "C20", r"C20\.B64:encode:url_safe=True,padded=False", "unpadded url-safe arm uses the padded engine",
  "tera-contrib/src/base64.rs", "(true, false) => general_purpose::URL_SAFE_NO_PAD.encode(val),", "(true, false) => general_purpose::URL_SAFE.encode(val),")
m("c20_b64_padding", "C20", r"C20\.B64:decode:padding-indifferent:url_safe=False", "standard decoder requires canonical padding",
  "tera-contrib/src/base64.rs", """    &base64::alphabet::STANDARD,
    general_purpose::GeneralPurposeConfig::new()
        .with_decode_padding_mode(base64::engine::DecodePaddingMode::Indifferent),""", """    &base64::alphabet::STANDARD,
    general_purpose::GeneralPurposeConfig::new()
        .with_decode_padding_mode(base64::engine::DecodePaddingMode::RequireCanonical),""")
# ---------------------------------------------------------------- C02
m("c02_prec_concat", "C02", r"C02\.PREC:doc-row\d+:same-power", "`~` given the precedence of + -",
  "tera/src/parsing/parser.rs", """        Plus | Minus => (11, 12),
        Mul | Div | Mod | StrConcat | FloorDiv => (13, 14),""", """        Plus | Minus | StrConcat => (11, 12),
        Mul | Div | Mod | FloorDiv => (13, 14),""")
m("c02_cut_le", "C02", r"C02\.CUT:test", "cut-off test made non-strict (flips associativity)",
  "tera/src/parsing/parser.rs", """            let (l_bp, r_bp) = binary_binding_power(op);
            if l_bp < min_bp {""", """            let (l_bp, r_bp) = binary_binding_power(op);
            if l_bp <= min_bp {""")
m("c02_assoc_power", "C02", r"C02\.PREC:(order|intervals|assoc)", "`**` made to overlap the filter pipe",
  "tera/src/parsing/parser.rs", "        Power => (16, 15),", "        Power => (18, 17),")
m("c02_sc_swapped", "C02", r"C02\.SC:and=>JumpIfFalseOrPop", "and/or jump variants swapped",
  "tera/src/parsing/compiler.rs", """                                if op.op == BinaryOperator::And {
                                    Instruction::JumpIfFalseOrPop(0)
                                } else {
                                    Instruction::JumpIfTrueOrPop(0)
                                },""", """                                if op.op == BinaryOperator::Or {
                                    Instruction::JumpIfFalseOrPop(0)
                                } else {
                                    Instruction::JumpIfTrueOrPop(0)
                                },""")
m("c02_sc_vm", "C02", r"C02\.SC:vm:JumpIfTrueOrPop", "VM arm of JumpIfTrueOrPop jumps on falsy",
  "tera/src/vm/interpreter.rs", """                Instruction::JumpIfTrueOrPop(target_ip) => {
                    let (peeked, _) = state.stack.peek();
                    if peeked.is_truthy() {""", """                Instruction::JumpIfTrueOrPop(target_ip) => {
                    let (peeked, _) = state.stack.peek();
                    if !peeked.is_truthy() {""")
# ---------------------------------------------------------------- C19
m("c19_cast_trunc", "C19", r"C19\.(CAST|TABLE)", "u64 stored as I64 through a sign-changing cast",
  "tera/src/value/ser.rs", """    fn serialize_u64(self, v: u64) -> Result<Self::Ok, Self::Error> {
        Ok(ValueInner::U64(v).into())""", """    fn serialize_u64(self, v: u64) -> Result<Self::Ok, Self::Error> {
        Ok(ValueInner::I64(v as i64).into())""")
m("c19_key_float", "C19", r"C19\.KEYREFUSE:serialize_f64", "float map keys silently turned into strings",
  "tera/src/value/ser.rs", "__SPECIAL_KEY_F64__", "")
m("c19_de_width", "C19", r"C19\.TABLE:de:I128", "i128 handed to visit_i64",
  "tera/src/value/de.rs", "ValueInner::I128(v) => visitor.visit_i128(*v),", "ValueInner::I128(v) => visitor.visit_i64(*v as i64),")
m("c19_sort_removed", "C19", r"C19\.SORT:format_map", "map printing no longer sorts",
  "tera/src/value/mod.rs", """    if cfg!(not(feature = "preserve_order")) {
        key_val.sort_by_key(|elem| elem.0);
    }""", """    if cfg!(feature = "preserve_order") {
        key_val.sort_by_key(|elem| elem.0);
    }""")
# ---------------------------------------------------------------- C14
m("c14_chars_bytes", "C14", r"C14\.CHARS:filters::truncate", "truncate slices at a byte count",
  "tera/src/filters.rs", """        match val.char_indices().nth(length) {
            Some((byte_idx, _)) => Ok(val[..byte_idx].to_string() + end),
            None => Ok(val.to_string()),
        }""", """        if length < val.len() {
            Ok(val[..length].to_string() + end)
        } else {
            Ok(val.to_string())
        }""")
m("c14_zero_step", "C14", r"C14\.ZERO:slice:step-nonzero", "zero step check removed",
  "tera/src/value/mod.rs", """        if step == 0 {
            return Err(Error::message("Slicing step cannot be 0".to_string()));
        }
""", "")
m("c14_arith_guard", "C14", r"C14\.ARITH:value::resolve_index", "negative-index normalisation without the sign test",
  "tera/src/value/mod.rs", "let normalized = if idx < 0 { idx + len as i128 } else { idx };", "let normalized = if idx != 0 { idx + len as i128 } else { idx };")
# ---------------------------------------------------------------- C12
m("c12_src_entry_template", "C12", r"C12\.SRC:report_target", "report_target always names the entry template",
  "tera/src/vm/interpreter.rs", """        if self.template.name != chunk.name {
            let tpl = &self.tera.templates[&chunk.name];
            (&tpl.name, &tpl.source)""", """        if self.template.name != chunk.name {
            let tpl = &self.tera.templates[&chunk.name];
            (&self.template.name, &tpl.source)""")
m("c12_chunkname_block", "C12", r"C12\.CHUNKNAME:.*compile_block", "block chunks named after the block instead of the template",
  "tera/src/parsing/compiler.rs", "let parent_chunk = std::mem::replace(&mut self.chunk, Chunk::new(&chunk_name));",
  "let parent_chunk = std::mem::replace(&mut self.chunk, Chunk::new(&block_name));")
m("c12_setsrc_dropped", "C12", r"C12\.SETSRC:Template::new", "syntax errors returned without their source",
  "tera/src/template.rs", """                ErrorKind::SyntaxError(mut s) => {
                    s.set_source(tpl_name, source);""", """                ErrorKind::SyntaxError(mut s) => {
                    if tpl_name.is_empty() {
                        s.set_source(tpl_name, source);
                    }""")
# ---------------------------------------------------------------- C16 / C17 / R-PANIC
m("c16_first_index", "C16", r"(R-PANIC\.coll:filters::first|C16\.ORDUSE:first)", "first indexes the array directly",
  "tera/src/filters.rs", "__SPECIAL_FIRST__", "")
m("c16_sort_partial", "C16", r"(C16\.ORDUSE:sort:comparator|R-PANIC\.coll:filters::sort)", "sort compares with partial_cmp().unwrap()",
  "tera/src/filters.rs", "        out.sort_by(|a, b| a.cmp(b));", "        out.sort_by(|a, b| a.partial_cmp(b).unwrap());")
m("c17_int_base", "C17", r"C17\.PRE:int:from_str_radix-base", "int filter no longer validates the base",
  "tera/src/filters.rs", "    if !(2..=36).contains(&base) {", "    if base == 1 {")
m("c17_range_cap", "C17", r"C17\.PRE:range:len-capped", "range cap test weakened",
  "tera/src/functions.rs", "    if len > MAX_RANGE_LEN as i128 {", "    if len > i128::MAX - 1 {")
m("c17_iterable_bytes", "C17", r"C17\.ITERABLE", "iterable test forgets bytes",
  "tera/src/tests.rs", "    val.is_map() || val.is_array() || val.is_string() || val.is_bytes()", "    val.is_map() || val.is_array() || val.is_string()")
m("c07_panic_vm_unwrap", "C07", r"R-PANIC\.render:.*interpret\|K2\|unwrap", "a new unwrap in the VM's Negative arm",
  "tera/src/vm/interpreter.rs", """                Instruction::Not => {
                    let (a, a_span) = state.stack.pop();
                    state.stack.push(Value::from(!a.is_truthy()), a_span);""", """                Instruction::Not => {
                    let (a, a_span) = state.stack.pop();
                    let _ = a.as_bool().unwrap();
                    state.stack.push(Value::from(!a.is_truthy()), a_span);""")
m("c06_panic_parser_index", "C06", r"R-PANIC\.parse:.*parse_tag", "parser indexes the body context stack",
  "tera/src/parsing/parser.rs", """            Token::Ident("for") => {
                let node = self.parse_for_loop()?;""", """            Token::Ident("for") => {
                let _ = self.body_contexts[0];
                let node = self.parse_for_loop()?;""")


def apply(src, old, new, count, name):
    if old == "__SPECIAL_FIRST__":
        a = "    Ok(val.first().cloned().unwrap_or(Value::none()))"
        assert src.count(a) == 1
        return src.replace(a, "    if val.is_empty() {\n        return Ok(Value::none());\n    }\n    Ok(val[0].clone())")
    if old == "__SPECIAL_KEY_F64__":
        i = src.index("    fn serialize_f64(self, _v: f64) -> Result<Self::Ok, Self::Error> {\n        Err(SerializationFailed(")
        j = src.index("    }\n", i)
        return src[:i] + "    fn serialize_f64(self, v: f64) -> Result<Self::Ok, Self::Error> {\n        Ok(Key::String(Arc::from(v.to_string())))\n" + src[j:]
    if old == "__SPECIAL_TERA_MUTEX__":
        a = "    /// Fallback prefixes to try when a template is not found by exact name.\n    fallback_prefixes: Vec<Cow<'static, str>>,\n}"
        assert src.count(a) == 1
        src = src.replace(a, a[:-1] + "    render_count: std::sync::Arc<std::sync::Mutex<usize>>,\n}")
        b = "            fallback_prefixes: Vec::new(),\n        };"
        assert src.count(b) == 1
        return src.replace(b, "            fallback_prefixes: Vec::new(),\n            render_count: Default::default(),\n        };")
    if old == "__SPECIAL_ORD_MAP__":
        i = src.index("            (ValueInner::Map(a), ValueInner::Map(b)) => {\n                let mut a: Vec<_>")
        j = src.index("            _ => {}\n", i)
        return src[:i] + src[j:]
    assert src.count(old) == count, "%s: anchor found %d times" % (name, src.count(old))
    return src.replace(old, new)


def main():
    os.makedirs(OUT, exist_ok=True)
    for f in os.listdir(OUT):
        if f.endswith(".patch"):
            os.remove(os.path.join(OUT, f))
    for (name, prop, expect, what, file, old, new, count) in M:
        src = open(os.path.join(REPO, file)).read()
        dst = apply(src, old, new, count, name)
        diff = "".join(difflib.unified_diff(src.splitlines(True), dst.splitlines(True), "a/" + file, "b/" + file))
        with open(os.path.join(OUT, name + ".patch"), "w") as f:
            f.write("# property: %s\n# expect: %s\n# what: %s\n" % (prop, expect, what))
            f.write(diff)
    print("%d mutants written" % len(M))


if __name__ == "__main__":
    main()
