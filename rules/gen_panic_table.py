#!/usr/bin/env python3
"""One-off helper: (re)generates tables/panic_sites.json skeleton from the current tree over all configurations,
keeping reasons already present. New rows get reason 'UNREVIEWED' and must be edited by hand."""
import json
import os
import sys
from collections import Counter
sys.path.insert(0, os.path.dirname(os.path.abspath(__file__)))
import cli
import rpanic

ALL = ("parsing/lexer.rs", "parsing/parser.rs", "parsing/compiler.rs", "parsing/instructions.rs", "parsing/ast.rs", "template.rs", "tera.rs", "delimiters.rs",
       "vm/interpreter.rs", "vm/state.rs", "vm/for_loop.rs", "vm/stack.rs", "value/mod.rs", "value/number.rs", "value/key.rs", "value/ser.rs", "value/de.rs",
       "value/utils.rs", "errors.rs", "reporting.rs", "utils.rs", "filters.rs", "tests.rs", "functions.rs", "args.rs", "context.rs", "components.rs", "globbing.rs", "lib.rs")


def main():
    configs = sys.argv[1:] or ["tera:default"]
    table = {}
    if os.path.exists(rpanic.TABLE):
        table = json.load(open(rpanic.TABLE))
    maxc = Counter()
    seen_in = {}
    for cfg in configs:
        crate = cli.load_crate(cfg)
        cnt = Counter(s["key"] for s in rpanic.enumerate_sites(crate, ALL))
        for k, n in cnt.items():
            maxc[k] = max(maxc[k], n)
            seen_in.setdefault(k, []).append(cfg)
    out = {}
    for k, n in sorted(maxc.items()):
        old = table.get(k, {})
        out[k] = {"count": n, "reason": old.get("reason", "UNREVIEWED"), "configs": sorted(seen_in[k])}
    os.makedirs(os.path.dirname(rpanic.TABLE), exist_ok=True)
    json.dump(out, open(rpanic.TABLE, "w"), indent=0, sort_keys=True)
    print(len(out), "rows;", sum(1 for v in out.values() if v["reason"] == "UNREVIEWED"), "unreviewed")


if __name__ == "__main__":
    main()
