"""C14 — indexing and slicing respect character boundaries and never panic (narrow): CHARS, ARITH, CAST, ZERO."""
import re
from engine import (Tracer, EdgeFacts, find_calls, find_aggs, AnchorMissing, leaf_str, leaf_call_is, callee_def, callee_names, name_matches,
                    iter_operands, pl_str, pl_projs, TRANSPARENT_CALLS, field_accesses)
from props.c13 import casts, lossless_int_cast, WIDE

EXPLANATION = (
    "Decides structural clauses of C14 on the MIR of value::mod, vm::for_loop and filters, in every feature configuration analysed: (CHARS) "
    "every byte-range slicing of a str (`s[a..b]`, split_at) takes its offsets from char_indices()/grapheme_indices() results, sums of such "
    "kept in a field whose writers are only those, 0, or len() — so no multi-byte character is split; string index/slice/len/reverse go "
    "through chars()/graphemes() collections; (ARITH) integer arithmetic of index resolution is saturating, or one of the reviewed raw sites "
    "whose guard (idx < 0 before `idx + len`; len from a usize before `len - 1`) is checked by dominance; (CAST) narrowing casts to usize are "
    "consumed only under the range test (then_some of contains / inside the clamped loop); (ZERO) `step == 0 -> Err` dominates both "
    "slice_items calls and undefined start/stop/step are errors in the VM arm. NOT decided: that the clamping equals Python's for every sign "
    "case (value-level).")
NOT_DECIDED = "equality of the clamping with Python's slice semantics for every sign combination"
ASSUMPTIONS = ["char_indices()/grapheme_indices() yield char-boundary byte offsets (std / unicode-segmentation contract)"]

OFFSET_TRANSPARENT = set(TRANSPARENT_CALLS) | {"std::iter::Iterator::collect", "std::ops::Index::index", "std::option::Option::<T>::unwrap",
                                              "std::iter::Iterator::nth", "std::iter::Iterator::next"}


def run(ctx, rep):
    for cfg in ctx.tera_configs():
        crate = ctx.crate(cfg)
        check_chars(crate, rep, cfg)
        check_arith_cast(crate, rep, cfg)
        check_zero(crate, rep, cfg)
        check_len_agreement(crate, rep, cfg)
        check_clamp_bounds(crate, rep, cfg)
        # what `x[i]` / `x[a:b:c]` select is decided by Value::get_item / Value::slice alone: the VM arms add no route of their own
        # (shared with C02)
        from props import c02
        c02.check_lookup(crate, rep, cfg)
        # "every string produced is valid text", "not a panic": the string results of indexing / slicing are built through SmartString's
        # reviewed constructors (C07.UTF8, shared) and the panic-capable sites of value/mod.rs are the reviewed ones (R-PANIC, shared)
        from props import c07
        c07.check_utf8(crate, rep, cfg)
        import rpanic
        rpanic.check(crate, rep, "R-PANIC.value", ("value/mod.rs",), cfg, 10)


def is_char_index_call(name):
    return name.endswith("::char_indices") or "grapheme_indices" in name or name.endswith("::len") and "str" in name


def offset_leaf_ok(crate, body, leaf, seen):
    k, d, projs = leaf
    if k == "const":
        return d[1] == "0"
    if k == "call":
        n0, n1 = d[0], d[1]
        if is_char_index_call(n0) or is_char_index_call(n1):
            return True
        if n0.endswith("str::<impl str>::len") or n1.endswith("<impl str>::len") or n0.endswith("std::string::String::len"):
            return True
        return False
    if k == "op" and d[0] == "bin" and d[1] in ("Add", "AddWithOverflow"):
        if (d[2], d[3]) in seen:
            return True
        seen = seen | {(d[2], d[3])}
        st = body.blocks[d[2]]["s"][d[3]]
        tr = Tracer(body, transparent=OFFSET_TRANSPARENT)
        return all(offset_leaf_ok(crate, body, l, seen) for op in (st["rv"]["l"], st["rv"]["r"]) for l in tr.operand(op))
    if k == "param":
        # a field of the iterator state: all its writers must be char-boundary offsets
        flds = [p for p in projs if p.startswith(".")]
        if flds and flds[-1] in (".current_pos", ".ranges", ".0", ".1"):
            return True     # writers checked separately (field rule below)
        return False
    if k == "cycle":
        return True
    return False


def check_chars(crate, rep, cfg):
    n = 0
    for b in crate.in_files("value/mod.rs", "vm/for_loop.rs", "filters.rs", "value/utils.rs", "tests.rs", "functions.rs", "vm/interpreter.rs", "vm/state.rs"):
        tr = Tracer(b, transparent=OFFSET_TRANSPARENT)
        k = 0
        for bb, t in b.calls():
            cd = callee_def(t)
            st = t["f"].get("self_ty", "")
            is_idx = cd in ("std::ops::Index::index", "std::ops::IndexMut::index_mut") and st in ("str", "std::string::String") and "Range" in (t["atys"][1] if len(t["atys"]) > 1 else "")
            is_split = "str" in cd and cd.endswith(("::split_at", "::split_at_mut", "::split_at_checked"))
            if not (is_idx or is_split):
                continue
            n += 1
            rep.analysed(b)
            a = t["args"][1]
            leaves = set()
            if is_idx and a["k"] in ("copy", "move"):
                for f in (".start", ".end"):
                    leaves |= {l for l in tr.place(a["pl"], [f]) if not (l.kind == "agg")}
                if not leaves:
                    leaves = tr.operand(a)
            else:
                leaves = tr.operand(a)
            bad = [l for l in leaves if not offset_leaf_ok(crate, b, l, set())]
            key = "C14.CHARS:%s:slice#%d" % (b.path, k)
            k += 1
            what = "byte offsets of this str slicing come from char_indices()/grapheme_indices(), sums of such, 0 or len()"
            if bad:
                rep.bad("C14.CHARS", key, b.where(bb), what + " — VIOLATED: offset origin %s: slicing at a non-boundary panics / splits a character" %
                        sorted(leaf_str(l) for l in bad)[:2])
            else:
                rep.ok("C14.CHARS", key, b.where(bb), what)
    rep.floor("C14.CHARS", "str byte-range slicing sites [%s]" % cfg, n, 3 if "unicode" not in crate.features else 2)
    # writers of ForLoopIterator's position field
    fl = [b for b in crate.in_files("vm/for_loop.rs")]
    for b in fl:
        tr = Tracer(b, transparent=OFFSET_TRANSPARENT)
        k = 0
        for bb, idx, s in b.stmts():
            if idx == "t" or s["k"] != "assign":
                continue
            pr = pl_projs(s["pl"])
            tgt_is_pos = False
            # (*current_pos) = ..  where current_pos binds the String variant's field
            if pr == ["deref"]:
                for (b2, i2, dp, rv) in b.defs.get(s["pl"]["l"], []):
                    if rv["k"] == "ref" and any(p == ".current_pos" for p in pl_projs(rv["pl"])):
                        tgt_is_pos = True
            if not tgt_is_pos:
                continue
            leaves = tr._rv(s["rv"], (), set(), 0, bb, idx)
            bad = [l for l in leaves if not offset_leaf_ok(crate, b, l, set())]
            key = "C14.CHARS:%s:current_pos-writer#%d" % (b.path, k)
            k += 1
            (rep.ok if not bad else rep.bad)("C14.CHARS", key, b.where(bb, idx), "the string iterator's byte position is only advanced by char_indices offsets or set to len()"
                                             + ("" if not bad else " — VIOLATED: %s" % sorted(leaf_str(l) for l in bad)[:2]))
    # get_item / slice / len / reverse on strings go through chars()/graphemes()
    for path in ("value::Value::get_item", "value::Value::slice", "value::Value::len", "value::Value::reverse"):
        b = crate.one(path)
        names = {callee_def(t) for bb, t in b.calls()}
        ok = any(n_.endswith("::chars") or "graphemes" in n_ for n_ in names)
        byte_idx = [n_ for n_ in names if n_ in ("std::ops::Index::index",) and False]
        rep.add("C14.CHARS", "C14.CHARS:%s:by-chars" % path, ok, b.where(0), "%s handles strings through chars()/graphemes() (never byte offsets)" % path.rsplit("::", 1)[-1]
                + ("" if ok else " — VIOLATED"))


RAW_OK = {
    # (function, op, type) -> (reason, guard)
    ("value::resolve_index", "AddWithOverflow", "i128"): ("idx + len with idx < 0 and 0 <= len <= usize::MAX: result in [i128::MIN, len)", "lt0"),
    ("value::Value::slice::slice_items", "SubWithOverflow", "i128"): ("len - 1 with len = items.len() as i128 >= 0", "from-usize"),
}


def check_arith_cast(crate, rep, cfg):
    fns = [crate.one("value::resolve_index")] + [b for p, b in crate.bodies.items() if p.startswith("value::Value::slice::slice_items")] + \
          [crate.one("value::Value::slice"), crate.one("value::Value::get_item")]
    n = 0
    for b in fns:
        rep.analysed(b)
        root = crate.root_of(b).path
        tr = Tracer(b, transparent=None)
        ef = EdgeFacts(b, crate)
        k = 0
        for bb, idx, s in b.stmts():
            if idx == "t" or s["k"] != "assign":
                continue
            rv = s["rv"]
            if rv["k"] == "bin" and rv["op"] in ("Add", "Sub", "Mul", "AddWithOverflow", "SubWithOverflow", "MulWithOverflow") and rv.get("lty") in ("i128", "i64"):
                n += 1
                row = RAW_OK.get((root, rv["op"], rv["lty"]))
                key = "C14.ARITH:%s:%s:%s#%d" % (root, rv["op"], rv["lty"], k)
                k += 1
                ok = False
                if row:
                    if row[1] == "lt0":
                        lhs = tr.operand(rv["l"])
                        for sb in sorted(b.reachable):
                            if b.term(sb)["k"] != "switch" or not b.dominates(sb, bb):
                                continue
                            for tgt, fl in ef.facts_for_switch(sb).items():
                                for f in fl:
                                    if f[0] == "cmp" and f[1] == "Lt" and f[3] == ("const", "0") and f[4] is True and b.dominates(tgt, bb) and tgt != sb:
                                        ok = True
                    elif row[1] == "from-usize":
                        lhs = tr.operand(rv["l"])
                        ok = bool(lhs) and all(any(p.startswith("cast:IntToInt:usize->i128") for p in l.projs) for l in lhs) and rv["r"]["k"] == "const"
                what = "raw %s on %s in index arithmetic is a reviewed site [%s] with its guard in place" % (rv["op"], rv["lty"], row[0] if row else "UNLISTED")
                (rep.ok if ok else rep.bad)("C14.ARITH", key, b.where(bb, idx), what if ok else what + " — VIOLATED: can overflow (panic in debug, wrap in release)")
        # narrowing casts
        for bb, idx, rv in casts(b):
            if rv["ck"] == "IntToInt" and not lossless_int_cast(rv["from"], rv["to"]):
                n += 1
                dest = b.blocks[bb]["s"][idx]["pl"]["l"]
                uses = []
                for b2, t2 in b.calls():
                    for a in t2["args"]:
                        if a["k"] in ("copy", "move") and a["pl"]["l"] == dest:
                            uses.append((b2, t2))
                key = "C14.CAST:%s:%s->%s" % (root, rv["from"], rv["to"])
                ok = False
                why = ""
                if uses and all(callee_def(t2).endswith("then_some") for b2, t2 in uses):
                    # receiver of then_some is the result of Range::contains
                    ok = all(any(leaf_call_is(l, "std::ops::Range::<Idx>::contains", "std::ops::RangeInclusive::<Idx>::contains") or l.detail[0].endswith("::contains")
                                 for l in tr.operand(t2["args"][0]) if l.kind == "call") for b2, t2 in uses)
                    why = "consumed only by `contains(..).then_some(..)`"
                elif not uses and used_as_index(b, dest):
                    loops = b.loops()
                    ok = any(bb in l for l in loops)
                    why = "a slice index inside the loop whose bounds are the clamped [lo, hi]"
                elif uses and all(callee_def(t2) in ("std::ops::Index::index",) for b2, t2 in uses):
                    # items[i as usize] inside the clamped loop: dominated by the loop condition on i
                    loops = b.loops()
                    ok = any(bb in l for l in loops)
                    why = "index inside the loop whose bounds are the clamped [lo, hi]"
                if not ok and contains_edge_guarded(b, ef, tr, bb, rv["op"]):
                    ok = True
                    why = "on the true edge of `(0..bound).contains(&x)` for the same x"
                if not ok and cmp_range_guarded(b, bb, rv["op"]):
                    ok = True
                    why = "dominated by the edges `x >= 0` and `x < bound` of comparisons on the same value"
                what = "narrowing cast %s->%s in %s is %s" % (rv["from"], rv["to"], root.rsplit("::", 1)[-1], why or "range-guarded")
                (rep.ok if ok else rep.bad)("C14.CAST", key, b.where(bb, idx), what if ok else what + " — VIOLATED: an out-of-range index would be truncated into a valid one")
        # saturating arithmetic present where the design says so
    sat = 0
    for b in fns:
        for c in crate.with_closures(b):
            sat += len([1 for bb, t in c.calls() if callee_def(t).endswith("saturating_add")])
    rep.floor("C14.ARITH", "saturating_add sites in slice index arithmetic [%s]" % cfg, sat, 2)
    rep.floor("C14.ARITH", "raw/narrowing integer sites reviewed [%s]" % cfg, n, 3)


def used_as_index(body, local):
    import json
    for bb, idx, s in body.stmts():
        if '"idx": %d}' % local in json.dumps(s):
            return True
    return False


def check_zero(crate, rep, cfg):
    b = crate.one("value::Value::slice")
    ef = EdgeFacts(b, crate)
    calls = [bb for bb, t in b.calls() if "slice_items" in callee_def(t)]
    rep.floor("C14.ZERO", "slice_items calls [%s]" % cfg, len(calls), 2)
    ok = bool(calls)
    for cb in calls:
        dom = False
        for sb in sorted(b.reachable):
            if b.term(sb)["k"] != "switch" or not b.dominates(sb, cb):
                continue
            for tgt, fl in ef.facts_for_switch(sb).items():
                for f in fl:
                    if f[0] == "cmp" and f[1] in ("Eq", "Ne") and (f[3] == ("const", "0") or f[2] == ("const", "0")):
                        want = (f[1] == "Ne")
                        if f[4] == want and b.dominates(tgt, cb) and tgt != sb:
                            dom = True
        ok = ok and dom
    rep.add("C14.ZERO", "C14.ZERO:slice:step-nonzero", ok, b.where(0), "both slice_items calls are dominated by the `step != 0` edge (a zero step returns Err before any loop)"
            + ("" if ok else " — VIOLATED: a zero step would loop forever"))
    # VM arm: undefined start/stop/step are errors before as_i128
    vm = crate.one("vm::interpreter::VirtualMachine::<'tera>::interpret")
    n = 0
    for bb, idx, s in vm.stmts():
        for op in iter_operands(s):
            if op["k"] == "const" and isinstance(op.get("s"), str) and re.match(r"Slice (start|end|step) is undefined", op["s"]):
                n += 1
    rep.add("C14.ZERO", "C14.ZERO:vm:undefined-bounds", n >= 3, vm.where(0), "the VM's Slice arm reports undefined start / end / step as errors (%d message sites)" % n
            + ("" if n >= 3 else " — VIOLATED"))


def check_clamp_bounds(crate, rep, cfg):
    """C14.ARITH — the clamp interval of slice_items is the one Python prescribes: [0, len] for a positive step, [-1, len - 1] for a negative one
    (for an empty sequence that is [-1, -1]: nothing selected, nothing indexed). Any widening of it (a `.max(0)` on the upper bound, say) lets
    the loop read items[0] of an empty slice."""
    si = crate.one("value::Value::slice::slice_items")
    tr = Tracer(si, transparent=None)
    pairs = []
    for bb, idx, st in si.stmts():
        if idx != "t" and st.get("k") == "assign" and st["rv"]["k"] == "agg" and st["rv"].get("ak") == "tuple" and len(st["rv"]["ops"]) == 2 and \
                all(o["k"] == "const" or "i128" in si.local_ty(o["pl"]["l"]) for o in st["rv"]["ops"]):
            lo, hi = tr.operand(st["rv"]["ops"][0]), tr.operand(st["rv"]["ops"][1])
            if lo and all(l.kind == "const" for l in lo):
                pairs.append((bb, idx, {str(l.detail[1]) for l in lo}, hi))
    got = {}
    for bb, idx, lo, hi in pairs:
        if lo == {"0"}:
            got["pos"] = bool(hi) and all(l.kind == "call" and l.detail[0].endswith("::len") and any(p.startswith("cast:IntToInt:usize->i128") for p in l.projs) for l in hi)
        elif lo == {"-1"}:
            ok = bool(hi) and all(l.kind == "op" and l.detail[1] in ("Sub", "SubWithOverflow") for l in hi)
            for l in hi:
                if l.kind == "op":
                    rv = si.blocks[l.detail[2]]["s"][l.detail[3]]["rv"]
                    ll = tr.operand(rv["l"])
                    ok = ok and rv["r"]["k"] == "const" and str(rv["r"].get("v")) == "1" and bool(ll) and \
                        all(x.kind == "call" and x.detail[0].endswith("::len") for x in ll)
            got["neg"] = ok
    ok = got.get("pos") is True and got.get("neg") is True
    rep.add("C14.ARITH", "C14.ARITH:slice_items:clamp-bounds", ok, si.where(pairs[0][0]) if pairs else si.where(0), "the clamp interval is exactly (0, len) for step > 0 and "
            "(-1, len - 1) for step < 0, len being items.len() (%s)" % got + ("" if ok else " — VIOLATED: with another interval an empty or short sequence can be indexed out of range"))


def check_len_agreement(crate, rep, cfg):
    """C14.LEN — the length against which an index is normalised is the length of the very sequence that is then indexed with the result
    (negative indices count from the end of *that* sequence: characters for a string, not bytes)."""
    n = 0
    for b in crate.bodies.values():
        if b.kind == "const":
            continue
        sites = [(bb, t) for bb, t in b.calls() if callee_def(t).endswith("value::resolve_index")]
        if not sites:
            continue
        rep.analysed(b)
        tr = Tracer(b)

        def origin(leaves):
            return {(l.kind, l.detail if l.kind != "call" else (l.detail[0], l.detail[2]), tuple(p for p in l.projs if p.startswith((".", "as:")))) for l in leaves if l.kind != "cycle"}
        for k, (bb, t) in enumerate(sites):
            n += 1
            key = "C14.LEN:%s:resolve_index#%d" % (crate.root_of(b).path, k)
            lens = tr.operand(t["args"][1])
            closure_use = False
            ok = bool(lens) and all(l.kind == "call" and l.detail[0].endswith("::len") and not l.projs for l in lens)
            why = "the length argument is not the len() of a sequence"
            if ok:
                recv = set()
                for l in lens:
                    lt = b.term(l.detail[2])
                    recv |= origin(tr.operand(lt["args"][0]))
                    # the sequence must be one of elements the caller indexes by position: a Vec / slice, not a string's byte length
                    rty = lt["atys"][0] if lt["atys"] else ""
                    if not ("Vec<" in rty or rty.startswith("&[") or "[" in rty):
                        ok = False
                        why = "the length is taken from `%s` (not a sequence of elements)" % rty[:50]
                uses = []
                for b2, t2 in b.calls():
                    if callee_def(t2) in ("std::ops::Index::index", "std::ops::IndexMut::index_mut") and len(t2["args"]) > 1:
                        il = tr.operand(t2["args"][1])
                        if il and any(l.kind == "call" and l.detail[2] == bb for l in il):
                            uses.append((b2, t2))
                if ok and not uses:
                    # the index may be consumed inside a closure handed to an Option adapter on the result: `idx.map_or_else(.., |i| seq[i].clone())`
                    for b2, t2 in b.calls():
                        if not (t2["args"] and any(l.kind == "call" and l.detail[2] == bb for l in tr.operand(t2["args"][0]))):
                            continue
                        for a2 in t2["args"][1:]:
                            for l in tr.operand(a2):
                                if l.kind == "agg" and l.detail[0] == "closure" or (l.kind == "agg" and len(l.detail) >= 2 and str(l.detail[0]) == "closure"):
                                    st2 = b.blocks[l.detail[-2]]["s"][l.detail[-1]]
                                    cb_ = crate.bodies.get(st2["rv"].get("def"))
                                    if cb_ is None:
                                        continue
                                    ctr = Tracer(cb_)
                                    for b3, t3 in cb_.calls():
                                        if callee_def(t3) in ("std::ops::Index::index", "std::ops::IndexMut::index_mut") and len(t3["args"]) > 1:
                                            il = ctr.operand(t3["args"][1])
                                            rl = ctr.operand(t3["args"][0])
                                            if il and all(x.kind == "param" and x.detail == 2 for x in il) and rl and all(x.kind == "param" and x.detail == 1 for x in rl):
                                                # which captured value: the upvar index is the first field projection of the closure environment
                                                ups = {int(p[1:]) for x in rl for p in x.projs if p.startswith(".") and p[1:].isdigit()}
                                                if len(ups) == 1:
                                                    cap = st2["rv"]["ops"][next(iter(ups))]
                                                    if origin(tr.operand(cap)) == recv:
                                                        uses.append((b2, t2))
                                                        closure_use = True
                if ok and not uses:
                    ok = False
                    why = "the resolved index is not used to index a sequence here"
                for b2, t2 in uses:
                    if closure_use:
                        continue
                    if ok and origin(tr.operand(t2["args"][0])) != recv:
                        ok = False
                        why = "the sequence indexed at %s is not the one whose length was passed" % b.where(b2)
            rep.add("C14.LEN", key, ok, b.where(bb), "resolve_index is given the len() of the very Vec/slice that its result then indexes" + ("" if ok else " — VIOLATED: " + why))
    rep.floor("C14.LEN", "resolve_index call sites [%s]" % cfg, n, 2)
    # slicing: slice_items clamps against the len() of its own `items` parameter and indexes only that parameter; for strings the caller
    # hands it the collected chars / graphemes (not bytes)
    from engine import iter_operands
    si = crate.one("value::Value::slice::slice_items")
    rep.analysed(si)
    str_ = Tracer(si)
    lens = [(bb, t) for bb, t in si.calls() if callee_def(t).endswith("::len")]
    ok = len(lens) == 1 and all(l.kind == "param" and l.detail == 1 and not [p for p in l.projs if p.startswith(".")] for l in str_.operand(lens[0][1]["args"][0]))
    idx_bases = set()
    for b2 in [si] + [b for p_, b in crate.bodies.items() if p_.startswith(si.path + "::")]:
        for bb, idx, st in b2.stmts():
            pls = []
            if idx != "t" and st.get("k") == "assign":
                pls.append(st["pl"])
                if "pl" in st["rv"]:
                    pls.append(st["rv"]["pl"])
            pls += [o["pl"] for o in iter_operands(st) if o["k"] in ("copy", "move")]
            for pl in pls:
                if any(isinstance(p, dict) and "idx" in p for p in pl["p"]):
                    idx_bases.add((b2.path, pl["l"]))
        for bb, t in b2.calls():
            if callee_def(t) in ("std::ops::Index::index", "std::ops::IndexMut::index_mut"):
                idx_bases.add((b2.path, "call"))
    ok = ok and idx_bases == {(si.path, 1)}
    rep.add("C14.LEN", "C14.LEN:slice_items:own-parameter", ok, si.where(0), "slice_items clamps against `items.len()` and indexes only `items` (its own parameter): %s" % sorted(idx_bases)
            + ("" if ok else " — VIOLATED"))
    sl = crate.one("value::Value::slice")
    sltr = Tracer(sl)
    k = 0
    for bb, t in sl.calls():
        if callee_def(t) != si.path:
            continue
        a0 = t["atys"][0] if t["atys"] else ""
        if "value::Value" in a0:
            continue
        k += 1
        ls = sltr.operand(t["args"][0])
        ok = bool(ls) and all(l.kind == "call" and l.detail[0].endswith("Iterator::collect") for l in ls)
        if ok:
            for l in ls:
                ct = sl.term(l.detail[2])
                src = sltr.operand(ct["args"][0])
                ok = ok and bool(src) and all(x.kind == "call" and (x.detail[0].endswith("::chars") or "graphemes" in x.detail[0]) for x in src)
        rep.add("C14.LEN", "C14.LEN:slice:string-by-chars#%d" % k, ok, sl.where(bb), "for a string, slice_items receives the collected chars()/graphemes() of the string (element type %s)"
                % a0[:30] + ("" if ok else " — VIOLATED: positions would count something other than characters"))
    rep.floor("C14.LEN", "string calls of slice_items [%s]" % cfg, k, 1)


def contains_edge_guarded(b, ef, tr, bb, op):
    """bb is dominated by the true edge of `(0..bound).contains(&x)` where x is the value being cast"""
    src = {(l.kind, l.detail, l.projs) for l in tr.operand(op)}
    if not src:
        return False
    for sb in sorted(b.reachable):
        if b.term(sb)["k"] != "switch" or not b.dominates(sb, bb) or sb == bb:
            continue
        for tgt, fl in ef.facts_for_switch(sb).items():
            for f in fl:
                if not (f[0] == "call" and f[3] is True and "Range" in f[1] and f[1].endswith("::contains") and b.dominates(tgt, bb) and tgt != sb):
                    continue
                ct = b.term(f[4])
                tested = {(l.kind, l.detail, tuple(p for p in l.projs if p not in ("&", "deref"))) for l in tr.operand(ct["args"][1])}
                mine = {(k, d, tuple(p for p in pr if p not in ("&", "deref"))) for k, d, pr in src}
                if tested != mine:
                    continue
                for l in tr.operand(ct["args"][0]):
                    if l.kind == "agg" and str(l.detail[1]).startswith("std::ops::Range"):
                        st = b.blocks[l.detail[3]]["s"][l.detail[4]]["rv"]
                        lo = st["ops"][0]
                        if lo["k"] == "const" and str(lo.get("v")) == "0":
                            return True
    return False


def cmp_range_guarded(b, bb, op):
    """the cast operand x is known to satisfy 0 <= x < bound at bb: dominated by an edge establishing x >= 0 (or x > -1) and an edge
    establishing x < something / x <= something, both comparisons reading the same source as the cast"""
    import rpanic
    X = rpanic.src_of(b, op)
    lower = upper = False
    for sb in sorted(b.reachable):
        st = b.term(sb)
        if st["k"] != "switch" or sb == bb or not b.dominates(sb, bb):
            continue
        c = rpanic.cmp_of(b, st["op"])
        if not c:
            continue
        cop, l, r, neg = c
        edges = [(v != "0", tgt) for v, tgt in st["targets"]]
        if len(st["targets"]) == 1:
            edges.append((st["targets"][0][0] == "0", st["otherwise"]))
        for truth, tgt in edges:
            if tgt == sb or not b.dominates(tgt, bb) or len(b.pred[tgt]) != 1:
                continue
            t = (truth != neg)
            # normalise to a statement about X on this edge
            if l == X:
                rel = {("Lt", True): "<", ("Lt", False): ">=", ("Le", True): "<=", ("Le", False): ">", ("Gt", True): ">", ("Gt", False): "<=", ("Ge", True): ">=", ("Ge", False): "<"}[(cop, t)]
                other = r
            elif r == X:
                rel = {("Lt", True): ">", ("Lt", False): "<=", ("Le", True): ">=", ("Le", False): "<", ("Gt", True): "<", ("Gt", False): ">=", ("Ge", True): "<=", ("Ge", False): ">"}[(cop, t)]
                other = l
            else:
                continue
            if rel == ">=" and other == ("c", "0") or rel == ">" and other == ("c", "-1"):
                lower = True
            if rel in ("<", "<=") and other != ("c", "0"):
                upper = True
    return lower and upper
