"""C07 — rendering accepted templates never panics; all references checked at add time (partial)."""
import re
from engine import (Tracer, EdgeFacts, find_aggs, find_calls, pl_str, pl_projs, callee_names, callee_def, name_matches,
                    AnchorMissing, leaf_call_is, leaf_str, iter_operands, Report, runs_every_iteration)
import rrec

EXPLANATION = (
    "Decides, on the type-checked MIR: (R-REC.vm) every re-entry of the VM's interpret loop is dominated by a depth guard "
    "(component depth, include depth, block-stack length) or bounded by the block lineage; (R-REC.value) recursion of the value "
    "traversals on template-built data depth — reported as KNOWN findings, each with a confirmed overflowing input; (REF) the "
    "reference-collection chain emit -> record -> merge -> validate -> lookup is complete for filters, tests, functions, components and "
    "includes, on every acceptance path, and registries only grow; (SPAN) every instruction whose value can reach a span-expecting "
    "error site is emitted with a span; (UTF8) the unsafe/from_utf8_unchecked inventory and the writers of its byte sources; (PAIR) "
    "capture/loop emission pairing and break/continue confinement; (ITER) iterable-kind tables agree. NOT decided: value-stack balance "
    "of compiled code (needs symbolic trip counts), the reasons behind reviewed panic sites, behaviour of user-registered callbacks.")
NOT_DECIDED = "VM value-stack balance; value-level reasons of reviewed panic sites; user callbacks"
ASSUMPTIONS = ["the thread's stack holds MAX_COMPONENT_RECURSION_DEPTH x MAX_INCLUDE_DEPTH x MAX_BLOCK_DEPTH nested interpret frames in the worst case",
               "registered filters/tests/functions (dyn Fn) are total and do not re-enter the engine unboundedly"]

VM_FILES = ("vm/interpreter.rs", "vm/state.rs", "vm/for_loop.rs", "vm/stack.rs", "tera.rs", "components.rs")
VALUE_FILES = ("value/mod.rs", "value/key.rs", "value/number.rs", "value/ser.rs", "value/de.rs", "value/utils.rs",
               "filters.rs", "functions.rs", "tests.rs", "args.rs", "context.rs")

VM_STRUCTURAL = {
    "vm::state::State::<'t>::get_value->vm::state::State::<'t>::get_value":
        ("walks the include_parent chain, whose length is the include depth (bounded by MAX_INCLUDE_DEPTH, guard above)", "descent"),
    "vm::interpreter::VirtualMachine::<'tera>::interpret->vm::interpreter::VirtualMachine::<'tera>::interpret":
        ("super(): re-enters interpret on the next chunk of the block lineage; nesting of super() alone <= lineage length", "bounded-by-len"),
}


def run(ctx, rep):
    for cfg in ctx.tera_configs():
        crate = ctx.crate(cfg)
        check_rec_vm(crate, rep, cfg, "R-REC.vm")
        check_rec_value(crate, rep, cfg)
        check_ref(crate, rep, cfg)
        check_span(crate, rep, cfg)
        check_utf8(crate, rep, cfg)
        check_pair(crate, rep, cfg)
        check_iter_dom(crate, rep, cfg)
        # build_context's `unreachable!("kwarg without a value")` is a reviewed panic site whose reason is an invariant kept by its callers:
        # the getter closure is a plain lookup in the map whose keys are handed over (shared with C05.BIND)
        from props import c05
        c05.check_getter(crate, rep, cfg)
        # the two depth counters are a bound only together: each child VM must carry BOTH (a component <-> include recursion otherwise
        # resets one at every step and overflows the stack)
        c05.check_rec(crate, rep, cfg)
        c05.check_child_vm(crate, rep, cfg)
        # the reviewed `arr[i]` / `chars[i]` rows of R-PANIC rest on resolve_index answering < len: its casts and arithmetic (C14, shared)
        from props import c14
        c14.check_arith_cast(crate, rep, cfg)
        import rpanic
        rpanic.check(crate, rep, "R-PANIC.render", ("vm/interpreter.rs", "vm/state.rs", "vm/for_loop.rs", "vm/stack.rs", "value/mod.rs", "value/number.rs", "value/key.rs"), cfg, 40)


def check_rec_vm(crate, rep, cfg, rule):
    cg = rrec.CallGraph(crate)
    scope = {crate.root_of(b).path for b in crate.in_files(*VM_FILES)}
    for p in scope:
        rep.analysed(p)
    before = len(rep.instances)
    rrec.analyse(crate, cg, scope, rep, rule, VM_STRUCTURAL, cfg, ("vm::state::State",))
    guarded = [i for i in rep.instances[before:] if i.key.endswith(":guarded")]
    rep.floor(rule, "guard-dominated re-entries of the VM (component, include, block) [%s]" % cfg, len(guarded), 3)
    # every call to interpret from inside vm::* is accounted for
    interp = [b for b in crate.in_files("vm/interpreter.rs") if b.path.endswith("::interpret")]
    if len(interp) != 1:
        rep.anchor_missing(rule, "VirtualMachine::interpret")
        return
    n_sites = 0
    for b in crate.in_files("vm/interpreter.rs"):
        for bb, t in find_calls(b, [interp[0].path]):
            n_sites += 1
    rep.floor(rule, "call sites of interpret inside the VM [%s]" % cfg, n_sites, 6)


def check_rec_value(crate, rep, cfg):
    cg = rrec.CallGraph(crate)
    scope = {crate.root_of(b).path for b in crate.in_files(*VALUE_FILES)}
    for p in scope:
        rep.analysed(p)
    before = len(rep.instances)
    rrec.analyse(crate, cg, scope, rep, "R-REC.value", {}, cfg, ("value::Value",))
    found = [i for i in rep.instances[before:] if not i.ok]
    rep.floor("R-REC.value", "recursive call sites over value depth (each must be a listed known finding) [%s]" % cfg, len(found), 6)
    # drop glue: a data type that contains itself (through Arc/Vec/Box) is dropped recursively
    tg = crate.type_graph
    nodes = tg["nodes"]
    root = next((r["id"] for r in tg["roots"] if r["name"] == "value::Value"), None)
    if root is None:
        rep.anchor_missing("R-REC.value", "type graph root value::Value")
        return
    succ = {}
    for i, n in enumerate(nodes):
        ch = [f["id"] for f in n.get("fields", [])] + [int(x) for x in n.get("children", [])]
        if n.get("phantom"):
            ch += [int(x) for x in n.get("targs", [])]   # PhantomData<T> marks ownership of T (Vec, Box, Arc)
        succ[i] = ch
    # is root reachable from one of its successors?
    seen, work = set(), list(succ[root])
    while work:
        v = work.pop()
        if v in seen:
            continue
        seen.add(v)
        work.extend(succ.get(v, []))
    has_drop_impl = any(im.get("trait") == "std::ops::Drop" and im["self"].startswith("value::Value") for im in crate.impls)
    key = "R-REC.value:drop-glue:value::Value"
    if root in seen and not has_drop_impl:
        rep.bad("R-REC.value", key, "tera/src/value/mod.rs", "value::Value contains itself (Arc<Vec<Value>> / Arc<Map>) and has no iterative Drop: "
                "dropping a value nested N deep recurses N deep; a template can build N without bound")
    else:
        rep.ok("R-REC.value", key, "tera/src/value/mod.rs", "Value is not recursively dropped")


# ----------------------------------------------------------------------------------------------------------------
# C07.REF — the reference chain

from engine import TRANSPARENT_CALLS, field_accesses, field_index

REF_TRANSPARENT = set(TRANSPARENT_CALLS) | {
    "std::iter::Iterator::next", "std::string::String::as_str", "std::borrow::Cow::<'_, B>::as_ref", "utils::Spanned::<T>::into_parts",
    "std::collections::HashMap::<K, V, S, A>::keys", "std::collections::HashMap::<K, V, S, A>::iter",
}

# instruction variant -> Compiler/Template field that records its name
EMIT_RECORD = {
    "ApplyFilter": "filter_calls",
    "RunTest": "test_calls",
    "CallFunction": "function_calls",
    "Include": "include_calls",
    "RenderInlineComponent": "component_calls",
    "RenderBodyComponent": "component_calls",
}
EMIT_FLOORS = {"ApplyFilter": 3, "RunTest": 1, "CallFunction": 1, "Include": 1, "RenderInlineComponent": 1, "RenderBodyComponent": 1}
FIVE = ["filter_calls", "test_calls", "function_calls", "include_calls", "component_calls"]


def strip_via(leaf):
    """leaf without transparent-call markers and borrow noise: (kind, root, real projections)"""
    k, d, projs = leaf
    real = tuple(p for p in projs if not p.startswith("via:") and p not in ("&", "deref"))
    if k == "call":
        d = (d[0], d[2])
    return (k, d, real)


def check_ref(crate, rep, cfg):
    check_ref_a(crate, rep, cfg)
    check_ref_b(crate, rep, cfg)
    check_ref_c(crate, rep, cfg)
    check_ref_d(crate, rep, cfg)
    check_ref_e(crate, rep, cfg)
    check_ref_f(crate, rep, cfg)


def check_ref_a(crate, rep, cfg):
    counts = {v: 0 for v in EMIT_RECORD}
    for b in crate.bodies.values():
        if b.file.endswith("vm/interpreter.rs"):
            continue
        if b.path.endswith("Chunk::optimize"):
            continue
        sites = [(bb, idx, s) for bb, idx, s in find_aggs(b, "parsing::instructions::Instruction") if s["rv"]["variant"] in EMIT_RECORD]
        if not sites:
            continue
        if b.j.get("from_exp") and rrec.derive_generated(crate, b.path):
            continue
        rep.analysed(b)
        tr = Tracer(b, transparent=REF_TRANSPARENT)
        entries = []
        for bb, t in find_calls(b, ["std::collections::HashMap::<K, V, S, A>::entry", "std::collections::HashMap::<K, V, S>::entry"]):
            fld = rrec.field_of_arg(tr, t["args"][0])
            key_leaves = {strip_via(l) for l in tr.operand(t["args"][1])}
            entries.append((bb, fld, key_leaves))
        ordn = {}
        for bb, idx, s in sites:
            v = s["rv"]["variant"]
            counts[v] += 1
            want = "." + EMIT_RECORD[v]
            name_leaves = {strip_via(l) for l in tr.operand(s["rv"]["ops"][0])}
            ok = False
            for (ebb, fld, key_leaves) in entries:
                if fld == want and key_leaves and key_leaves == name_leaves and (b.dominates(ebb, bb) or b.dominates(bb, ebb)):
                    ok = True
            n = ordn.get(v, 0)
            ordn[v] = n + 1
            key = "C07.REF.a:%s:%s#%d" % (b.path, v, n)
            what = ("emission of Instruction::%s is paired (same control region, same name origin) with a `%s.entry(name)` record, so "
                    "add-time validation sees this reference" % (v, EMIT_RECORD[v]))
            if ok:
                rep.ok("C07.REF.a", key, b.where(bb, idx), what)
            else:
                rep.bad("C07.REF.a", key, b.where(bb, idx), what + " — VIOLATED: no matching record; an unknown name here would only fail "
                        "(panic on registry index) at render time. name origin: %s" % sorted(str(x) for x in name_leaves)[:3])
    for v, fl in EMIT_FLOORS.items():
        rep.floor("C07.REF.a", "emission sites of Instruction::%s [%s]" % (v, cfg), counts[v], fl)


def check_ref_b(crate, rep, cfg):
    tn = crate.one("template::Template::new")
    bodies = crate.with_closures(tn)
    rep.analysed(*bodies)
    # Template aggregate: each of the five fields comes from the body compiler's map of the same name
    aggs = [(b, bb, idx, s) for b in bodies for bb, idx, s in find_aggs(b, "template::Template", "Template")]
    if len(aggs) != 1:
        rep.anchor_missing("C07.REF.b", "exactly one construction of Template in Template::new (found %d)" % len(aggs))
        return
    b, bb, idx, s = aggs[0]
    tr = Tracer(b, transparent=REF_TRANSPARENT)
    rv = s["rv"]
    for f in FIVE:
        op = rv["ops"][rv["fields"].index(f)]
        leaves = tr.operand(op)
        ok = leaves and all(l.kind == "call" and l.detail[0].endswith("Compiler::new") and ("." + f) in l.projs for l in leaves)
        key = "C07.REF.b:Template::new:field=%s" % f
        what = "Template.%s is the body compiler's %s map" % (f, f)
        (rep.ok if ok else rep.bad)("C07.REF.b", key, b.where(bb, idx), what if ok else what + " — VIOLATED: origin %s" % sorted(leaf_str(l) for l in leaves)[:3])
    # component compilers: each of their five maps is drained into the template-level map of the same name
    for f in FIVE:
        found = False
        for cb in bodies:
            if cb.kind != "closure":
                continue
            ctr = Tracer(cb, transparent=REF_TRANSPARENT)
            up = {u["n"]: pl_str(u["pl"]) for u in cb.j.get("upvars", [])}
            if f not in up:
                continue
            for ebb, t in find_calls(cb, ["std::collections::HashMap::<K, V, S, A>::entry", "std::collections::HashMap::<K, V, S>::entry"]):
                recv = ctr.operand(t["args"][0])
                # receiver is the captured template-level map `f`
                if not any(l.kind == "param" and "".join(l.projs).replace("&", "").replace("deref", "").startswith(up[f].split("deref", 1)[-1].replace("deref", "")) for l in recv):
                    continue
                keyl = ctr.operand(t["args"][1])
                if keyl and all(l.kind == "call" and l.detail[0].endswith("Compiler::new") and ("." + f) in l.projs for l in keyl):
                    found = True
        key = "C07.REF.b:Template::new:components-merge=%s" % f
        what = "references recorded while compiling component bodies (%s) are merged into the template-level map that is validated" % f
        if found:
            rep.ok("C07.REF.b", key, tn.where(0), what)
        else:
            rep.bad("C07.REF.b", key, tn.where(0), what + " — VIOLATED: no `%s.entry(name)` fed from the component compiler's %s; unknown names "
                    "inside component definitions would escape add-time validation" % (f, f))


VALIDATE_AGAINST = {
    "filter_calls": ("registry", "filters"),
    "test_calls": ("registry", "tests"),
    "function_calls": ("registry", "functions"),
    "component_calls": ("predicate", None),
    "include_calls": ("resolve", None),
}


def check_ref_c(crate, rep, cfg):
    v = crate.one("tera::Tera::validate_template_references")
    rep.analysed(v)
    tr = Tracer(v, transparent=REF_TRANSPARENT)

    def from_field(op, f):
        leaves = tr.operand(op)
        return bool(leaves) and all(l.kind == "param" and l.detail == 2 and ("." + f) in l.projs for l in leaves if l.kind != "cycle")

    for f, (how, reg) in VALIDATE_AGAINST.items():
        ok = False
        where = v.where(0)
        if how == "registry":
            for bb, t in find_calls(v, ["std::collections::HashMap::<K, V, S, A>::contains_key", "std::collections::HashMap::<K, V, S>::contains_key"]):
                if rrec.field_of_arg(tr, t["args"][0]) == "." + reg and from_field(t["args"][1], f):
                    ok, where = True, v.where(bb)
        elif how == "predicate":
            for bb, t in v.calls():
                if t["f"].get("trait") in ("std::ops::Fn", "std::ops::FnMut", "std::ops::FnOnce") or "Fn::call" in callee_def(t):
                    recv = tr.operand(t["args"][0])
                    if any(l.kind == "param" and l.detail == 3 for l in recv) and len(t["args"]) > 1:
                        # args tuple: (name,)
                        a1 = t["args"][1]
                        if a1["k"] in ("copy", "move"):
                            leaves = tr.place(a1["pl"], [".0"])
                            if leaves and all(l.kind == "param" and l.detail == 2 and ("." + f) in l.projs for l in leaves if l.kind != "cycle"):
                                ok, where = True, v.where(bb)
        elif how == "resolve":
            for bb, t in find_calls(v, ["tera::Tera::resolve_template_name"]):
                if from_field(t["args"][1], f):
                    ok, where = True, v.where(bb)
        key = "C07.REF.c:validate:%s" % f
        what = "validate_template_references tests every key of Template.%s against %s" % (
            f, "Tera.%s" % reg if reg else ("the known-component predicate" if how == "predicate" else "resolve_template_name"))
        (rep.ok if ok else rep.bad)("C07.REF.c", key, where, what if ok else what + " — VIOLATED: no such test found")
    # the error branch of each test pushes into the returned vector: the result (_0) is the local that receives the pushes
    pushes = list(find_calls(v, ["std::vec::Vec::<T, A>::push"]))
    rep.floor("C07.REF.c", "error pushes in validate_template_references [%s]" % cfg, len(pushes), 5)
    # the only literal exemption is the function name `super`
    consts = set()
    for bb, idx, s in v.stmts():
        for op in iter_operands(s):
            if op["k"] == "const" and "s" in op and "str" in op.get("ty", "") and op["s"] and not op["s"].startswith("Unknown") and "`" not in op["s"]:
                consts.add(op["s"])
    key = "C07.REF.c:validate:exemptions"
    allowed = {"super"}
    extra = {c for c in consts if c.strip() and c not in allowed and len(c) < 40 and c.isidentifier()}
    if extra:
        rep.bad("C07.REF.c", key, v.where(0), "names exempted from validation by literal comparison: %s (only `super` is reviewed)" % sorted(extra))
    else:
        rep.ok("C07.REF.c", key, v.where(0), "the only identifier literal compared against in validation is `super` (handled by the VM itself)")


def check_ref_d(crate, rep, cfg):
    fin = crate.one("tera::Tera::finalize_templates")
    rep.analysed(fin)
    tr = Tracer(fin, transparent=REF_TRANSPARENT)
    ef = EdgeFacts(fin, crate)
    vcalls = list(find_calls(fin, ["tera::Tera::validate_template_references"]))
    key = "C07.REF.d:finalize:validate-in-loop"
    ok = False
    for bb, t in vcalls:
        leaves = tr.operand(t["args"][1])
        in_loop = any(bb in l for l in fin.loops())
        from_templates = bool(leaves) and all((l.kind == "param" and l.detail == 1 and ".templates" in l.projs) for l in leaves if l.kind != "cycle")
        every, why = runs_every_iteration(fin, bb)
        if in_loop and from_templates and every:
            ok = True
    what = "finalize_templates validates every template of self.templates on every call (unconditional call inside the loop over the map)"
    (rep.ok if ok else rep.bad)("C07.REF.d", key, fin.where(vcalls[0][0]) if vcalls else fin.where(0), what if ok else what + " — VIOLATED")
    # commit start is dominated by the `errors.is_empty()` true edge
    commit = [bb for bb, t in find_calls(fin, ["std::collections::HashMap::<K, V, S, A>::iter_mut", "std::collections::HashMap::<K, V, S>::iter_mut"])
              if rrec.field_of_arg(tr, t["args"][0]) == ".templates"]
    key = "C07.REF.d:finalize:errors-block-commit"
    ok = False
    if commit:
        cb = commit[0]
        for sb in sorted(fin.reachable):
            if fin.term(sb)["k"] != "switch":
                continue
            for tgt, fl in ef.facts_for_switch(sb).items():
                for f in fl:
                    if f[0] == "call" and f[1].endswith("::is_empty") and f[3] is True and fin.dominates(tgt, cb) and tgt != sb:
                        # the tested vector receives the validation reports
                        ok = True
    what = "the commit loop of finalize_templates is dominated by the true edge of `errors.is_empty()` (any validation report aborts before commit)"
    (rep.ok if ok else rep.bad)("C07.REF.d", key, fin.where(commit[0]) if commit else fin.where(0), what if ok else what + " — VIOLATED")
    # render_str_to
    rs = crate.one("tera::Tera::render_str_to")
    rep.analysed(rs)
    ef2 = EdgeFacts(rs, crate)
    vm_new = [bb for bb, t in find_calls(rs, ["vm::interpreter::VirtualMachine::<'tera>::new"])]
    vcalls2 = list(find_calls(rs, ["tera::Tera::validate_template_references"]))
    ok = False
    if vm_new and vcalls2:
        for sb in sorted(rs.reachable):
            if rs.term(sb)["k"] != "switch":
                continue
            for tgt, fl in ef2.facts_for_switch(sb).items():
                for f in fl:
                    if f[0] == "call" and f[1].endswith("::is_empty") and f[3] is True and rs.dominates(tgt, vm_new[0]) and tgt != sb \
                            and rs.dominates(vcalls2[0][0], sb):
                        ok = True
    key = "C07.REF.d:render_str_to:validate-before-vm"
    what = "render_str_to validates the one-off template and constructs the VM only on the `errors.is_empty()` true edge"
    (rep.ok if ok else rep.bad)("C07.REF.d", key, rs.where(vm_new[0]) if vm_new else rs.where(0), what if ok else what + " — VIOLATED")


LOOKUP_KEY_FROM = {
    "filters": {"as:ApplyFilter"},
    "tests": {"as:RunTest"},
    "functions": {"as:CallFunction"},
    "components": {"as:RenderInlineComponent", "as:RenderBodyComponent"},
    "templates": {".name"},
}


def check_ref_e(crate, rep, cfg):
    n = 0
    for b in crate.in_files("vm/interpreter.rs"):
        tr = Tracer(b, transparent=REF_TRANSPARENT | {"std::string::String::as_str"})
        ordn = {}
        for bb, t in find_calls(b, ["std::ops::Index::index"]):
            fld = rrec.field_of_arg(tr, t["args"][0])
            if fld is None or fld[1:] not in LOOKUP_KEY_FROM:
                continue
            f = fld[1:]
            # only the Tera/Template registries (HashMap receivers)
            if "HashMap" not in t["atys"][0]:
                continue
            n += 1
            rep.analysed(b)
            leaves = tr.operand(t["args"][1])
            leaves = resolve_upvars(crate, b, leaves, REF_TRANSPARENT | {"std::string::String::as_str"})
            ok = bool(leaves) and all(any(p in LOOKUP_KEY_FROM[f] for p in l.projs) for l in leaves if l.kind != "cycle")
            k = ordn.get(f, 0)
            ordn[f] = k + 1
            key = "C07.REF.e:%s:index:%s#%d" % (b.path, f, k)
            what = ("panicking lookup `%s[key]` takes its key from %s (a name recorded and validated at add time)" % (
                f, " / ".join(sorted(LOOKUP_KEY_FROM[f]))))
            if ok:
                rep.ok("C07.REF.e", key, b.where(bb), what)
            else:
                rep.bad("C07.REF.e", key, b.where(bb), what + " — VIOLATED: key origin %s" % sorted(leaf_str(l) for l in leaves)[:3])
    rep.floor("C07.REF.e", "panicking registry lookups in the VM [%s]" % cfg, n, 5)


GROW_ONLY_OK = {"insert", "contains_key", "get", "index", "iter", "len", "clone", "keys", "values", "into_iter", "is_empty", "get_key_value", "fmt"}


def check_ref_f(crate, rep, cfg):
    n = 0
    for f in ("filters", "tests", "functions"):
        for a in field_accesses(crate, "tera::Tera", f):
            b = a["body"]
            n += 1
            key = "C07.REF.f:%s:%s:%s" % (f, b.path, a["kind"] + (":" + a["callee"].rsplit("::", 1)[-1] if a.get("callee") else ""))
            what = "Tera.%s is only inserted into / read (registries only grow, so names validated at add time stay resolvable)" % f
            ok = True
            if a["kind"] == "assign":
                ok = False
            elif a["kind"] == "agg-init":
                ok = b.path.endswith("::default") or b.path.endswith("::clone")
            elif a["kind"] == "call":
                meth = a["callee"].rsplit("::", 1)[-1]
                ok = meth in GROW_ONLY_OK
            if ok:
                rep.ok("C07.REF.f", key, b.where(a["bb"], a["idx"]), what)
            else:
                rep.bad("C07.REF.f", key, b.where(a["bb"], a["idx"]), what + " — VIOLATED: %s %s" % (a["kind"], a.get("callee") or ""))
    rep.floor("C07.REF.f", "accesses to Tera.{filters,tests,functions} [%s]" % cfg, n, 20)


def resolve_upvars(crate, body, leaves, transparent):
    """a leaf that is a captured variable of a closure (param 1, field N) is traced on in the parent function"""
    if body.kind != "closure" or not body.parent or body.parent not in crate.bodies:
        return leaves
    parent = crate.bodies[body.parent]
    out = set()
    for l in leaves:
        if l.kind == "param" and l.detail == 1:
            real = [p for p in l.projs if p not in ("&", "deref")]
            if real and real[0].startswith(".") and real[0][1:].isdigit():
                n = int(real[0][1:])
                found = False
                for bb, idx, s in parent.stmts():
                    if idx != "t" and s["k"] == "assign" and s["rv"]["k"] == "agg" and s["rv"].get("ak") == "closure" and s["rv"].get("def") == body.path:
                        if n < len(s["rv"]["ops"]):
                            ptr = Tracer(parent, transparent=transparent)
                            sub = ptr.operand(s["rv"]["ops"][n], real[1:])
                            out |= resolve_upvars(crate, parent, sub, transparent)
                            found = True
                if found:
                    continue
        out.add(l)
    return out


# ----------------------------------------------------------------------------------------------------------------
# C07.SPAN / C07.UTF8 / C07.PAIR / C07.ITER

PUSHING = {"LoadConst", "LoadName", "LoadAttr", "LoadAttrOpt", "BinarySubscript", "BinarySubscriptOpt", "Slice", "SliceOpt", "BuildMap", "BuildList",
           "BuildMapWithSpreads", "BuildListWithSpreads", "CallFunction", "RenderInlineComponent", "RenderBodyComponent", "ApplyFilter", "RunTest",
           "EndCapture", "StoreDidNotIterate", "Mul", "Div", "FloorDiv", "Mod", "Plus", "Minus", "Power", "LessThan", "GreaterThan", "LessThanOrEqual",
           "GreaterThanOrEqual", "Equal", "NotEqual", "StrConcat", "In", "Not", "Negative"}
SPANLESS = {  # (function, variant, span kind) -> (count, reason)
    ("compile_expr", "LoadConst", "None"): (3, "slice defaults none/none/1: the Slice arm tests is_none() first and 1 is an integer, so their span is never read"),
    ("compile_kwargs", "BuildMap", "None"): (1, "kwargs map: every consumer (CallFunction, ApplyFilter, RunTest) pops it with `_` for the span"),
    ("compile_map_entries", "BuildMap", "param"): (1, "span passed by the caller: Some for map literals; None only for component kwargs, popped with `_`"),
    ("compile_map_entries", "BuildMapWithSpreads", "param"): (1, "same as BuildMap"),
    ("compile_node", "EndCapture", "call"): (1, "set block: span of the first filter if any; without filters the value is consumed by Set, which reads no span"),
    ("compile_node", "StoreDidNotIterate", "None"): (1, "consumed by PopJumpIfFalse, which reads no span"),
}


def check_span(crate, rep, cfg):
    from collections import Counter
    seen = Counter()
    first = {}
    n = 0
    for b in crate.in_files("parsing/compiler.rs"):
        if b.kind == "const":
            continue
        tr = Tracer(b)
        fn = crate.root_of(b).path.rsplit("::", 1)[-1]
        for bb, t in find_calls(b, ["parsing::instructions::Chunk::add"]):
            vs = {l.detail[2] for l in tr.operand(t["args"][1]) if l.kind == "agg"}
            if not vs:
                rep.bad("C07.SPAN", "C07.SPAN:%s:unknown-instruction" % fn, b.where(bb), "emission whose instruction is not a direct construction")
                continue
            kinds = set()
            for l in tr.operand(t["args"][2]):
                if l.kind == "agg" and l.detail[1] == "std::option::Option":
                    kinds.add(l.detail[2])
                else:
                    kinds.add(l.kind)
            kind = "/".join(sorted(kinds))
            for v in vs & PUSHING:
                n += 1
                if kind == "Some":
                    rep.ok("C07.SPAN", "C07.SPAN:%s:%s:some#%d" % (fn, v, seen[(fn, v, "Some")]), b.where(bb), "value-pushing instruction %s is emitted with Some(span)" % v)
                    seen[(fn, v, "Some")] += 1
                else:
                    seen[(fn, v, kind)] += 1
                    first.setdefault((fn, v, kind), b.where(bb))
    for (fn, v, kind), c in sorted(seen.items()):
        if kind == "Some":
            continue
        row = SPANLESS.get((fn, v, kind))
        key = "C07.SPAN:%s:%s:%s" % (fn, v, kind)
        if row and c <= row[0]:
            rep.ok("C07.SPAN", key, first[(fn, v, kind)], "spanless emission of %s reviewed (%dx): %s" % (v, c, row[1]))
        else:
            rep.bad("C07.SPAN", key, first[(fn, v, kind)], "value-pushing instruction %s emitted without a span (%dx, reviewed %s): an error on that value hits "
                    "`expect('to have a span for error')` at render time" % (v, c, row[0] if row else 0))
    rep.floor("C07.SPAN", "emissions of value-pushing instructions [%s]" % cfg, n, 35)
    # compile_map_entries callers: None only next to a component emission
    ce = crate.one("parsing::compiler::Compiler::compile_expr")
    tr = Tracer(ce)
    for k, (bb, t) in enumerate(find_calls(ce, ["parsing::compiler::Compiler::compile_map_entries"])):
        kinds = {l.detail[2] for l in tr.operand(t["args"][2]) if l.kind == "agg"}
        if kinds == {"None"}:
            region = ce.reach_from(bb)
            ok = any(s["rv"]["variant"] in ("RenderInlineComponent", "RenderBodyComponent") for b2, i2, s in find_aggs(ce, "parsing::instructions::Instruction", blocks=sorted(ce.dominated_by(bb))))
            rep.add("C07.SPAN", "C07.SPAN:compile_expr:compile_map_entries-None#%d" % k, ok, ce.where(bb), "compile_map_entries is called without a span only for component kwargs" + ("" if ok else " — VIOLATED"))


UTF8_WRITERS = ["value::Value::format", "value::format_map", "value::key::Key::<'a>::format", "utils::escape_html"]


def check_utf8(crate, rep, cfg):
    n = 0
    for path in UTF8_WRITERS:
        b = crate.one(path)
        rep.analysed(b)
        tr = Tracer(b, transparent=set(TRANSPARENT_CALLS) | {"std::string::String::from_utf8_lossy", "std::borrow::Cow::<'_, B>::as_ref", "itoa::Buffer::format"})
        k = 0
        for bb, t in find_calls(b, ["std::io::Write::write_all"]):
            n += 1
            leaves = tr.operand(t["args"][1])
            # `table(byte).unwrap_or(from_ref(byte))`: either alternative
            expanded = set()
            for l in leaves:
                if l.kind == "call" and l.detail[0].rsplit("::", 1)[-1] in ("unwrap_or", "unwrap_or_else", "unwrap_or_default"):
                    ct = b.term(l.detail[2])
                    for a_ in ct["args"]:
                        expanded |= tr.operand(a_)
                else:
                    expanded.add(l)
            leaves = expanded
            ok = bool(leaves)
            for l in leaves:
                if l.kind == "const":
                    continue
                if l.kind == "agg" and l.detail[0] == "adt" and l.detail[2] in ("Some", "None") and False:
                    continue
                if any("as_bytes" in p for p in l.projs):
                    continue        # bytes of a &str / String / lossy-converted Cow<str>
                if path.endswith("escape_html") and l.kind == "call" and l.detail[0].endswith("slice::from_ref"):
                    continue        # the input's own byte (a one-element slice of it)
                if l.kind == "call" and l.detail[0] in crate.bodies and l.detail[0].startswith("utils::") and returns_only_consts(crate, crate.bodies[l.detail[0]]):
                    continue        # a private table function of this module answering with byte-string constants
                if leaf_call_is(l, "itoa::Buffer::format", "itoa::Buffer::new"):
                    continue
                if path.endswith("escape_html") and l.kind == "agg" and l.detail[0] == "array":
                    continue        # the input's own byte, in order (non-special bytes are copied through one at a time)
                ok = False
            key = "C07.UTF8:%s:write_all#%d" % (path, k)
            k += 1
            (rep.ok if ok else rep.bad)("C07.UTF8", key, b.where(bb), "bytes written come from a constant, str::as_bytes (incl. from_utf8_lossy) or number digits — valid UTF-8"
                                        + ("" if ok else " — VIOLATED: origin %s; the VM reads this buffer with from_utf8_unchecked" % sorted(leaf_str(l) for l in leaves)[:2]))
    rep.floor("C07.UTF8", "write_all sites of the formatting functions [%s]" % cfg, n, 12)
    # SmartString::Small.data writers: only SmartString::new (copy_from_slice of a &str) and mark_safe (moves it)
    for b in crate.bodies.values():
        for bb, idx, s in find_aggs(b, "value::SmartString", "Small"):
            ok = b.path in ("value::SmartString::new", "value::SmartString::mark_safe") or rrec.derive_generated(crate, b.path)
            rep.add("C07.UTF8", "C07.UTF8:SmartString::Small:%s" % b.path, ok, b.where(bb, idx), "inline string bytes are only built by SmartString::new (copied from a &str) / moved by mark_safe"
                    + ("" if ok else " — VIOLATED: as_str() reads them with from_utf8_unchecked"))
    # filters::escape's buffer: only escape_html writes it
    fe = crate.one("filters::escape")
    tr = Tracer(fe)
    for bb, t in fe.calls():
        if callee_def(t).endswith("from_utf8_unchecked"):
            leaves = tr.operand(t["args"][0])
            ok = bool(leaves) and all(leaf_call_is(l, "std::vec::Vec::<T>::with_capacity", "std::vec::Vec::<T>::new") for l in leaves)
            writers = [callee_def(t2) for b2, t2 in fe.calls() if any(a["k"] in ("copy", "move") and "Vec<u8>" in fe.local_ty(a["pl"]["l"]) for a in t2["args"])
                       and not callee_def(t2).endswith("from_utf8_unchecked")]
            ok = ok and all(w.endswith("escape_html") or w.endswith("::unwrap") or "Deref" in w or w.endswith("with_capacity") for w in writers)
            rep.add("C07.UTF8", "C07.UTF8:filters::escape:buffer", ok, fe.where(bb), "the buffer turned into a String unchecked is a fresh Vec written only by escape_html" + ("" if ok else " — VIOLATED: %s" % writers))


def check_pair(crate, rep, cfg):
    # compiler: Capture/EndCapture and StartIterate*/PopLoop emitted in pairs on every path
    pairs = (("Capture", ("EndCapture",), 3), ("StartIterate", ("PopLoop",), 1), ("StartIterateComprehension", ("PopLoop",), 1))
    for b in [x for x in crate.in_files("parsing/compiler.rs") if x.kind != "const"]:
        fn = crate.root_of(b).path.rsplit("::", 1)[-1]
        for opener, closers, _ in pairs:
            opens = [bb for bb, idx, s in find_aggs(b, "parsing::instructions::Instruction", opener)]
            close_blocks = {bb for c in closers for bb, idx, s in find_aggs(b, "parsing::instructions::Instruction", c)}
            for k, ob in enumerate(opens):
                reach = b.reach_from(ob, removed_blocks=frozenset(close_blocks - {ob}))
                leaks = [x for x in reach if b.term(x)["k"] == "return"]
                key = "C07.PAIR:%s:%s#%d" % (fn, opener, k)
                (rep.ok if not leaks else rep.bad)("C07.PAIR", key, b.where(ob), "every path from the emission of %s to return emits %s (the VM's capture/loop stack is popped "
                                                   "again)" % (opener, "/".join(closers)) + ("" if not leaks else " — VIOLATED"))
    n_open = sum(len(list(find_aggs(b, "parsing::instructions::Instruction", "Capture"))) for b in crate.in_files("parsing/compiler.rs") if b.kind != "const")
    rep.floor("C07.PAIR", "Capture emissions [%s]" % cfg, n_open, 3)
    # parser: Break/Continue only inside a loop and not across a capture; Block only where blocks are allowed
    pt = crate.one("parsing::parser::Parser::<'a>::parse_tag")
    ef = EdgeFacts(pt, crate)
    from props.c02 import const_of
    from props import c06 as _c06

    def ctx_eq_edges(variant):
        """(switch block, true-edge target, call block) for every `ctx == BodyContext::<variant>` test"""
        out = []
        for sb in sorted(pt.reachable):
            if pt.term(sb)["k"] != "switch":
                continue
            for tgt, fl in ef.facts_for_switch(sb).items():
                for f in fl:
                    if f[0] == "call" and f[1].endswith("::eq") and f[3] is True:
                        ct = pt.term(f[4])
                        if any(("parsing::parser::BodyContext::" + variant) in ((const_of(pt, a) or {}).get("pagg") or []) for a in ct["args"]):
                            out.append((sb, tgt, f[4]))
        return out
    loop_edges = ctx_eq_edges("ForLoop")
    capt_edges = ctx_eq_edges("Capture")
    if not loop_edges and not capt_edges:
        # second idiom: `body_contexts.iter().rev().find(|c| matches!(c, ForLoop | Capture))` then `match` on the result
        check_break_guard_find(crate, pt, ef, rep)
    else:
        check_break_guard_scan(crate, pt, ef, rep, loop_edges, capt_edges)
    sites = list(find_aggs(pt, "parsing::ast::Node", "Block"))
    ok = bool(sites)
    for bb, idx, s in sites:
        dom = False
        for sb in sorted(pt.reachable):
            if pt.term(sb)["k"] != "switch" or not pt.dominates(sb, bb):
                continue
            for tgt, fl in ef.facts_for_switch(sb).items():
                for f in fl:
                    if f[0] == "call" and f[1].endswith("::any") and f[3] is False and pt.dominates(tgt, bb) and tgt != sb:
                        dom = True
        ok = ok and dom
    rep.add("C07.PAIR", "C07.PAIR:parser:block-context", ok, pt.where(sites[0][0]) if sites else pt.where(0), "Node::Block is only built on the false edge of "
            "`body_contexts.iter().any(|b| !b.can_contain_blocks())` (never inside a loop)" + ("" if ok else " — VIOLATED"))
    # VM: blocks pushed in RenderBlock are popped before the `?` on the nested result
    vm = crate.one("vm::interpreter::VirtualMachine::<'tera>::interpret")
    tr = Tracer(vm)
    pushes = [bb for bb, t in find_calls(vm, ["std::vec::Vec::<T, A>::push"]) if rrec.field_of_arg(tr, t["args"][0]) == ".blocks"]
    pops = {bb for bb, t in find_calls(vm, ["std::vec::Vec::<T, A>::pop"]) if rrec.field_of_arg(tr, t["args"][0]) == ".blocks"}
    heads = {bb for bb, t in find_calls(vm, ["parsing::instructions::Chunk::get"])}
    ok = bool(pushes) and bool(pops)
    for pb in pushes:
        reach = vm.reach_from(pb, removed_blocks=frozenset(pops))
        if (reach & heads) or any(vm.term(x)["k"] == "return" for x in reach):
            ok = False
    rep.add("C07.PAIR", "C07.PAIR:vm:blocks-push-pop", ok, vm.where(pushes[0]) if pushes else vm.where(0), "after state.blocks.push in RenderBlock neither the next instruction nor a "
            "return (including the `?` on the nested result) is reached without state.blocks.pop()" + ("" if ok else " — VIOLATED"))


def check_iter_dom(crate, rep, cfg):
    vm = crate.one("vm::interpreter::VirtualMachine::<'tera>::interpret")
    ef = EdgeFacts(vm, crate)
    sites = [bb for bb, t in vm.calls() if callee_def(t).endswith("ForLoop::new") or callee_def(t).endswith("ForLoop::new_comprehension")]
    rep.floor("C07.ITER", "ForLoop::new call sites in the VM [%s]" % cfg, len(sites), 2)
    for k, cb in enumerate(sites):
        dom = False
        for sb in sorted(vm.reachable):
            if vm.term(sb)["k"] != "switch" or not vm.dominates(sb, cb):
                continue
            for tgt, fl in ef.facts_for_switch(sb).items():
                for f in fl:
                    if f[0] == "call" and f[1].endswith("can_be_iterated_on") and f[3] is True and vm.dominates(tgt, cb) and tgt != sb:
                        dom = True
        rep.add("C07.ITER", "C07.ITER:vm:ForLoop::new#%d" % k, dom, vm.where(cb), "ForLoop::new is dominated by the true edge of can_be_iterated_on() (its expect cannot fire; "
                "kind tables agree — C17.ITERABLE)" + ("" if dom else " — VIOLATED"))


def check_break_guard_scan(crate, pt, ef, rep, loop_edges, capt_edges):
    """idiom 1: a reverse scan over body_contexts with a found-a-loop flag"""
    # the "found a loop" flag, by shape: a bool local set to false, and set to true only under `ctx == BodyContext::ForLoop`
    in_loop = set()
    for l, ds in pt.defs.items():
        if pt.local_ty(l) != "bool":
            continue
        cs = [(d[0], d[3]["op"].get("v")) for d in ds if not d[2] and d[3]["k"] == "use" and d[3]["op"]["k"] == "const"]
        if len(cs) != len(ds) or not cs:
            continue
        trues = [bb for bb, v in cs if str(v) == "1"]
        falses = [bb for bb, v in cs if str(v) == "0"]
        if trues and falses and all(any(pt.dominates(tgt, tb) and tgt != sb for sb, tgt, _ in loop_edges) for tb in trues):
            in_loop.add(l)
    if not in_loop:
        rep.anchor_missing("C07.PAIR", "the found-a-loop flag of the break/continue context scan in parse_tag (bool set only under `ctx == BodyContext::ForLoop`)")
    for v in ("Break", "Continue"):
        sites = list(find_aggs(pt, "parsing::ast::Node", v))
        ok = bool(sites)
        for bb, idx, s in sites:
            dom = False
            for sb in sorted(pt.reachable):
                t = pt.term(sb)
                if t["k"] == "switch" and t["op"]["k"] in ("copy", "move") and not t["op"]["pl"]["p"] and pt.dominates(sb, bb) and sb != bb:
                    for (b2, i2, dp, rv) in pt.defs.get(t["op"]["pl"]["l"], []):
                        if rv["k"] == "un" and rv["op"] == "Not" and rv["a"]["k"] in ("copy", "move"):
                            x = rv["a"]["pl"]["l"]
                            for (b3, i3, dp3, rv3) in pt.defs.get(x, []):
                                if rv3["k"] == "use" and rv3["op"]["k"] in ("copy", "move") and rv3["op"]["pl"]["l"] in in_loop:
                                    # `if !in_loop { return Err }`: the construction is on the false edge
                                    for vv, tgt in t["targets"]:
                                        if vv == "0" and pt.dominates(tgt, bb):
                                            dom = True
                        if rv["k"] == "use" and rv["op"]["k"] in ("copy", "move") and rv["op"]["pl"]["l"] in in_loop:
                            if pt.dominates(t["otherwise"], bb):
                                dom = True
            ok = ok and dom
        rep.add("C07.PAIR", "C07.PAIR:parser:%s-in-loop" % v, ok, pt.where(sites[0][0]) if sites else pt.where(0), "Node::%s is only built on the found-a-loop edge of the "
                "body-context scan (so the compiler's get_current_loop().unwrap() and the jump stay inside a loop)" % v + ("" if ok else " — VIOLATED"))
    # the scan refuses a Capture context met before the loop: the true edge of `ctx == Capture` cannot reach the construction of Break/Continue,
    # it sits in the same loop as the ForLoop test, and that loop walks body_contexts innermost-first (Rev)
    jump_blocks = {bb for v in ("Break", "Continue") for bb, idx, s in find_aggs(pt, "parsing::ast::Node", v)}
    ok = bool(capt_edges) and bool(loop_edges)
    why = []
    for sb, tgt, cb in capt_edges:
        if pt.reach_from(tgt) & jump_blocks:
            ok = False
            why.append("a Break/Continue node is reachable after `ctx == Capture` held")
    scan_loops = [L for L in pt.loops() if any(cb in L for _, _, cb in loop_edges)]
    if not scan_loops or not all(any(cb in L for L in scan_loops) for _, _, cb in capt_edges):
        ok = False
        why.append("the Capture test is not in the loop that looks for the ForLoop context")
    for L in scan_loops:
        nexts = [t for bb, t in pt.calls(sorted(L)) if callee_def(t).endswith("Iterator::next")]
        if not nexts or not all("Rev<" in (t["atys"][0] if t["atys"] else "") for t in nexts):
            ok = False
            why.append("the scan does not walk body_contexts in reverse (innermost first)")
    rep.add("C07.PAIR", "C07.PAIR:parser:capture-blocks-break", ok, pt.where(capt_edges[0][0]) if capt_edges else pt.where(0), "the break/continue scan walks the enclosing "
            "contexts innermost-first, and meeting BodyContext::Capture before the loop can only end in the error return (a jump may not cross an EndCapture)"
            + ("" if ok else " — VIOLATED: " + "; ".join(why or ["scan idiom not recognised"])))


def node_result_blocks(pt, tr):
    """where a Break/Continue node becomes the parser's result: the block wrapping it in Some/Ok when the node itself was prepared earlier
    as a plain value (`let node = if is_break { Break } else { Continue }` ahead of the test), else the block constructing it"""
    out = set()
    for v in ("Break", "Continue"):
        for bb, idx, s0 in find_aggs(pt, "parsing::ast::Node", v):
            wraps = set()
            for b2, i2, st in pt.stmts():
                if i2 != "t" and st.get("k") == "assign" and st["rv"]["k"] == "agg" and st["rv"].get("ak") == "adt" and \
                        st["rv"].get("adt") in ("std::option::Option", "std::result::Result"):
                    for op in st["rv"]["ops"]:
                        if any(l.kind == "agg" and l.detail[3:5] == (bb, idx) and not l.projs for l in tr.operand(op)):
                            wraps.add(b2)
            out |= wraps or {bb}
    return out


def closure_true_set(crate, cb, adt_suffix):
    """variants of the enum for which a `|x| matches!(x, A | B)` closure returns true (None if the shape is not that)"""
    ef = EdgeFacts(cb, crate)
    true_set, seen = set(), False
    for sb in sorted(cb.reachable):
        if cb.term(sb)["k"] != "switch":
            continue
        for tgt, fl in ef.facts_for_switch(sb).items():
            for f in fl:
                if f[0] == "variant" and f[1].endswith(adt_suffix) and f[4]:
                    seen = True
                    vals = set()
                    for bb, idx, st in cb.stmts(sorted(x for x in cb.reach_from(tgt) if cb.dominates(tgt, x))):
                        if idx != "t" and st.get("k") == "assign" and st["pl"]["l"] == 0 and st["rv"]["k"] == "use" and st["rv"]["op"]["k"] == "const":
                            vals.add(str(st["rv"]["op"].get("v")))
                    if vals == {"1"}:
                        true_set |= set(f[3])
    return true_set if seen else None


def check_break_guard_find(crate, pt, ef, rep):
    """idiom 2: the innermost context among {ForLoop, Capture} is found with a reverse find(), and Break/Continue are built only when it
    is a ForLoop"""
    tr = Tracer(pt)
    finds = []
    for bb, t in pt.calls():
        cd = callee_def(t)
        if cd.endswith("Iterator::find") or cd.endswith("::rfind") or cd.endswith("DoubleEndedIterator::rfind"):
            a0 = t["atys"][0] if t["atys"] else ""
            if "BodyContext" in a0:
                rev = ("Rev<" in a0) != cd.endswith("rfind")      # rev().find(..) or rfind(..) — not both, not neither
                cl = [st["rv"]["def"] for b2, i2, st in pt.stmts() if i2 != "t" and st.get("k") == "assign" and st["rv"]["k"] == "agg" and st["rv"].get("ak") == "closure"
                      and any(l.kind == "agg" and l.detail[-2:] == (b2, i2) for l in tr.operand(t["args"][1]))]
                finds.append((bb, rev, cl))
    jump_blocks = node_result_blocks(pt, tr)
    ok = len(finds) == 1 and bool(jump_blocks)
    why = "context search not recognised (%d find calls over BodyContext)" % len(finds)
    if ok:
        fb, rev, cl = finds[0]
        ts = closure_true_set(crate, crate.bodies[cl[0]], "BodyContext") if len(cl) == 1 and cl[0] in crate.bodies else None
        ok = rev and ts is not None and {"ForLoop", "Capture"} <= ts
        why = "the search is not innermost-first or does not stop at both ForLoop and Capture (stops at %s)" % sorted(ts or [])
        if ok:
            # Break/Continue only under `found == Some(ForLoop)`: dominated by a ForLoop-only variant edge on a value derived from the find result
            good = set()
            for sb in sorted(pt.reachable):
                if pt.term(sb)["k"] != "switch":
                    continue
                for tgt, fl in ef.facts_for_switch(sb).items():
                    for f in fl:
                        if f[0] == "variant" and f[1].endswith("BodyContext") and f[4] and set(f[3]) == {"ForLoop"}:
                            d = ef.single_def(pt.term(sb)["op"]["pl"]["l"])
                            src = tr.place(d[3]["pl"]) if d and d[3]["k"] == "discr" else set()
                            if src and all(l.kind == "call" and l.detail[2] == fb for l in src):
                                good |= {x for x in pt.reach_from(tgt) if pt.dominates(tgt, x)}
            ok = jump_blocks <= good
            why = "a Break/Continue node is built outside the `innermost == Some(ForLoop)` edge"
    for v in ("Break", "Continue"):
        rep.add("C07.PAIR", "C07.PAIR:parser:%s-in-loop" % v, ok, pt.where(min(jump_blocks)) if jump_blocks else pt.where(0), "Node::%s is only built when the innermost "
                "enclosing context among {ForLoop, Capture}, found by a reverse search, is a ForLoop" % v + ("" if ok else " — VIOLATED: " + why))
    rep.add("C07.PAIR", "C07.PAIR:parser:capture-blocks-break", ok, pt.where(finds[0][0]) if finds else pt.where(0), "the break/continue search walks the enclosing contexts "
            "innermost-first and stops at a Capture as well as at a ForLoop, so a capture met before the loop ends in the error return (a jump may not cross an EndCapture)"
            + ("" if ok else " — VIOLATED: " + why))


def returns_only_consts(crate, h):
    """every value h returns is a constant (possibly wrapped in Some / None): a lookup table"""
    tr = Tracer(h)
    ls = tr.place({"l": 0, "p": []})
    if not ls:
        return False
    for l in ls:
        if l.kind == "const":
            continue
        if l.kind == "agg" and l.detail[0] == "adt" and l.detail[2] in ("Some", "None"):
            st = h.blocks[l.detail[3]]["s"][l.detail[4]]
            if all(x.kind == "const" for op in st["rv"]["ops"] for x in tr.operand(op)):
                continue
        return False
    return True
