#!/usr/bin/env python3
"""bin/verif selftest [name...] — apply each mutant patch to a scratch copy of /repo, run the property's check there
and require a violation whose key matches the expected regex. Mutant files: selftest/mutants/<name>.patch with header
lines  '# property: Cnn'  '# expect: <regex on violation key>'  '# what: ...'. Scratch copies are removed afterwards."""
import os
import re
import shutil
import subprocess
import sys
import tempfile

HERE = os.path.dirname(os.path.abspath(__file__))
VERIF = os.path.dirname(HERE)


def parse_header(path):
    h = {}
    for line in open(path):
        if line.startswith("# ") and ":" in line:
            k, _, v = line[2:].partition(":")
            h[k.strip()] = v.strip()
        elif not line.startswith("#"):
            break
    return h


def run_one(path, repo="/repo", keep=False):
    h = parse_header(path)
    prop, expect = h["property"], h["expect"]
    tmp = tempfile.mkdtemp(prefix="tvmut-")
    try:
        subprocess.check_call(["rsync", "-a", "--exclude", "target", "--exclude", ".git", repo + "/", tmp + "/"])
        r = subprocess.run(["patch", "-p1", "-s", "--no-backup-if-mismatch", "-i", path], cwd=tmp, stdout=subprocess.PIPE, stderr=subprocess.STDOUT, text=True)
        if r.returncode != 0:
            return False, "patch does not apply: " + r.stdout[-300:]
        env = dict(os.environ, TV_REPO=tmp)
        r = subprocess.run([sys.executable, os.path.join(HERE, "cli.py"), "check", prop], env=env, stdout=subprocess.PIPE, stderr=subprocess.STDOUT, text=True)
        keys = re.findall(r"rule=\S+ key=(.*)", r.stdout)
        hit = [k for k in keys if re.search(expect, k)]
        if "fact extraction failed" in r.stdout or "EXTRACT" in r.stdout:
            return False, "mutant does not compile: " + r.stdout[-400:]
        if hit:
            return True, "caught: %s (%d violation(s) total)" % (hit[0][:140], len(keys))
        return False, "NOT caught; violations reported: %s" % [k[:100] for k in keys[:5]]
    finally:
        if not keep:
            shutil.rmtree(tmp, ignore_errors=True)


ALL_PROPS = "C01 C02 C03 C04 C05 C06 C07 C08 C09 C10 C11 C12 C13 C14 C15 C16 C17 C18 C19 C20".split()


def run_benign(path, repo="/repo"):
    """a behaviour-preserving edit (benign/<name>.diff): every check must stay silent on it"""
    tmp = tempfile.mkdtemp(prefix="tvben-")
    try:
        subprocess.check_call(["rsync", "-a", "--exclude", "target", "--exclude", ".git", repo + "/", tmp + "/"])
        r = subprocess.run(["patch", "-p1", "-s", "--no-backup-if-mismatch", "-i", path], cwd=tmp, stdout=subprocess.PIPE, stderr=subprocess.STDOUT, text=True)
        if r.returncode != 0:
            return False, "patch does not apply: " + r.stdout[-300:]
        env = dict(os.environ, TV_REPO=tmp)
        alarms = []
        for prop in ALL_PROPS:
            r = subprocess.run([sys.executable, os.path.join(HERE, "cli.py"), "check", prop], env=env, stdout=subprocess.PIPE, stderr=subprocess.STDOUT, text=True)
            if "fact extraction failed" in r.stdout or "EXTRACT" in r.stdout:
                return False, "edit does not compile: " + r.stdout[-400:]
            keys = re.findall(r"rule=\S+ key=(.*)", r.stdout)
            if r.returncode != 0 or keys:
                alarms.append("%s: %s" % (prop, [k[:110] for k in keys[:3]]))
        if alarms:
            return False, "FALSE ALARM on a behaviour-preserving edit: " + "; ".join(alarms)
        return True, "silent: all %d checks pass" % len(ALL_PROPS)
    finally:
        shutil.rmtree(tmp, ignore_errors=True)


def seeded_as_patch(seed_id):
    """a temporary patch file with the selftest header built from seeded/<id>/meta.json"""
    import json
    sd = os.path.join(VERIF, "seeded", seed_id)
    meta = json.load(open(os.path.join(sd, "meta.json")))
    tmp = tempfile.NamedTemporaryFile("w", suffix=".patch", delete=False)
    tmp.write("# property: %s\n# expect: %s\n# what: seeded change %s\n" % (meta["check_property"], meta["expect_key"], seed_id))
    tmp.write(open(os.path.join(sd, "patch.diff")).read())
    tmp.close()
    return tmp.name


def main(argv):
    d = os.path.join(VERIF, "selftest", "mutants")
    seeds = sorted(x for x in os.listdir(os.path.join(VERIF, "seeded")) if os.path.exists(os.path.join(VERIF, "seeded", x, "meta.json")))
    bd = os.path.join(VERIF, "benign")
    benign = sorted(f[:-5] for f in os.listdir(bd) if f.endswith(".diff")) if os.path.isdir(bd) else []
    names = argv or (sorted(f[:-6] for f in os.listdir(d) if f.endswith(".patch")) + ["seed:" + x for x in seeds] + ["benign:" + x for x in benign])
    if argv == ["benign"]:
        names = ["benign:" + x for x in benign]
    jobs = int(os.environ.get("TV_SELFTEST_JOBS", "4"))
    from concurrent.futures import ThreadPoolExecutor

    def one(n):
        if n.startswith("seed:"):
            p = seeded_as_patch(n[5:])
            try:
                return n, run_one(p)
            finally:
                os.unlink(p)
        if n.startswith("benign:"):
            return n, run_benign(os.path.join(bd, n[7:] + ".diff"))
        return n, run_one(os.path.join(d, n + ".patch"))
    bad = 0
    with ThreadPoolExecutor(max_workers=jobs) as ex:
        for n, (ok, msg) in ex.map(one, names):
            print("%s %-40s %s" % ("PASS" if ok else "FAIL", n, msg), flush=True)
            bad += 0 if ok else 1
    print("selftest: %d/%d as expected (mutants and seeds caught, benign edits silent)" % (len(names) - bad, len(names)))
    return 1 if bad else 0


if __name__ == "__main__":
    sys.exit(main(sys.argv[1:]))
