"""C08 — literal text and '-' markers (narrow): C08.TRIM (typestate of the carried trim flag),
C08.PEEK (the end-trim peek pattern covers every start token), C08.TEXT (text flows untransformed)."""
from engine import (Tracer, EdgeFacts, find_aggs, find_calls, pl_str, pl_projs, TRANSPARENT_CALLS,
                    callee_name, callee_def, leaf_str, leaf_call_is, AnchorMissing)

EXPLANATION = (
    "Decides structural clauses of C08 on the type-checked MIR of parsing::lexer / parser / compiler: "
    "(TRIM) in whitespace_filter's closure the carried 'remove leading whitespace' flag is consumed (branch on it, "
    "false edge) or overwritten on every path from every token arm to return, so a '-%}' can only trim the directly "
    "adjacent token; (PEEK) the look-ahead that trims the end of a text covers every start token carrying a "
    "start-trim bool; (TEXT) the payloads of Token::Content, Node::Content and Instruction::WriteText derive from the "
    "previous stage's payload through identity/to_owned/trim_start/trim_end/split_at only. "
    "NOT decided: byte-for-byte output equality, what exactly is trimmed for a given text, raw/comment scanning "
    "results, delimiter re-spelling invariance (input-quantified behaviour).")
NOT_DECIDED = "byte-for-byte equality; trimmed extent for a given text; raw/comment scanning; delimiter re-spelling"
ASSUMPTIONS = ["str::trim_start/trim_end/split_at return sub-slices of their receiver (std contract)"]

START_TRIM_TOKENS = {"VariableStart", "TagStart", "Comment", "RawContent"}


def find_ws_closure(crate):
    cands = []
    for b in crate.in_files("parsing/lexer.rs"):
        if b.kind != "closure":
            continue
        ups = b.j.get("upvars", [])
        bools = [u for u in ups if u["pl"]["p"] and isinstance(u["pl"]["p"][-1], dict) and u["pl"]["p"][-1].get("t") == "bool"]
        peek = [u for u in ups if u["pl"]["p"] and isinstance(u["pl"]["p"][-1], dict) and "Peekable" in u["pl"]["p"][-1].get("t", "")]
        if len(bools) == 1 and peek:
            cands.append((b, bools[0]))
    if len(cands) != 1:
        raise AnchorMissing("whitespace filter closure (closure over a Peekable and exactly one bool) found %d times" % len(cands))
    return cands[0]


def trim_typestate(body, flag_str, rep):
    """Forward dataflow of {U,F,W} for the flag place. Returns list of (seed label, bad return blocks)."""
    ef = EdgeFacts(body, body.crate)

    def transfer_block(bb, st):
        for s in body.blocks[bb]["s"]:
            if s["k"] == "assign" and pl_str(s["pl"]) == flag_str:
                st = frozenset("W")
        # `std::mem::replace(&mut flag, v)` / `mem::take(&mut flag)`: the flag is read out and overwritten in one step
        t = body.term(bb)
        if t["k"] == "call" and callee_def(t) in ("std::mem::replace", "std::mem::take") and t["args"] and t["args"][0]["k"] in ("copy", "move"):
            def refs_flag(l, depth=0):
                for (b2, i2, dp, rv) in body.defs.get(l, []):
                    if rv["k"] == "ref" and pl_str(rv["pl"]) == flag_str:
                        return True
                    if rv["k"] == "ref" and pl_projs(rv["pl"]) == ["deref"] and depth < 4 and refs_flag(rv["pl"]["l"], depth + 1):
                        return True       # reborrow `&mut *r`
                return False
            if refs_flag(t["args"][0]["pl"]["l"]):
                st = frozenset("W")
        return st

    def edge_state(bb, tgt, st):
        t = body.term(bb)
        if t["k"] == "switch":
            facts = ef.facts_for_switch(bb).get(tgt, [])
            for f in facts:
                if f[0] == "bool" and f[1] == flag_str and f[2] is False:
                    return frozenset("F")
        return st

    def run(seeds):
        """seeds: dict bb -> state set at block entry"""
        state = dict(seeds)
        work = list(seeds)
        while work:
            bb = work.pop()
            out = transfer_block(bb, state[bb])
            for tgt in body.succ[bb]:
                ns = edge_state(bb, tgt, out)
                old = state.get(tgt, frozenset())
                new = old | ns
                if new != old:
                    state[tgt] = new
                    work.append(tgt)
        bad = []
        for rb in body.return_blocks():
            if "U" in state.get(rb, frozenset()):
                bad.append(rb)
        return bad, state

    results = []
    # per token arm: every edge of a switch on Token's discriminant that is taken on the *consumed* item
    token_switches = []
    for bb in sorted(body.reachable):
        t = body.term(bb)
        if t["k"] != "switch":
            continue
        for tgt, facts in ef.facts_for_switch(bb).items():
            for f in facts:
                if f[0] == "variant" and f[1].endswith("lexer::Token") and f[4]:
                    token_switches.append((bb, tgt, f))
    return run, token_switches


def run(ctx, rep):
    for cfg in ctx.tera_configs():
        crate = ctx.crate(cfg)
        check_trim(crate, rep, cfg)
        check_text(crate, rep, cfg)
        check_raw_token(crate, rep, cfg)
        check_raw_flags(crate, rep, cfg)
        # text also passes the instruction-fusion pass: it must move WriteText along unchanged (no merging, no rebuilding)
        from props import c09
        c09.check_only(crate, crate.one("parsing::instructions::Chunk::optimize"), rep, cfg)
        # "under any accepted custom delimiter set": the lexer's fixed 2-byte arithmetic is right only for the sets validate() lets through
        from props import c06
        c06.check_delim(crate, rep, cfg)
        # comments and raw bodies end where the lexer's searches say: the scanning loops / searches of lexer.rs are the reviewed ones
        # (C06.LEXPROG, shared)
        c06.check_lexprog(crate, rep, cfg)


def _bool_sources(body, local, projs, depth=0, seen=None):
    """where the bool stored in `local`(.projs) comes from: a set of (block, "0"|"1"|"?") — constants with the block that assigns them,
    followed through copies and tuple construction / destructuring"""
    seen = seen if seen is not None else set()
    key = (local, tuple(projs))
    if key in seen or depth > 12:
        return set()
    seen.add(key)
    out = set()
    for (b3, i3, dp, rv) in body.defs.get(local, []):
        if dp:
            continue
        if rv["k"] == "use":
            op = rv["op"]
            if op["k"] == "const":
                out.add((b3, str(op.get("v")) if not projs else "?"))
            elif op["k"] in ("copy", "move"):
                pp = [p for p in pl_projs(op["pl"]) if p.startswith(".")]
                out |= _bool_sources(body, op["pl"]["l"], pp + list(projs), depth + 1, seen)
            else:
                out.add((b3, "?"))
        elif rv["k"] == "agg" and rv.get("ak") == "tuple" and projs and projs[0][1:].isdigit() and int(projs[0][1:]) < len(rv["ops"]):
            op = rv["ops"][int(projs[0][1:])]
            rest = list(projs[1:])
            if op["k"] == "const":
                out.add((b3, str(op.get("v")) if not rest else "?"))
            elif op["k"] in ("copy", "move"):
                pp = [p for p in pl_projs(op["pl"]) if p.startswith(".")]
                out |= _bool_sources(body, op["pl"]["l"], pp + rest, depth + 1, seen)
            else:
                out.add((b3, "?"))
        else:
            out.add((b3, "?"))
    return out


def skip_tag_fields(crate):
    """summary of skip_tag's returned tuple: {field index: 'after'|'before'|'other'} — a bool field is 'after' when every `true` that can
    flow into it is produced after the tag NAME has been stripped (the `-` next to the closing delimiter), 'before' when only before it."""
    b = crate.one("parsing::lexer::skip_tag")
    tr = Tracer(b)
    names = [bb for bb, t in b.calls() if callee_def(t).endswith("<impl str>::strip_prefix") and len(t["args"]) > 1 and
             (lambda ls: bool(ls) and all(l.kind == "param" and l.detail == 2 for l in ls))(tr.operand(t["args"][1]))]
    if len(names) != 1:
        raise AnchorMissing("skip_tag: strip_prefix(name)")
    nb = names[0]
    after_name = b.reach_from(nb)
    # the tuple inside the returned Some(..)
    tuples = set()
    for l in tr.place({"l": 0, "p": []}):
        if l.kind == "agg" and l.detail[2] == "Some":
            for x in tr.operand(b.blocks[l.detail[3]]["s"][l.detail[4]]["rv"]["ops"][0]):
                if x.kind == "agg" and x.detail[0] == "tuple" and not x.projs:
                    tuples.add((x.detail[3], x.detail[4]))
    if len(tuples) != 1:
        raise AnchorMissing("skip_tag: returned tuple")
    tb, ti = next(iter(tuples))
    out = {}
    for k, op in enumerate(b.blocks[tb]["s"][ti]["rv"]["ops"]):
        cls = "other"
        if op["k"] in ("copy", "move") and b.local_ty(op["pl"]["l"]) == "bool" or (op["k"] == "const" and op.get("ty") == "bool"):
            srcs = {(tb, str(op.get("v")))} if op["k"] == "const" else \
                _bool_sources(b, op["pl"]["l"], [p for p in pl_projs(op["pl"]) if p.startswith(".")])
            trues = {x for x, v in srcs if v == "1"}
            if srcs and not any(v == "?" for _, v in srcs) and trues:
                if all(x in after_name and x != nb for x in trues):
                    cls = "after"
                elif all(nb in b.reach_from(x) and x not in after_name for x in trues):
                    cls = "before"
        out[k] = cls
    return out, b


def gate_of(body, bb):
    """closest dominating switch one of whose edges leads to bb and another does not"""
    best = None
    for sb in sorted(body.reachable):
        t = body.term(sb)
        if t["k"] != "switch" or sb == bb or not body.dominates(sb, bb):
            continue
        succ = set(body.succ[sb])
        to = {x for x in succ if body.dominates(x, bb)}
        if len(to) == 1 and succ - to:
            if best is None or body.dominates(best, sb):
                best = sb
    return best


def check_raw_flags(crate, rep, cfg):
    """C08.RAW — whitespace control of a raw block: `{% raw -%}` trims the start of the body, `{%- endraw %}` trims its end, and `-%}` after
    endraw is the token's own trailing flag (trims the text that follows). Each of the three decisions must read the dash at ITS position:
    the two trailing ones are the flag skip_tag sets after the tag name; the end-of-body one is not that flag."""
    from props.c02 import const_of
    fields, st_body = skip_tag_fields(crate)
    b = crate.one("parsing::lexer::basic_tokenize::{closure#0}")
    rep.analysed(b, st_body)
    tr = Tracer(b)
    after = [k for k, c in fields.items() if c == "after"]
    ok0 = len(after) == 1
    rep.add("C08.RAW", "C08.RAW:skip_tag:one-trailing-dash-flag", ok0, st_body.where(0), "skip_tag returns exactly one flag that is set only after the tag name was matched (fields: %s)" % fields
            + ("" if ok0 else " — VIOLATED"))
    if not ok0:
        return
    io = after[0]

    def tag_call(name):
        r = [bb for bb, t in b.calls() if callee_def(t).endswith("lexer::skip_tag") and any((const_of(b, a) or {}).get("s") == name for a in t["args"])]
        if len(r) != 1:
            raise AnchorMissing("skip_tag(.., \"%s\", ..) call in the tokenizer" % name)
        return r[0]
    raw_bb, end_bb = tag_call("raw"), tag_call("endraw")

    def is_flag(l, call_bb, classes):
        return l.kind == "call" and l.detail[2] == call_bb and len(l.projs) >= 3 and l.projs[0] == "as:Some" and l.projs[1] == ".0" and \
            l.projs[2].startswith(".") and l.projs[2][1:].isdigit() and fields.get(int(l.projs[2][1:])) in classes

    def any_skip_leaf(l):
        return l.kind == "call" and l.detail[0].endswith("lexer::skip_tag")
    aggs = list(find_aggs(b, "parsing::lexer::Token", "RawContent"))
    ok = len(aggs) == 1
    why = "RawContent construction not found"
    if ok:
        ls = tr.operand(aggs[0][2]["rv"]["ops"][2])
        ok = bool(ls) and all(is_flag(l, end_bb, ("after",)) for l in ls)
        why = "got %s" % sorted(leaf_str(l) for l in ls)[:3]
    rep.add("C08.RAW", "C08.RAW:token-trailing-flag-is-endraw-closing-dash", ok, b.where(aggs[0][0]) if aggs else b.where(0), "RawContent's trailing-trim flag is skip_tag(\"endraw\")'s "
            "after-the-name dash (`endraw -%}`)" + ("" if ok else " — VIOLATED: " + why))
    for fn, want in (("trim_start", "raw-closing"), ("trim_end", "endraw-opening")):
        sites = [bb for bb, t in b.calls() if callee_def(t).endswith("<impl str>::" + fn) and b.dominates(end_bb, bb)]
        ok = len(sites) == 1
        why = "%d %s calls after the endraw match" % (len(sites), fn)
        if ok:
            g = gate_of(b, sites[0])
            ok = g is not None and b.dominates(raw_bb, g)
            why = "no gating test"
            if ok:
                ls = [l for l in tr.operand(b.term(g)["op"]) if l.kind != "const"]
                if want == "raw-closing":
                    ok = bool(ls) and all(is_flag(l, raw_bb, ("after",)) for l in ls)
                else:
                    ok = bool(ls) and not any(is_flag(l, end_bb, ("after", "other")) for l in ls) and not any(l.kind == "call" and l.detail[2] == raw_bb for l in ls)
                why = "gated by %s" % sorted(leaf_str(l) for l in ls)[:3]
        rep.add("C08.RAW", "C08.RAW:body-%s-gated-by-%s-dash" % (fn, want), ok, b.where(sites[0]) if sites else b.where(0), "the raw body's %s is decided by the dash %s" % (
            fn, "after `raw` (skip_tag(\"raw\")'s after-the-name flag)" if want == "raw-closing" else "that opens the endraw tag (never the one after `endraw`, never the raw tag's)")
            + ("" if ok else " — VIOLATED: " + why))


def check_raw_token(crate, rep, cfg):
    """C08.TEXT — every recognised raw block yields its RawContent token (even an empty one): the whitespace filter relies on that token to
    absorb a pending `-%}` trim and as the look-ahead target of the text before it. From the point where `endraw` has been matched, the
    tokenizer can only return — the RawContent token or an error — never go round its main loop without producing it."""
    from props.c02 import const_of
    import rrec
    b = crate.one("parsing::lexer::basic_tokenize::{closure#0}")
    rep.analysed(b)
    ends = [bb for bb, t in b.calls() if callee_def(t).endswith("lexer::skip_tag") and any((const_of(b, a) or {}).get("s") == "endraw" for a in t["args"])]
    raws = {bb for bb, idx, st in find_aggs(b, "parsing::lexer::Token", "RawContent")}
    ok = len(ends) == 1 and bool(raws)
    why = "anchors: skip_tag(.., \"endraw\", ..) call / RawContent construction (found %d / %d)" % (len(ends), len(raws))
    if ok:
        heads = [h for h, L in b.natural_loops().items() if ends[0] in L]
        se = rrec.ok_edges_of_call(b, crate, ends[0])
        ok = bool(se)
        why = "Some edge of the endraw match not found"
        for sb, tgt in se:
            reach = b.reach_from(tgt, removed_blocks=frozenset(raws))
            # going back to the head of a loop that encloses the match (the main token loop / the scan for endraw) without having built the token
            back = [h for h in heads if h in reach]
            if back:
                ok = False
                why = "after `endraw` was matched the tokenizer can continue its loop (head at %s) without emitting the RawContent token" % b.where(back[0])
    rep.add("C08.TEXT", "C08.TEXT:raw-block-always-a-token", ok, b.where(ends[0]) if ends else b.where(0), "once `{% endraw %}` is matched, every path returns (the RawContent token or an "
            "error): an empty raw block still stands between its neighbours for whitespace control" + ("" if ok else " — VIOLATED: " + why))


def check_trim(crate, rep, cfg):
    body, flag_up = find_ws_closure(crate)
    rep.analysed(body)
    flag_str = pl_str(flag_up["pl"])
    runner, token_switches = trim_typestate(body, flag_str, rep)
    # the switch that dispatches on the item returned by Iterator::next (not by peek): the one whose place derives
    # from the `next` call's destination
    next_calls = [t for _, t in find_calls(body, ["std::iter::Iterator::next"])]
    next_dests = {pl_str(t["dest"]) for t in next_calls}
    arms = [(bb, tgt, f) for (bb, tgt, f) in token_switches if any(f[2].startswith(d + "as:") or f[2].startswith(d) for d in next_dests)]
    rep.floor("C08.TRIM", "token arms of the filter's dispatch on the consumed item [%s]" % cfg, len(arms), 5)
    for bb, tgt, f in arms:
        names = "|".join(sorted(f[3]))
        bad, _ = runner({tgt: frozenset("U")})
        # nested payload tests (VariableEnd(true)) keep going through the same dataflow
        key = "C08.TRIM:%s:arm=%s" % (body.path, names if len(f[3]) <= 8 else "other")
        what = ("every path from the `%s` arm to return consumes (false edge of a branch on it) or overwrites the carried "
                "trim flag %s" % (names if len(f[3]) <= 8 else "other tokens", flag_up["n"]))
        if bad:
            rep.bad("C08.TRIM", key, body.where(tgt),
                    what + " — VIOLATED: return at %s reachable with the flag untouched: a pending '-%%}' trim would skip over "
                    "this token and strip text that is not adjacent" % ", ".join(body.where(b) for b in bad))
        else:
            rep.ok("C08.TRIM", key, body.where(tgt), what)
    # whole closure from entry (covers the None / Err paths too)
    bad, _ = runner({0: frozenset("U")})
    key = "C08.TRIM:%s:entry" % body.path
    if bad:
        rep.bad("C08.TRIM", key, body.where(0), "a return is reachable from the closure entry with the trim flag neither consumed nor "
                "overwritten (at %s)" % ", ".join(body.where(b) for b in bad))
    else:
        rep.ok("C08.TRIM", key, body.where(0), "no path from entry to return leaves the trim flag untouched")

    # PEEK: look-ahead pattern
    peeks = list(find_calls(body, ["std::iter::Peekable::<I>::peek"]))
    rep.floor("C08.PEEK", "look-ahead (peek) sites in the whitespace filter [%s]" % cfg, len(peeks), 2)
    tok = crate.adts.get("parsing::lexer::Token")
    if tok is None:
        rep.anchor_missing("C08.PEEK", "enum parsing::lexer::Token")
        return
    lead_bool = {v["name"] for v in tok.variants if v["fields"] and v["fields"][0]["ty"] == "bool"}
    # leading-bool variants that are not start markers, one reason each
    not_start = {"Bool": "boolean literal token", "VariableEnd": "end marker: sets the carried flag (C08.TRIM)",
                 "TagEnd": "end marker: sets the carried flag (C08.TRIM)"}
    start_like = {n for n in lead_bool if n not in not_start}
    key = "C08.PEEK:token-table"
    if start_like != START_TRIM_TOKENS:
        rep.bad("C08.PEEK", key, tok.j.get("file", ""), "Token variants with a leading start-trim bool are %s, reviewed table is %s: "
                "review the look-ahead pattern and update the table" % (sorted(start_like), sorted(START_TRIM_TOKENS)))
    else:
        rep.ok("C08.PEEK", key, "%s:%s" % (tok.j.get("file"), tok.j.get("line")),
               "Token variants carrying a start-trim bool = %s" % sorted(start_like))
    # every arm that hands on literal text (Content, RawContent) does the look-ahead: its own region contains a peek site
    TEXT_TOKENS = {"Content", "RawContent"}
    have = {v["name"] for v in tok.variants}
    if not TEXT_TOKENS <= have:
        rep.anchor_missing("C08.PEEK", "Token::{Content,RawContent}")
    peek_blocks = {pbb for pbb, pt in peeks}
    for bb, tgt, f in arms:
        for v in sorted(set(f[3]) & TEXT_TOKENS):
            if len(f[3]) > 2:
                continue
            region = body.reach_from(tgt, removed_blocks=frozenset([bb]))
            has = any(body.dominates(tgt, pb) and pb in region for pb in peek_blocks)
            rep.add("C08.PEEK", "C08.PEEK:%s:text-arm-looks-ahead:%s" % (body.path, v), has, body.where(tgt), "the `%s` arm of the whitespace filter looks at the next token "
                    "(peek) so that a following start marker with `-` trims the end of this text" % v + ("" if has else " — VIOLATED: a `-` on the tag after this text has no effect"))
    ef = EdgeFacts(body, crate)
    for n, (pbb, pt) in enumerate(peeks):
        dest = pl_str(pt["dest"])
        region = body.dominated_by(pt["t"]) if pt["t"] is not None else set()
        covered = set()
        for bb in sorted(region):
            t = body.term(bb)
            if t["k"] != "switch":
                continue
            for tgt, facts in ef.facts_for_switch(bb).items():
                for f in facts:
                    if f[0] == "variant" and f[1].endswith("lexer::Token") and f[4] and len(f[3]) == 1:
                        v = next(iter(f[3]))
                        # the arm must test the leading bool of that variant and its true edge must reach a trim_end call
                        tt = body.term(tgt)
                        if tt["k"] == "switch" and tt["op"]["k"] in ("copy", "move") and pl_str(tt["op"]["pl"]).endswith("as:%s.0" % v):
                            true_tgt = tt["otherwise"]
                            reach = body.reach_from(true_tgt)
                            if any(True for _ in find_calls(body, ["core::str::<impl str>::trim_end"], blocks=sorted(reach & region))):
                                covered.add(v)
        key = "C08.PEEK:%s:peek#%d" % (body.path, n)
        missing = START_TRIM_TOKENS - covered
        what = "the look-ahead after a text token trims its end when the next token is any of %s with its start-trim bool set" % sorted(START_TRIM_TOKENS)
        if missing:
            rep.bad("C08.PEEK", key, body.where(pbb), what + " — VIOLATED: no `<variant>(true, ..) => trim_end` arm for %s" % sorted(missing))
        else:
            rep.ok("C08.PEEK", key, body.where(pbb), what)


TEXT_TRANSPARENT = set(TRANSPARENT_CALLS) | {
    "core::str::<impl str>::trim_start", "core::str::<impl str>::trim_end",
}


def leaf_ok_text(leaf, body, stage):
    k, d, projs = leaf
    if k == "const":
        # only the empty string (comment replacement)
        return d[1] == "" and "str" in (d[0] or "")
    if k == "param":
        return True
    if k == "call":
        if leaf_call_is(leaf, "core::str::<impl str>::split_at"):
            return True
        if leaf_call_is(leaf, "std::iter::Iterator::next"):
            return any(p in ("as:Content", "as:RawContent") for p in projs)
        if leaf_call_is(leaf, "next", "next_or_error") and "Parser" in d[0]:
            return any(p == "as:Content" for p in projs)
        return False
    if k == "cycle":
        return True   # loop-carried reuse of the same local: other defs decide
    return False


def check_text(crate, rep, cfg):
    sites = []
    for b in crate.in_files("parsing/lexer.rs"):
        for bb, idx, s in find_aggs(b, "parsing::lexer::Token", "Content"):
            sites.append(("Token::Content", b, bb, idx, s))
    for b in crate.in_files("parsing/parser.rs"):
        for bb, idx, s in find_aggs(b, "parsing::ast::Node", "Content"):
            sites.append(("Node::Content", b, bb, idx, s))
    for b in crate.in_files("parsing/compiler.rs"):
        for bb, idx, s in find_aggs(b, "parsing::instructions::Instruction", "WriteText"):
            sites.append(("Instruction::WriteText", b, bb, idx, s))
    counts = {}
    for kind, b, bb, idx, s in sites:
        counts[kind] = counts.get(kind, 0) + 1
    rep.floor("C08.TEXT", "Token::Content constructions [%s]" % cfg, counts.get("Token::Content", 0), 4)
    rep.floor("C08.TEXT", "Node::Content constructions [%s]" % cfg, counts.get("Node::Content", 0), 1)
    rep.floor("C08.TEXT", "Instruction::WriteText constructions [%s]" % cfg, counts.get("Instruction::WriteText", 0), 1)
    ordn = {}
    for kind, b, bb, idx, s in sites:
        rep.analysed(b)
        tr = Tracer(b, transparent=TEXT_TRANSPARENT)
        leaves = tr.operand(s["rv"]["ops"][0])
        badl = [l for l in leaves if not leaf_ok_text(l, b, kind)]
        n = ordn.get((kind, b.path), 0)
        ordn[(kind, b.path)] = n + 1
        key = "C08.TEXT:%s:%s#%d" % (b.path, kind, n)
        what = ("payload of %s derives from the previous stage's text through identity/to_owned/trim_start/trim_end/"
                "split_at only (or the empty constant)" % kind)
        if badl:
            rep.bad("C08.TEXT", key, b.where(bb, idx), what + " — VIOLATED: origin(s) %s" % ", ".join(sorted(leaf_str(l) for l in badl))[:400])
        else:
            rep.ok("C08.TEXT", key, b.where(bb, idx), what, {"origins": sorted(leaf_str(l) for l in leaves)[:6]})
