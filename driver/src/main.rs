// tvdriver: rustc_private fact extractor for the tera static checks.
// It is a *dump*: no rule lives here. One JSON file per analysed crate, one write.
//
// Invoked by cargo as RUSTC_WORKSPACE_WRAPPER: argv = [tvdriver, /path/to/rustc, args...].
// Env: TV_OUT = output directory (required for dumping), TV_CRATES = comma list of crate
// names to dump (default "tera,tera_contrib,posctl"), TV_TAG = tag put in the file name.
#![feature(rustc_private)]
#![allow(clippy::all)]

extern crate rustc_abi;
extern crate rustc_data_structures;
extern crate rustc_driver;
extern crate rustc_hir;
extern crate rustc_infer;
extern crate rustc_interface;
extern crate rustc_middle;
extern crate rustc_session;
extern crate rustc_span;
extern crate rustc_trait_selection;

use rustc_driver::{Callbacks, Compilation};
use rustc_hir::def::DefKind;
use rustc_hir::def_id::{DefId, LocalDefId};
use rustc_hir::LangItem;
use rustc_infer::infer::TyCtxtInferExt;
use rustc_interface::interface::Compiler;
use rustc_middle::mir::{self, *};
use rustc_middle::ty::print::{with_no_trimmed_paths, with_forced_trimmed_paths};
use rustc_middle::ty::{self, GenericArgsRef, Ty, TyCtxt, TypingEnv};
use rustc_span::{ExpnKind, Span};
use rustc_trait_selection::infer::InferCtxtExt;
use std::collections::{BTreeMap, BTreeSet, HashMap, HashSet};
use std::fmt::Write as _;

// ---------------------------------------------------------------- JSON helpers

fn jstr(out: &mut String, s: &str) {
    out.push('"');
    for c in s.chars() {
        match c {
            '"' => out.push_str("\\\""),
            '\\' => out.push_str("\\\\"),
            '\n' => out.push_str("\\n"),
            '\r' => out.push_str("\\r"),
            '\t' => out.push_str("\\t"),
            c if (c as u32) < 0x20 => {
                let _ = write!(out, "\\u{:04x}", c as u32);
            }
            c => out.push(c),
        }
    }
    out.push('"');
}

fn js(s: &str) -> String {
    let mut o = String::new();
    jstr(&mut o, s);
    o
}

fn jlist(items: &[String]) -> String {
    let mut o = String::from("[");
    for (i, it) in items.iter().enumerate() {
        if i > 0 {
            o.push(',');
        }
        o.push_str(it);
    }
    o.push(']');
    o
}

fn jobj(items: &[(&str, String)]) -> String {
    let mut o = String::from("{");
    for (i, (k, v)) in items.iter().enumerate() {
        if i > 0 {
            o.push(',');
        }
        jstr(&mut o, k);
        o.push(':');
        o.push_str(v);
    }
    o.push('}');
    o
}

fn jbool(b: bool) -> String {
    if b { "true".into() } else { "false".into() }
}

fn jopt(o: Option<String>) -> String {
    o.unwrap_or_else(|| "null".into())
}

// ---------------------------------------------------------------- dumper

struct Dumper<'tcx> {
    tcx: TyCtxt<'tcx>,
    adts: HashSet<DefId>,
    tystr_cache: HashMap<Ty<'tcx>, String>,
}

impl<'tcx> Dumper<'tcx> {
    fn ty_s(&mut self, ty: Ty<'tcx>) -> String {
        if let Some(s) = self.tystr_cache.get(&ty) {
            return s.clone();
        }
        self.note_adts(ty, 0);
        let s = with_no_trimmed_paths!(ty.to_string());
        self.tystr_cache.insert(ty, s.clone());
        s
    }

    fn note_adts(&mut self, ty: Ty<'tcx>, depth: usize) {
        if depth > 4 {
            return;
        }
        match ty.kind() {
            ty::Adt(def, args) => {
                self.adts.insert(def.did());
                for a in args.iter() {
                    if let Some(t) = a.as_type() {
                        self.note_adts(t, depth + 1);
                    }
                }
            }
            ty::Ref(_, t, _) | ty::Slice(t) | ty::Array(t, _) => self.note_adts(*t, depth + 1),
            ty::RawPtr(t, _) => self.note_adts(*t, depth + 1),
            ty::Tuple(ts) => {
                for t in ts.iter() {
                    self.note_adts(t, depth + 1);
                }
            }
            _ => {}
        }
    }

    fn path(&self, did: DefId) -> String {
        with_no_trimmed_paths!(self.tcx.def_path_str(did))
    }

    fn path_args(&self, did: DefId, args: GenericArgsRef<'tcx>) -> String {
        with_no_trimmed_paths!(self.tcx.def_path_str_with_args(did, args))
    }

    fn loc(&self, span: Span) -> (String, usize, usize) {
        let sm = self.tcx.sess.source_map();
        let sp = span.source_callsite();
        let lo = sm.lookup_char_pos(sp.lo());
        let name = match &lo.file.name {
            rustc_span::FileName::Real(r) => {
                if let Some(p) = r.local_path() {
                    p.to_string_lossy().into_owned()
                } else {
                    format!("{:?}", r)
                }
            }
            other => format!("{:?}", other),
        };
        (name, lo.line, lo.col.0 + 1)
    }

    fn span_j(&self, span: Span) -> String {
        let (_, line, col) = self.loc(span);
        let mut items = vec![("l", line.to_string()), ("c", col.to_string())];
        if span.from_expansion() {
            let ed = span.ctxt().outer_expn_data();
            let (kind, name) = match ed.kind {
                ExpnKind::Macro(_, name) => ("macro", name.to_string()),
                ExpnKind::Desugaring(d) => ("desugar", format!("{:?}", d)),
                ExpnKind::AstPass(p) => ("astpass", format!("{:?}", p)),
                ExpnKind::Root => ("root", String::new()),
            };
            let local = ed.macro_def_id.map(|d| d.is_local()).unwrap_or(false);
            items.push(("x", js(&format!("{}:{}:{}", kind, name, if local { "local" } else { "ext" }))));
        }
        jobj(&items)
    }

    fn place_j(&mut self, body: &Body<'tcx>, place: Place<'tcx>) -> String {
        let tcx = self.tcx;
        let mut projs: Vec<String> = Vec::new();
        let mut pty = mir::PlaceTy::from_ty(body.local_decls[place.local].ty);
        for elem in place.projection.iter() {
            match elem {
                ProjectionElem::Deref => {
                    let raw = pty.ty.is_raw_ptr();
                    projs.push(if raw { js("rawderef") } else { js("deref") });
                }
                ProjectionElem::Field(f, fty) => {
                    let mut name = format!("{}", f.index());
                    let mut owner = String::new();
                    if let ty::Adt(def, _) = pty.ty.kind() {
                        let vidx = pty.variant_index.unwrap_or(rustc_abi::FIRST_VARIANT);
                        if vidx.index() < def.variants().len() {
                            let v = def.variant(vidx);
                            if f.index() < v.fields.len() {
                                name = v.fields[f].name.to_string();
                            }
                        }
                        self.adts.insert(def.did());
                        owner = self.path(def.did());
                    }
                    let fts = self.ty_s(fty);
                    projs.push(jobj(&[
                        ("f", f.index().to_string()),
                        ("n", js(&name)),
                        ("o", js(&owner)),
                        ("t", js(&fts)),
                    ]));
                }
                ProjectionElem::Index(l) => projs.push(jobj(&[("idx", l.index().to_string())])),
                ProjectionElem::ConstantIndex { offset, from_end, .. } => projs.push(jobj(&[
                    ("cidx", offset.to_string()),
                    ("from_end", jbool(from_end)),
                ])),
                ProjectionElem::Subslice { from, to, from_end } => projs.push(jobj(&[
                    ("sub", format!("[{},{}]", from, to)),
                    ("from_end", jbool(from_end)),
                ])),
                ProjectionElem::Downcast(sym, vidx) => {
                    let name = match sym {
                        Some(s) => s.to_string(),
                        None => format!("{}", vidx.index()),
                    };
                    projs.push(jobj(&[("dc", js(&name)), ("v", vidx.index().to_string())]));
                }
                ProjectionElem::OpaqueCast(_) => projs.push(js("opaque")),
                ProjectionElem::UnwrapUnsafeBinder(_) => projs.push(js("unbinder")),
            }
            pty = pty.projection_ty(tcx, elem);
        }
        jobj(&[("l", place.local.index().to_string()), ("p", jlist(&projs))])
    }

    fn const_j(&mut self, owner: LocalDefId, c: &ConstOperand<'tcx>) -> String {
        let tcx = self.tcx;
        let ty = c.const_.ty();
        let tys = self.ty_s(ty);
        let mut items: Vec<(&str, String)> = vec![("k", js("const")), ("ty", js(&tys))];
        match ty.kind() {
            ty::FnDef(did, args) => {
                items.push(("fn", js(&self.path(*did))));
                items.push(("fn_inst", js(&self.path_args(*did, args))));
                items.push(("fn_local", jbool(did.is_local())));
            }
            _ => {}
        }
        if let Const::Unevaluated(uv, _) = c.const_ {
            items.push(("cdef", js(&self.path(uv.def))));
            if let Some(pidx) = uv.promoted {
                items.push(("promoted", jbool(true)));
                // which named constants the promoted expression mentions (e.g. `&general_purpose::STANDARD`)
                if uv.def.is_local() {
                    let pm = tcx.promoted_mir(uv.def);
                    if pidx.index() < pm.len() {
                        let mut srcs: Vec<String> = Vec::new();
                        let mut aggs: Vec<String> = Vec::new();
                        for bbd in pm[pidx].basic_blocks.iter() {
                            for st in bbd.statements.iter() {
                                if let StatementKind::Assign(b) = &st.kind {
                                    let mut ops: Vec<&Operand<'tcx>> = Vec::new();
                                    match &b.1 {
                                        Rvalue::Use(o, ..) => ops.push(o),
                                        Rvalue::Aggregate(k, os) => {
                                            if let AggregateKind::Adt(adid, vidx, ..) = &**k {
                                                let v = tcx.adt_def(*adid).variant(*vidx);
                                                aggs.push(js(&format!("{}::{}", self.path(*adid), v.name)));
                                            }
                                            for o in os.iter() {
                                                ops.push(o);
                                            }
                                        }
                                        _ => {}
                                    }
                                    for o in ops {
                                        if let Operand::Constant(cc) = o {
                                            if let Const::Unevaluated(u2, _) = cc.const_ {
                                                if u2.promoted.is_none() {
                                                    srcs.push(js(&self.path(u2.def)));
                                                }
                                            }
                                        }
                                    }
                                }
                            }
                        }
                        items.push(("psrc", jlist(&srcs)));
                        items.push(("pagg", jlist(&aggs)));
                    }
                }
            }
        }
        if let Const::Val(ConstValue::Scalar(mir::interpret::Scalar::Ptr(ptr, _)), _) = c.const_ {
            let (prov, _off) = ptr.into_raw_parts();
            if let Some(mir::interpret::GlobalAlloc::Static(sdid)) = tcx.try_get_global_alloc(prov.alloc_id()) {
                items.push(("static", js(&self.path(sdid))));
            }
        }
        let tenv = TypingEnv::post_analysis(tcx, owner);
        let is_scalar = ty.is_integral() || ty.is_bool() || ty.is_char() || ty.is_floating_point();
        if is_scalar {
            if let Some(si) = c.const_.try_eval_scalar_int(tcx, tenv) {
                let size = si.size();
                let bits = si.to_bits(size);
                let v = if ty.is_signed() {
                    let sh = 128 - size.bits();
                    (((bits as i128) << sh) >> sh).to_string()
                } else {
                    bits.to_string()
                };
                items.push(("v", js(&v)));
            }
        } else if let ty::Ref(_, inner, _) = ty.kind() {
            if inner.is_str() || matches!(inner.kind(), ty::Slice(t) if *t == tcx.types.u8) {
                // literals in expressions are Const::Val; literals coming from match patterns are type-level constants (valtrees)
                let cvo = match c.const_ {
                    Const::Val(cv, _) => Some(cv),
                    _ => c.const_.eval(tcx, tenv, rustc_span::DUMMY_SP).ok(),
                };
                if let Some(cv) = cvo {
                    if let Some(bytes) = cv.try_get_slice_bytes_for_diagnostics(tcx) {
                        items.push(("s", js(&String::from_utf8_lossy(bytes))));
                    }
                }
            } else if let ty::Adt(..) = inner.kind() {
                // reference to a plain-data constant (e.g. &percent_encoding::AsciiSet): dump the pointee's bytes
                if let Ok(ConstValue::Scalar(mir::interpret::Scalar::Ptr(ptr, _))) = c.const_.eval(tcx, tenv, rustc_span::DUMMY_SP) {
                    let (prov, off) = ptr.into_raw_parts();
                    if let Some(mir::interpret::GlobalAlloc::Memory(m)) = tcx.try_get_global_alloc(prov.alloc_id()) {
                        let a = m.inner();
                        let start = off.bytes() as usize;
                        if start <= a.len() && a.len() - start <= 1024 && a.provenance().ptrs().is_empty() {
                            let bytes = a.inspect_with_uninit_and_ptr_outside_interpreter(start..a.len());
                            let hex: String = bytes.iter().map(|b| format!("{:02x}", b)).collect();
                            items.push(("pb", js(&hex)));
                        }
                    }
                }
            } else if matches!(inner.kind(), ty::Ref(_, i2, _) if i2.is_str()) {
                // `&&str` (a promoted `&"literal"`, as produced by `x == "literal"` on a &String): follow the fat pointer
                if let Ok(ConstValue::Scalar(mir::interpret::Scalar::Ptr(ptr, _))) = c.const_.eval(tcx, tenv, rustc_span::DUMMY_SP) {
                    let (prov, off) = ptr.into_raw_parts();
                    if let Some(mir::interpret::GlobalAlloc::Memory(m)) = tcx.try_get_global_alloc(prov.alloc_id()) {
                        let a = m.inner();
                        let start = off.bytes() as usize;
                        let ps = tcx.data_layout.pointer_size().bytes() as usize;
                        if start + 2 * ps <= a.len() {
                            let raw = a.inspect_with_uninit_and_ptr_outside_interpreter(start..start + 2 * ps);
                            let mut toff: usize = 0;
                            let mut tlen: usize = 0;
                            for i in 0..ps {
                                toff |= (raw[i] as usize) << (8 * i);
                                tlen |= (raw[ps + i] as usize) << (8 * i);
                            }
                            for (o, p2) in a.provenance().ptrs().iter() {
                                if o.bytes() as usize == start {
                                    if let Some(mir::interpret::GlobalAlloc::Memory(m2)) = tcx.try_get_global_alloc(p2.alloc_id()) {
                                        let a2 = m2.inner();
                                        if toff + tlen <= a2.len() && tlen <= 4096 {
                                            let bytes = a2.inspect_with_uninit_and_ptr_outside_interpreter(toff..toff + tlen);
                                            items.push(("s", js(&String::from_utf8_lossy(bytes))));
                                        }
                                    }
                                }
                            }
                        }
                    }
                }
            } else if inner.is_integral() || inner.is_bool() {
                // reference to a scalar (promoted `&0u8` etc.): the pointee's value
                if let Ok(ConstValue::Scalar(mir::interpret::Scalar::Ptr(ptr, _))) = c.const_.eval(tcx, tenv, rustc_span::DUMMY_SP) {
                    let (prov, off) = ptr.into_raw_parts();
                    if let Some(mir::interpret::GlobalAlloc::Memory(m)) = tcx.try_get_global_alloc(prov.alloc_id()) {
                        let a = m.inner();
                        let start = off.bytes() as usize;
                        if start <= a.len() && a.len() - start <= 16 && a.provenance().ptrs().is_empty() {
                            let bytes = a.inspect_with_uninit_and_ptr_outside_interpreter(start..a.len());
                            let mut v: u128 = 0;
                            for (i, b) in bytes.iter().enumerate() {
                                v |= (*b as u128) << (8 * i);
                            }
                            items.push(("pv", js(&v.to_string())));
                        }
                    }
                }
            } else if let ty::Array(elem, len) = inner.kind() {
                // byte string literals: &[u8; N]
                if *elem == tcx.types.u8 {
                    if let Some(n) = len.try_to_target_usize(tcx) {
                        if let Ok(ConstValue::Scalar(mir::interpret::Scalar::Ptr(ptr, _))) =
                            c.const_.eval(tcx, tenv, rustc_span::DUMMY_SP)
                        {
                            let (prov, off) = ptr.into_raw_parts();
                            if let Some(mir::interpret::GlobalAlloc::Memory(m)) = tcx.try_get_global_alloc(prov.alloc_id()) {
                                let a = m.inner();
                                let start = off.bytes() as usize;
                                let end = start + n as usize;
                                if end <= a.len() && n <= 4096 {
                                    let bytes = a.inspect_with_uninit_and_ptr_outside_interpreter(start..end);
                                    items.push(("s", js(&String::from_utf8_lossy(bytes))));
                                }
                            }
                        }
                    }
                }
            }
        }
        if let (ty::Adt(..), Const::Unevaluated(uv, _)) = (ty.kind(), c.const_) {
            // a named plain-data constant used by value (e.g. `let e = general_purpose::STANDARD;`): dump its bytes like the by-reference case
            if uv.promoted.is_none() {
                if let Ok(ConstValue::Indirect { alloc_id, offset }) = c.const_.eval(tcx, tenv, rustc_span::DUMMY_SP) {
                    if let Some(mir::interpret::GlobalAlloc::Memory(m)) = tcx.try_get_global_alloc(alloc_id) {
                        let a = m.inner();
                        let start = offset.bytes() as usize;
                        if start <= a.len() && a.len() - start <= 1024 && a.provenance().ptrs().is_empty() {
                            let bytes = a.inspect_with_uninit_and_ptr_outside_interpreter(start..a.len());
                            let hex: String = bytes.iter().map(|b| format!("{:02x}", b)).collect();
                            items.push(("pb", js(&hex)));
                        }
                    }
                }
            }
        }
        jobj(&items)
    }

    fn operand_j(&mut self, owner: LocalDefId, body: &Body<'tcx>, op: &Operand<'tcx>) -> String {
        match op {
            Operand::Copy(p) => {
                let pj = self.place_j(body, *p);
                jobj(&[("k", js("copy")), ("pl", pj)])
            }
            Operand::Move(p) => {
                let pj = self.place_j(body, *p);
                jobj(&[("k", js("move")), ("pl", pj)])
            }
            Operand::Constant(c) => self.const_j(owner, c),
            #[allow(unreachable_patterns)]
            _ => jobj(&[("k", js("other"))]),
        }
    }

    fn operand_ty(&self, body: &Body<'tcx>, op: &Operand<'tcx>) -> Ty<'tcx> {
        op.ty(&body.local_decls, self.tcx)
    }

    fn rvalue_j(&mut self, owner: LocalDefId, body: &Body<'tcx>, rv: &Rvalue<'tcx>) -> String {
        let tcx = self.tcx;
        match rv {
            Rvalue::Use(op, ..) => {
                let o = self.operand_j(owner, body, op);
                jobj(&[("k", js("use")), ("op", o)])
            }
            Rvalue::Repeat(op, _) => {
                let o = self.operand_j(owner, body, op);
                jobj(&[("k", js("repeat")), ("op", o)])
            }
            Rvalue::Ref(_, bk, p) => {
                let kind = match bk {
                    BorrowKind::Shared => "shared",
                    BorrowKind::Fake(_) => "fake",
                    BorrowKind::Mut { .. } => "mut",
                };
                let pj = self.place_j(body, *p);
                jobj(&[("k", js("ref")), ("bk", js(kind)), ("pl", pj)])
            }
            Rvalue::ThreadLocalRef(d) => jobj(&[("k", js("tls")), ("def", js(&self.path(*d)))]),
            Rvalue::RawPtr(kind, p) => {
                let pj = self.place_j(body, *p);
                jobj(&[("k", js("rawptr")), ("pk", js(&format!("{:?}", kind))), ("pl", pj)])
            }
            Rvalue::Cast(ck, op, to) => {
                let from = self.operand_ty(body, op);
                let o = self.operand_j(owner, body, op);
                let f = self.ty_s(from);
                let t = self.ty_s(*to);
                jobj(&[
                    ("k", js("cast")),
                    ("ck", js(&format!("{:?}", ck))),
                    ("op", o),
                    ("from", js(&f)),
                    ("to", js(&t)),
                ])
            }
            Rvalue::BinaryOp(bop, ops) => {
                let (l, r) = &**ops;
                let lt = self.operand_ty(body, l);
                let rt = self.operand_ty(body, r);
                let lj = self.operand_j(owner, body, l);
                let rj = self.operand_j(owner, body, r);
                let lts = self.ty_s(lt);
                let rts = self.ty_s(rt);
                jobj(&[
                    ("k", js("bin")),
                    ("op", js(&format!("{:?}", bop))),
                    ("l", lj),
                    ("r", rj),
                    ("lty", js(&lts)),
                    ("rty", js(&rts)),
                ])
            }
            Rvalue::UnaryOp(uop, op) => {
                let t = self.operand_ty(body, op);
                let o = self.operand_j(owner, body, op);
                let ts = self.ty_s(t);
                jobj(&[("k", js("un")), ("op", js(&format!("{:?}", uop))), ("a", o), ("ty", js(&ts))])
            }
            Rvalue::Discriminant(p) => {
                let pty = p.ty(&body.local_decls, tcx).ty;
                let pj = self.place_j(body, *p);
                let ts = self.ty_s(pty);
                let adt = match pty.kind() {
                    ty::Adt(d, _) => {
                        self.adts.insert(d.did());
                        self.path(d.did())
                    }
                    _ => String::new(),
                };
                jobj(&[("k", js("discr")), ("pl", pj), ("ty", js(&ts)), ("adt", js(&adt))])
            }
            Rvalue::Aggregate(kind, ops) => {
                let mut opsj = Vec::new();
                for o in ops.iter() {
                    opsj.push(self.operand_j(owner, body, o));
                }
                let mut items: Vec<(&str, String)> = vec![("k", js("agg"))];
                match &**kind {
                    AggregateKind::Array(t) => {
                        let ts = self.ty_s(*t);
                        items.push(("ak", js("array")));
                        items.push(("ty", js(&ts)));
                    }
                    AggregateKind::Tuple => items.push(("ak", js("tuple"))),
                    AggregateKind::Adt(did, vidx, args, _, active) => {
                        self.adts.insert(*did);
                        let def = tcx.adt_def(*did);
                        let v = def.variant(*vidx);
                        items.push(("ak", js("adt")));
                        items.push(("adt", js(&self.path(*did))));
                        items.push(("adt_inst", js(&self.path_args(*did, args))));
                        items.push(("variant", js(&v.name.to_string())));
                        items.push(("vidx", vidx.index().to_string()));
                        let fnames: Vec<String> = if let Some(a) = active {
                            vec![js(&v.fields[*a].name.to_string())]
                        } else {
                            v.fields.iter().map(|f| js(&f.name.to_string())).collect()
                        };
                        items.push(("fields", jlist(&fnames)));
                    }
                    AggregateKind::Closure(did, _) => {
                        items.push(("ak", js("closure")));
                        items.push(("def", js(&self.path(*did))));
                    }
                    AggregateKind::Coroutine(did, _) | AggregateKind::CoroutineClosure(did, _) => {
                        items.push(("ak", js("coroutine")));
                        items.push(("def", js(&self.path(*did))));
                    }
                    AggregateKind::RawPtr(t, _) => {
                        let ts = self.ty_s(*t);
                        items.push(("ak", js("rawptr")));
                        items.push(("ty", js(&ts)));
                    }
                }
                items.push(("ops", jlist(&opsj)));
                jobj(&items)
            }
            Rvalue::CopyForDeref(p) => {
                let pj = self.place_j(body, *p);
                jobj(&[("k", js("use")), ("op", jobj(&[("k", js("copy")), ("pl", pj)])), ("cfd", jbool(true))])
            }
            Rvalue::WrapUnsafeBinder(op, _) => {
                let o = self.operand_j(owner, body, op);
                jobj(&[("k", js("use")), ("op", o)])
            }
        }
    }

    fn callee_j(
        &mut self,
        owner: LocalDefId,
        body: &Body<'tcx>,
        func: &Operand<'tcx>,
    ) -> String {
        let tcx = self.tcx;
        let fty = self.operand_ty(body, func);
        match fty.kind() {
            ty::FnDef(did, args) => {
                let mut items: Vec<(&str, String)> = vec![
                    ("def", js(&self.path(*did))),
                    ("inst", js(&self.path_args(*did, args))),
                    ("local", jbool(did.is_local())),
                ];
                let sig = tcx.fn_sig(*did).skip_binder().skip_binder();
                items.push(("unsafe", jbool(sig.safety().is_unsafe())));
                if let Some(tr) = tcx.trait_of_assoc(*did) {
                    items.push(("trait", js(&self.path(tr))));
                    if args.len() > 0 {
                        if let Some(st) = args[0].as_type() {
                            let s = self.ty_s(st);
                            items.push(("self_ty", js(&s)));
                        }
                    }
                }
                if let Some(im) = tcx.impl_of_assoc(*did) {
                    let st = tcx.type_of(im).instantiate_identity().skip_norm_wip();
                    let s = self.ty_s(st);
                    items.push(("impl_self", js(&s)));
                }
                let mut targs = Vec::new();
                for a in args.iter() {
                    if let Some(t) = a.as_type() {
                        let s = self.ty_s(t);
                        targs.push(js(&s));
                    }
                }
                items.push(("targs", jlist(&targs)));
                let tenv = TypingEnv::post_analysis(tcx, owner);
                let has_infer = args.iter().any(|a| format!("{:?}", a).contains("?"));
                if !has_infer {
                    if let Ok(Some(inst)) = ty::Instance::try_resolve(tcx, tenv, *did, args) {
                        let rdid = inst.def_id();
                        items.push(("res", js(&self.path(rdid))));
                        items.push(("res_inst", js(&self.path_args(rdid, inst.args))));
                        items.push(("res_local", jbool(rdid.is_local())));
                        let ik = match inst.def {
                            ty::InstanceKind::Item(_) => "item",
                            ty::InstanceKind::Virtual(..) => "virtual",
                            ty::InstanceKind::Intrinsic(_) => "intrinsic",
                            ty::InstanceKind::ClosureOnceShim { .. } => "closure_once",
                            ty::InstanceKind::FnPtrShim(..) => "fnptr_shim",
                            ty::InstanceKind::DropGlue(..) => "drop_glue",
                            ty::InstanceKind::CloneShim(..) => "clone_shim",
                            _ => "other",
                        };
                        items.push(("ik", js(ik)));
                        if let Some(im) = tcx.impl_of_assoc(rdid) {
                            let st = tcx.type_of(im).instantiate_identity().skip_norm_wip();
                            let s = self.ty_s(st);
                            items.push(("res_impl_self", js(&s)));
                        }
                    }
                }
                jobj(&items)
            }
            _ => {
                let o = self.operand_j(owner, body, func);
                let s = self.ty_s(fty);
                jobj(&[("indirect", jbool(true)), ("op", o), ("ty", js(&s))])
            }
        }
    }

    fn unwind_j(&self, u: &UnwindAction) -> String {
        match u {
            UnwindAction::Cleanup(bb) => bb.index().to_string(),
            _ => "null".into(),
        }
    }

    fn term_j(&mut self, owner: LocalDefId, body: &Body<'tcx>, term: &Terminator<'tcx>) -> String {
        let sp = self.span_j(term.source_info.span);
        match &term.kind {
            TerminatorKind::Goto { target } => {
                jobj(&[("k", js("goto")), ("t", target.index().to_string()), ("sp", sp)])
            }
            TerminatorKind::SwitchInt { discr, targets } => {
                let dty = self.operand_ty(body, discr);
                let d = self.operand_j(owner, body, discr);
                let mut ts = Vec::new();
                for (v, bb) in targets.iter() {
                    ts.push(format!("[{},{}]", js(&v.to_string()), bb.index()));
                }
                let dts = self.ty_s(dty);
                jobj(&[
                    ("k", js("switch")),
                    ("op", d),
                    ("ty", js(&dts)),
                    ("targets", jlist(&ts)),
                    ("otherwise", targets.otherwise().index().to_string()),
                    ("sp", sp),
                ])
            }
            TerminatorKind::UnwindResume => jobj(&[("k", js("resume"))]),
            TerminatorKind::UnwindTerminate(_) => jobj(&[("k", js("terminate"))]),
            TerminatorKind::Return => jobj(&[("k", js("return")), ("sp", sp)]),
            TerminatorKind::Unreachable => jobj(&[("k", js("unreachable")), ("sp", sp)]),
            TerminatorKind::Drop { place, target, unwind, .. } => {
                let pj = self.place_j(body, *place);
                let pty = place.ty(&body.local_decls, self.tcx).ty;
                let ts = self.ty_s(pty);
                jobj(&[
                    ("k", js("drop")),
                    ("pl", pj),
                    ("ty", js(&ts)),
                    ("t", target.index().to_string()),
                    ("u", self.unwind_j(unwind)),
                    ("sp", sp),
                ])
            }
            TerminatorKind::Call { func, args, destination, target, unwind, fn_span, .. } => {
                let cj = self.callee_j(owner, body, func);
                let mut aj = Vec::new();
                let mut atys = Vec::new();
                for a in args.iter() {
                    aj.push(self.operand_j(owner, body, &a.node));
                    let t = self.operand_ty(body, &a.node);
                    let s = self.ty_s(t);
                    atys.push(js(&s));
                }
                let dj = self.place_j(body, *destination);
                let fsp = self.span_j(*fn_span);
                jobj(&[
                    ("k", js("call")),
                    ("f", cj),
                    ("args", jlist(&aj)),
                    ("atys", jlist(&atys)),
                    ("dest", dj),
                    ("t", jopt(target.map(|t| t.index().to_string()))),
                    ("u", self.unwind_j(unwind)),
                    ("sp", sp),
                    ("fsp", fsp),
                ])
            }
            TerminatorKind::TailCall { func, .. } => {
                let cj = self.callee_j(owner, body, func);
                jobj(&[("k", js("tailcall")), ("f", cj), ("sp", sp)])
            }
            TerminatorKind::Assert { cond, expected, msg, target, unwind } => {
                let c = self.operand_j(owner, body, cond);
                let mut items: Vec<(&str, String)> = vec![
                    ("k", js("assert")),
                    ("cond", c),
                    ("expected", jbool(*expected)),
                    ("t", target.index().to_string()),
                    ("u", self.unwind_j(unwind)),
                    ("sp", sp),
                ];
                match &**msg {
                    AssertKind::BoundsCheck { len, index } => {
                        items.push(("ak", js("BoundsCheck")));
                        let l = self.operand_j(owner, body, len);
                        let i = self.operand_j(owner, body, index);
                        items.push(("len", l));
                        items.push(("index", i));
                    }
                    AssertKind::Overflow(op, l, r) => {
                        items.push(("ak", js("Overflow")));
                        items.push(("bop", js(&format!("{:?}", op))));
                        let lt = self.operand_ty(body, l);
                        let lts = self.ty_s(lt);
                        let lj = self.operand_j(owner, body, l);
                        let rj = self.operand_j(owner, body, r);
                        items.push(("l", lj));
                        items.push(("r", rj));
                        items.push(("lty", js(&lts)));
                    }
                    AssertKind::OverflowNeg(o) => {
                        items.push(("ak", js("OverflowNeg")));
                        let t = self.operand_ty(body, o);
                        let ts = self.ty_s(t);
                        items.push(("lty", js(&ts)));
                    }
                    AssertKind::DivisionByZero(o) => {
                        items.push(("ak", js("DivisionByZero")));
                        let t = self.operand_ty(body, o);
                        let ts = self.ty_s(t);
                        items.push(("lty", js(&ts)));
                    }
                    AssertKind::RemainderByZero(o) => {
                        items.push(("ak", js("RemainderByZero")));
                        let t = self.operand_ty(body, o);
                        let ts = self.ty_s(t);
                        items.push(("lty", js(&ts)));
                    }
                    other => {
                        let name = format!("{:?}", other);
                        let short = name.split(|c: char| !c.is_alphanumeric()).next().unwrap_or("").to_string();
                        items.push(("ak", js(&short)));
                    }
                }
                jobj(&items)
            }
            TerminatorKind::Yield { .. } => jobj(&[("k", js("yield"))]),
            TerminatorKind::CoroutineDrop => jobj(&[("k", js("codrop"))]),
            TerminatorKind::FalseEdge { real_target, .. } => {
                jobj(&[("k", js("goto")), ("t", real_target.index().to_string()), ("sp", sp)])
            }
            TerminatorKind::FalseUnwind { real_target, .. } => {
                jobj(&[("k", js("goto")), ("t", real_target.index().to_string()), ("sp", sp)])
            }
            TerminatorKind::InlineAsm { .. } => jobj(&[("k", js("asm")), ("sp", sp)]),
        }
    }

    fn body_j(&mut self, did: LocalDefId) -> Option<String> {
        let tcx = self.tcx;
        let kind = tcx.def_kind(did);
        let is_const_item = matches!(kind, DefKind::Const { .. } | DefKind::Static { .. });
        let kind_s = match kind {
            DefKind::Fn => "fn",
            DefKind::AssocFn => "assoc_fn",
            DefKind::Closure => "closure",
            _ if is_const_item => "const",
            _ => return None,
        };
        if tcx.is_constructor(did.to_def_id()) {
            return None;
        }
        if is_const_item && tcx.generics_of(did).count() != 0 {
            return None;
        }
        let body: &Body<'tcx> = if is_const_item { tcx.mir_for_ctfe(did) } else { tcx.optimized_mir(did) };
        let (file, line, _) = self.loc(body.span);
        let mut items: Vec<(&str, String)> = vec![
            ("path", js(&self.path(did.to_def_id()))),
            ("kind", js(kind_s)),
            ("file", js(&file)),
            ("line", line.to_string()),
            ("from_exp", jbool(body.span.from_expansion())),
            ("arg_count", body.arg_count.to_string()),
        ];
        if body.span.from_expansion() {
            items.push(("exp", self.span_j(body.span)));
        }
        if matches!(kind, DefKind::Fn | DefKind::AssocFn) {
            let vis = tcx.visibility(did);
            let v = match vis {
                ty::Visibility::Public => "pub".to_string(),
                ty::Visibility::Restricted(m) => {
                    if m.is_top_level_module() {
                        "crate".to_string()
                    } else {
                        format!("in:{}", self.path(m))
                    }
                }
            };
            items.push(("vis", js(&v)));
            let exported = tcx.effective_visibilities(()).is_reachable(did);
            items.push(("exported", jbool(exported)));
            let sig = tcx.fn_sig(did).skip_binder().skip_binder();
            items.push(("unsafe", jbool(sig.safety().is_unsafe())));
            let mut ins = Vec::new();
            for t in sig.inputs().iter() {
                let s = self.ty_s(*t);
                ins.push(js(&s));
            }
            items.push(("inputs", jlist(&ins)));
            let o = self.ty_s(sig.output());
            items.push(("output", js(&o)));
        }
        if kind == DefKind::Closure {
            let parent = tcx.local_parent(did);
            items.push(("parent", js(&self.path(parent.to_def_id()))));
        }
        if kind == DefKind::AssocFn {
            if let Some(im) = tcx.impl_of_assoc(did.to_def_id()) {
                let st = tcx.type_of(im).instantiate_identity().skip_norm_wip();
                let s = self.ty_s(st);
                items.push(("impl_self", js(&s)));
                if let Some(tr) = tcx.impl_opt_trait_ref(im) {
                    let tr = tr.instantiate_identity().skip_norm_wip();
                    items.push(("impl_trait", js(&self.path(tr.def_id))));
                    items.push(("impl_trait_ref", js(&with_no_trimmed_paths!(tr.to_string()))));
                }
            }
        }
        // locals
        let mut names: HashMap<usize, String> = HashMap::new();
        for vdi in body.var_debug_info.iter() {
            if let VarDebugInfoContents::Place(p) = vdi.value {
                if p.projection.is_empty() {
                    names.entry(p.local.index()).or_insert_with(|| vdi.name.to_string());
                } else {
                    // captured upvar: record as "<local>.<projs>" → name
                }
            }
        }
        let mut locals = Vec::new();
        for (l, decl) in body.local_decls.iter_enumerated() {
            let s = self.ty_s(decl.ty);
            let mut it: Vec<(&str, String)> = vec![("ty", js(&s))];
            if let Some(n) = names.get(&l.index()) {
                it.push(("n", js(n)));
            }
            if decl.mutability.is_mut() {
                it.push(("m", jbool(true)));
            }
            locals.push(jobj(&it));
        }
        items.push(("locals", jlist(&locals)));
        // upvar debug names (closures): place strings
        let mut upv = Vec::new();
        for vdi in body.var_debug_info.iter() {
            if let VarDebugInfoContents::Place(p) = vdi.value {
                if !p.projection.is_empty() {
                    let pj = self.place_j(body, p);
                    upv.push(jobj(&[("n", js(&vdi.name.to_string())), ("pl", pj)]));
                }
            }
        }
        items.push(("upvars", jlist(&upv)));
        // blocks
        let mut blocks = Vec::new();
        for (_bb, data) in body.basic_blocks.iter_enumerated() {
            let mut stmts = Vec::new();
            for st in data.statements.iter() {
                match &st.kind {
                    StatementKind::Assign(b) => {
                        let (p, rv) = &**b;
                        let pj = self.place_j(body, *p);
                        let rj = self.rvalue_j(owner_of(did), body, rv);
                        let sp = self.span_j(st.source_info.span);
                        stmts.push(jobj(&[("k", js("assign")), ("pl", pj), ("rv", rj), ("sp", sp)]));
                    }
                    StatementKind::SetDiscriminant { place, variant_index } => {
                        let pj = self.place_j(body, **place);
                        let sp = self.span_j(st.source_info.span);
                        stmts.push(jobj(&[
                            ("k", js("setdiscr")),
                            ("pl", pj),
                            ("v", variant_index.index().to_string()),
                            ("sp", sp),
                        ]));
                    }
                    StatementKind::Intrinsic(i) => {
                        let sp = self.span_j(st.source_info.span);
                        stmts.push(jobj(&[
                            ("k", js("intrinsic")),
                            ("d", js(&format!("{:?}", i).chars().take(40).collect::<String>())),
                            ("sp", sp),
                        ]));
                    }
                    _ => {}
                }
            }
            let term = data.terminator();
            let tj = self.term_j(owner_of(did), body, term);
            blocks.push(jobj(&[
                ("s", jlist(&stmts)),
                ("t", tj),
                ("cleanup", jbool(data.is_cleanup)),
            ]));
        }
        items.push(("blocks", jlist(&blocks)));
        Some(jobj(&items))
    }

    fn adt_j(&mut self, did: DefId) -> String {
        let tcx = self.tcx;
        let def = tcx.adt_def(did);
        let kind = if def.is_enum() {
            "enum"
        } else if def.is_union() {
            "union"
        } else {
            "struct"
        };
        let mut variants = Vec::new();
        for (vidx, v) in def.variants().iter_enumerated() {
            let discr = if def.is_enum() {
                def.discriminant_for_variant(tcx, vidx).val.to_string()
            } else {
                "0".to_string()
            };
            let mut fields = Vec::new();
            for f in v.fields.iter() {
                let fty = tcx.type_of(f.did).instantiate_identity().skip_norm_wip();
                let s = with_no_trimmed_paths!(fty.to_string());
                fields.push(jobj(&[
                    ("n", js(&f.name.to_string())),
                    ("ty", js(&s)),
                    ("pub", jbool(f.vis.is_public())),
                ]));
            }
            variants.push(jobj(&[
                ("name", js(&v.name.to_string())),
                ("idx", vidx.index().to_string()),
                ("discr", js(&discr)),
                ("fields", jlist(&fields)),
            ]));
        }
        let mut items: Vec<(&str, String)> = vec![
            ("path", js(&self.path(did))),
            ("kind", js(kind)),
            ("local", jbool(did.is_local())),
            ("variants", jlist(&variants)),
        ];
        if did.is_local() {
            let (file, line, _) = self.loc(tcx.def_span(did));
            items.push(("file", js(&file)));
            items.push(("line", line.to_string()));
            let exported = tcx.effective_visibilities(()).is_reachable(did.expect_local());
            items.push(("exported", jbool(exported)));
        }
        jobj(&items)
    }

    // ------------------------------------------------ type graph (C18.FREEZE)
    fn type_graph(&mut self, roots: &[(String, Ty<'tcx>)]) -> String {
        let tcx = self.tcx;
        let mut seen: HashMap<Ty<'tcx>, usize> = HashMap::new();
        let mut nodes: Vec<String> = Vec::new();
        let mut work: Vec<Ty<'tcx>> = Vec::new();
        fn id<'tcx>(
            seen: &mut HashMap<Ty<'tcx>, usize>,
            nodes: &mut Vec<String>,
            work: &mut Vec<Ty<'tcx>>,
            t: Ty<'tcx>,
        ) -> usize {
            if let Some(i) = seen.get(&t) {
                return *i;
            }
            let i = nodes.len();
            seen.insert(t, i);
            nodes.push(String::new());
            work.push(t);
            i
        }
        let mut root_ids = Vec::new();
        for (name, t) in roots {
            let i = id(&mut seen, &mut nodes, &mut work, *t);
            root_ids.push(jobj(&[("name", js(name)), ("id", i.to_string())]));
        }
        while let Some(t) = work.pop() {
            let me = seen[&t];
            let tys = with_no_trimmed_paths!(t.to_string());
            let mut items: Vec<(&str, String)> = vec![("ty", js(&tys))];
            if nodes.len() > 20000 {
                items.push(("k", js("truncated")));
                nodes[me] = jobj(&items);
                continue;
            }
            match t.kind() {
                ty::Adt(def, args) => {
                    items.push(("k", js("adt")));
                    items.push(("adt", js(&self.path(def.did()))));
                    items.push(("unsafe_cell", jbool(def.is_unsafe_cell())));
                    items.push(("phantom", jbool(def.is_phantom_data())));
                    let mut targs = Vec::new();
                    for a in args.iter() {
                        if let Some(at) = a.as_type() {
                            targs.push(id(&mut seen, &mut nodes, &mut work, at).to_string());
                        }
                    }
                    items.push(("targs", jlist(&targs)));
                    let mut fields = Vec::new();
                    for v in def.variants().iter() {
                        for f in v.fields.iter() {
                            let fty = f.ty(tcx, args);
                            let fty = tcx
                                .try_normalize_erasing_regions(TypingEnv::fully_monomorphized(), rustc_middle::ty::Unnormalized::new_wip(fty))
                                .unwrap_or(fty);
                            let fid = id(&mut seen, &mut nodes, &mut work, fty);
                            fields.push(jobj(&[
                                ("v", js(&v.name.to_string())),
                                ("n", js(&f.name.to_string())),
                                ("id", fid.to_string()),
                            ]));
                        }
                    }
                    items.push(("fields", jlist(&fields)));
                }
                ty::Ref(_, inner, m) => {
                    items.push(("k", js(if m.is_mut() { "refmut" } else { "ref" })));
                    let c = id(&mut seen, &mut nodes, &mut work, *inner);
                    items.push(("children", jlist(&[c.to_string()])));
                }
                ty::RawPtr(inner, _) => {
                    items.push(("k", js("rawptr")));
                    let c = id(&mut seen, &mut nodes, &mut work, *inner);
                    items.push(("children", jlist(&[c.to_string()])));
                }
                ty::Slice(inner) | ty::Array(inner, _) => {
                    items.push(("k", js("seq")));
                    let c = id(&mut seen, &mut nodes, &mut work, *inner);
                    items.push(("children", jlist(&[c.to_string()])));
                }
                ty::Tuple(ts) => {
                    items.push(("k", js("tuple")));
                    let mut cs = Vec::new();
                    for x in ts.iter() {
                        cs.push(id(&mut seen, &mut nodes, &mut work, x).to_string());
                    }
                    items.push(("children", jlist(&cs)));
                }
                ty::Dynamic(preds, _) => {
                    items.push(("k", js("dyn")));
                    let mut autos = Vec::new();
                    for d in preds.auto_traits() {
                        autos.push(js(&self.path(d)));
                    }
                    items.push(("autos", jlist(&autos)));
                    if let Some(p) = preds.principal_def_id() {
                        items.push(("principal", js(&self.path(p))));
                    }
                }
                ty::FnPtr(..) => items.push(("k", js("fnptr"))),
                ty::Param(_) => items.push(("k", js("param"))),
                ty::Closure(..) => items.push(("k", js("closure"))),
                ty::Alias(..) => items.push(("k", js("alias"))),
                _ => items.push(("k", js("leaf"))),
            }
            nodes[me] = jobj(&items);
        }
        jobj(&[("roots", jlist(&root_ids)), ("nodes", jlist(&nodes))])
    }

    fn auto_traits(&mut self, roots: &[(String, Ty<'tcx>, LocalDefId)]) -> String {
        let tcx = self.tcx;
        let mut out = Vec::new();
        let send = tcx.get_diagnostic_item(rustc_span::sym::Send);
        let sync = tcx.get_diagnostic_item(rustc_span::sym::Sync);
        for (name, ty, did) in roots {
            let infcx = tcx.infer_ctxt().build(ty::TypingMode::non_body_analysis());
            let penv = tcx.param_env(*did);
            let mut items: Vec<(&str, String)> = vec![("name", js(name))];
            for (label, tr) in [("send", send), ("sync", sync)] {
                if let Some(tr) = tr {
                    let r = infcx.type_implements_trait(tr, [*ty], penv);
                    items.push((label, jbool(r.must_apply_modulo_regions())));
                }
            }
            out.push(jobj(&items));
        }
        jlist(&out)
    }

    fn const_items(&mut self) -> String {
        let tcx = self.tcx;
        let mut out = Vec::new();
        for id in tcx.hir_crate_items(()).free_items() {
            let did = id.owner_id.def_id;
            let kind = tcx.def_kind(did);
            let is_const = matches!(kind, DefKind::Const { .. });
            let is_static = matches!(kind, DefKind::Static { .. });
            if !is_const && !is_static {
                continue;
            }
            let generics = tcx.generics_of(did);
            if generics.count() != 0 {
                continue;
            }
            let ty = tcx.type_of(did).instantiate_identity().skip_norm_wip();
            let tys = self.ty_s(ty);
            let (file, line, _) = self.loc(tcx.def_span(did));
            let mut items: Vec<(&str, String)> = vec![
                ("path", js(&self.path(did.to_def_id()))),
                ("kind", js(if is_const { "const" } else { "static" })),
                ("ty", js(&tys)),
                ("file", js(&file)),
                ("line", line.to_string()),
            ];
            if let DefKind::Static { mutability, .. } = kind {
                items.push(("mut", jbool(mutability.is_mut())));
            }
            let freeze = ty.is_freeze(tcx, TypingEnv::fully_monomorphized());
            items.push(("freeze", jbool(freeze)));
            if is_const {
                if let Ok(cv) = tcx.const_eval_poly(did.to_def_id()) {
                    self.constvalue_items(cv, ty, &mut items);
                }
            }
            out.push(jobj(&items));
        }
        jlist(&out)
    }

    fn constvalue_items(&mut self, cv: ConstValue, ty: Ty<'tcx>, items: &mut Vec<(&'static str, String)>) {
        let tcx = self.tcx;
        match cv {
            ConstValue::Scalar(mir::interpret::Scalar::Int(si)) => {
                let size = si.size();
                let bits = si.to_bits(size);
                let v = if ty.is_signed() {
                    let sh = 128 - size.bits();
                    (((bits as i128) << sh) >> sh).to_string()
                } else {
                    bits.to_string()
                };
                items.push(("v", js(&v)));
            }
            ConstValue::Scalar(mir::interpret::Scalar::Ptr(ptr, _)) => {
                let (prov, off) = ptr.into_raw_parts();
                if let Some(ga) = tcx.try_get_global_alloc(prov.alloc_id()) {
                    if let mir::interpret::GlobalAlloc::Memory(m) = ga {
                        let a = m.inner();
                        let len = a.len();
                        let start = off.bytes() as usize;
                        if start <= len && len - start <= 4096 {
                            let bytes = a.inspect_with_uninit_and_ptr_outside_interpreter(start..len);
                            let hex: String = bytes.iter().map(|b| format!("{:02x}", b)).collect();
                            items.push(("ptr_bytes", js(&hex)));
                            items.push(("ptr_has_prov", jbool(!a.provenance().ptrs().is_empty())));
                        }
                    }
                }
            }
            ConstValue::Slice { .. } => {
                if let Some(bytes) = cv.try_get_slice_bytes_for_diagnostics(tcx) {
                    if bytes.len() <= 4096 {
                        items.push(("s", js(&String::from_utf8_lossy(bytes))));
                    }
                }
            }
            ConstValue::Indirect { alloc_id, offset } => {
                if let Some(mir::interpret::GlobalAlloc::Memory(m)) = tcx.try_get_global_alloc(alloc_id) {
                    let a = m.inner();
                    let len = a.len();
                    let start = offset.bytes() as usize;
                    if start <= len && len - start <= 4096 {
                        let bytes = a.inspect_with_uninit_and_ptr_outside_interpreter(start..len);
                        let hex: String = bytes.iter().map(|b| format!("{:02x}", b)).collect();
                        items.push(("bytes", js(&hex)));
                        items.push(("has_prov", jbool(!a.provenance().ptrs().is_empty())));
                    }
                }
            }
            ConstValue::ZeroSized => items.push(("zst", jbool(true))),
        }
    }
}

fn owner_of(did: LocalDefId) -> LocalDefId {
    did
}

fn dump_crate<'tcx>(tcx: TyCtxt<'tcx>, out_dir: &str, tag: &str) {
    let crate_name = tcx.crate_name(rustc_hir::def_id::LOCAL_CRATE).to_string();
    let mut d = Dumper { tcx, adts: HashSet::new(), tystr_cache: HashMap::new() };
    let mut bodies = Vec::new();
    let mut keys: Vec<LocalDefId> = tcx.mir_keys(()).iter().copied().collect();
    keys.sort_by_key(|k| tcx.def_path_hash(k.to_def_id()));
    let mut n_blocks = 0usize;
    for did in keys {
        if let Some(b) = d.body_j(did) {
            if matches!(tcx.def_kind(did), DefKind::Fn | DefKind::AssocFn | DefKind::Closure) {
                n_blocks += tcx.optimized_mir(did).basic_blocks.len();
            }
            bodies.push(b);
        }
    }
    // local ADTs: all of them (also those never touched by MIR)
    let mut local_adts: Vec<LocalDefId> = Vec::new();
    for id in tcx.hir_crate_items(()).definitions() {
        if matches!(tcx.def_kind(id), DefKind::Struct | DefKind::Enum | DefKind::Union) {
            local_adts.push(id);
            d.adts.insert(id.to_def_id());
        }
    }
    // type graph + auto traits for non-generic local ADTs (lifetime params erased)
    let mut roots = Vec::new();
    let mut roots3 = Vec::new();
    for id in &local_adts {
        let g = tcx.generics_of(*id);
        let has_ty_params = g.own_params.iter().any(|p| !matches!(p.kind, ty::GenericParamDefKind::Lifetime));
        let ty = tcx.type_of(*id).instantiate_identity().skip_norm_wip();
        let name = d.path(id.to_def_id());
        if !has_ty_params {
            let ety = tcx.erase_and_anonymize_regions(ty);
            roots.push((name.clone(), ety));
        }
        roots3.push((name, ty, *id));
    }
    let tg = d.type_graph(&roots);
    let at = d.auto_traits(&roots3);
    let consts = d.const_items();
    // trait impls of local types (for R-REC trait-dispatch modelling): impl -> trait, self
    let mut impls = Vec::new();
    for id in tcx.hir_crate_items(()).definitions() {
        if let DefKind::Impl { .. } = tcx.def_kind(id) {
            let st = tcx.type_of(id).instantiate_identity().skip_norm_wip();
            let s = d.ty_s(st);
            let mut items: Vec<(&str, String)> = vec![("self", js(&s))];
            if let Some(tr) = tcx.impl_opt_trait_ref(id) {
                let tr = tr.instantiate_identity().skip_norm_wip();
                items.push(("trait", js(&d.path(tr.def_id))));
            }
            let mut fns = Vec::new();
            for it in tcx.associated_items(id.to_def_id()).in_definition_order() {
                if it.is_fn() {
                    fns.push(js(&d.path(it.def_id)));
                }
            }
            items.push(("fns", jlist(&fns)));
            impls.push(jobj(&items));
        }
    }
    // ADTs (after everything else so that all noted ADTs are included)
    let mut adts = Vec::new();
    let mut all: Vec<DefId> = d.adts.iter().copied().collect();
    all.sort_by_key(|a| d.path(*a));
    for a in all {
        adts.push(d.adt_j(a));
    }
    let mut feats = Vec::new();
    for (name, val) in tcx.sess.config.iter() {
        if name.as_str() == "feature" {
            if let Some(v) = val {
                feats.push(js(v.as_str()));
            }
        }
    }
    feats.sort();
    let top = jobj(&[
        ("crate", js(&crate_name)),
        ("tag", js(tag)),
        ("rustc", js(&rustc_interface::util::rustc_version_str().unwrap_or("unknown").to_string())),
        ("features", jlist(&feats)),
        ("n_bodies", bodies.len().to_string()),
        ("n_blocks", n_blocks.to_string()),
        ("bodies", jlist(&bodies)),
        ("adts", jlist(&adts)),
        ("impls", jlist(&impls)),
        ("consts", consts),
        ("auto_traits", at),
        ("type_graph", tg),
    ]);
    let path = format!("{}/{}{}.json", out_dir, crate_name, if tag.is_empty() { String::new() } else { format!(".{}", tag) });
    let tmp = format!("{}.tmp{}", path, std::process::id());
    std::fs::write(&tmp, top).expect("write facts");
    std::fs::rename(&tmp, &path).expect("rename facts");
}

struct Cb {
    out: Option<String>,
    crates: Vec<String>,
    tag: String,
}

impl Callbacks for Cb {
    fn after_analysis<'tcx>(&mut self, _c: &Compiler, tcx: TyCtxt<'tcx>) -> Compilation {
        let name = tcx.crate_name(rustc_hir::def_id::LOCAL_CRATE).to_string();
        if let Some(out) = &self.out {
            if self.crates.iter().any(|c| c == &name) {
                dump_crate(tcx, out, &self.tag);
            }
        }
        Compilation::Continue
    }
}

fn main() {
    let mut args: Vec<String> = std::env::args().collect();
    // wrapper mode: argv[1] is the path of rustc
    if args.len() > 1 && (args[1].ends_with("rustc") || args[1].contains("/rustc")) {
        args.remove(1);
    }
    let out = std::env::var("TV_OUT").ok();
    let crates: Vec<String> = std::env::var("TV_CRATES")
        .unwrap_or_else(|_| "tera,tera_contrib,posctl".into())
        .split(',')
        .map(|s| s.trim().to_string())
        .collect();
    let tag = std::env::var("TV_TAG").unwrap_or_default();
    let mut cb = Cb { out, crates, tag };
    let _ = (with_forced_trimmed_paths!(0), LangItem::Sized, HashSet::<u8>::new(), BTreeMap::<u8, u8>::new());
    rustc_driver::run_compiler(&args, &mut cb);
}
