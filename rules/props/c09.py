"""C09 — bytecode optimisation never changes what a template renders (the structural sentence of the property)."""
from engine import (Tracer, EdgeFacts, find_calls, find_aggs, AnchorMissing, leaf_str, leaf_call_is, callee_def, callee_names, name_matches,
                    iter_operands, pl_str, pl_projs, field_accesses, TRANSPARENT_CALLS)

EXPLANATION = (
    "Decides the structural sentence of C09 on the MIR of Chunk::optimize and the VM: (JUMPSET) the set of jump-carrying opcodes is the same "
    "in the optimiser's target-marking loop, in its fix-up loop, and in the VM (the arms that assign the instruction pointer from their "
    "payload); Break jumps through ForLoop.end_ip, whose only writer is the Iterate arm; (GUARD) every absorption of a following instruction "
    "into a fused group (`index_map[j] = ..`) is reachable only with `is_jump_target[j]` tested false since j last changed (path-sensitive "
    "exploration that also tracks the has_write flag); (ONLY) the pass constructs no instruction except the WriteTop placeholder, WritePath, "
    "LoadPath and the reconstructed LoadName — everything else is moved over unchanged by mem::replace — and the index map has len+1 entries "
    "and is written at i on every outer iteration; every jump payload is rewritten through the index map; (FUSED) one clause of the fused arms' "
    "agreement with the unfused sequence: in LoadPath a missing attribute yields undefined only behind a position test whose other edge "
    "raises the field error (last segment only), in WritePath a missing attribute always raises it; (DUMPVAR) both sides treat the magic "
    "context variable alike. NOT decided: the remaining semantic equality of the fused arms with the unfused sequence (behavioural).")
NOT_DECIDED = "semantic equivalence of fused VM arms with the unfused sequence beyond the missing-attribute rule and the magic variable"
ASSUMPTIONS = []

JUMP_REVIEWED = {"Jump", "PopJumpIfFalse", "JumpIfFalseOrPop", "JumpIfTrueOrPop", "Iterate"}
CONSTRUCT_ALLOWED = {"WriteTop", "WritePath", "LoadPath", "LoadName"}


def run(ctx, rep):
    for cfg in ctx.tera_configs():
        crate = ctx.crate(cfg)
        opt = crate.one("parsing::instructions::Chunk::optimize")
        vm = crate.one("vm::interpreter::VirtualMachine::<'tera>::interpret")
        rep.analysed(opt, vm)
        check_jumpset(crate, opt, vm, rep, cfg)
        check_guard(crate, opt, rep, cfg)
        check_only(crate, opt, rep, cfg)
        check_dumpvar(crate, opt, vm, rep, cfg)
        check_fused_load(crate, vm, rep, cfg)
        check_fused_write(crate, vm, rep, cfg)
        check_fused_root(crate, vm, rep, cfg)
        from props import c03
        c03.check_load_name(crate, rep, cfg)     # the unfused LoadName resolves the same way (get_value), so fused == unfused


def check_fused_load(crate, vm, rep, cfg):
    """C09.FUSED — the fused LoadPath arm keeps the unfused sequence's rule for a missing attribute: only the LAST segment of the path may
    read as undefined; a missing attribute at an earlier position raises the field error (in the unfused code the next LoadAttr would hit an
    undefined parent). Structurally: the `undefined` outcome on the None edge of get_attr lies on the not-taken edge of a position comparison
    whose taken edge constructs the error."""
    import rrec
    import rpanic
    from props.c03 import vm_arm
    reg = vm_arm(vm, crate, "LoadPath")
    ga = [(bb, t) for bb, t in vm.calls(sorted(reg)) if callee_def(t).endswith("value::Value::get_attr")]
    ok = len(ga) == 1
    why = "get_attr call of the LoadPath arm not found (%d)" % len(ga)
    if ok:
        g = ga[0][0]
        some_t = {tgt for sb, tgt in rrec.ok_edges_of_call(vm, crate, g)}
        # the None side: successors of the Option switch that are not the Some edge
        none_t = set()
        for sb, tgt in rrec.ok_edges_of_call(vm, crate, g):
            none_t |= {x for x in vm.succ[sb] if x != tgt and vm.term(x)["k"] != "unreachable"}
        none_reg = {x for t0 in none_t for x in vm.reach_from(t0) if vm.dominates(t0, x)} & reg
        # "reads as undefined": a named bool flag set to true, or Value::undefined() itself, inside the None region
        outcomes = [bb for bb, idx, st in vm.stmts(sorted(none_reg)) if idx != "t" and st.get("k") == "assign" and not st["pl"]["p"] and vm.local_ty(st["pl"]["l"]) == "bool"
                    and vm.local_name(st["pl"]["l"]) and st["rv"]["k"] == "use" and st["rv"]["op"]["k"] == "const" and str(st["rv"]["op"].get("v")) == "1"] + \
                   [bb for bb, t in vm.calls(sorted(none_reg)) if callee_def(t).endswith("value::Value::undefined")]
        ok = bool(outcomes)
        why = "no `undefined` outcome found on the None edge of get_attr"
        for ob in outcomes:
            guarded = False
            for sb in sorted(none_reg):
                st = vm.term(sb)
                if st["k"] != "switch" or not vm.dominates(sb, ob) or sb == ob:
                    continue
                if not rpanic.cmp_of(vm, st["op"]):
                    continue
                edges = list(st["targets"]) + [["other", st["otherwise"]]]
                to_ob = [tgt for v, tgt in edges if vm.dominates(tgt, ob) and tgt != sb]
                others = [tgt for v, tgt in edges if tgt not in to_ob]
                err = any(any(callee_def(t2).endswith("undefined_field_error") for b2, t2 in vm.calls(sorted({x for x in vm.reach_from(o) if vm.dominates(o, x)}))) for o in others)
                if to_ob and err:
                    guarded = True
            if not guarded:
                ok = False
                why = "a missing attribute reads as undefined at any position of the path (no position test with an error on its other edge dominates %s)" % vm.where(ob)
    rep.add("C09.FUSED", "C09.FUSED:LoadPath:missing-intermediate-is-an-error", ok, vm.where(ga[0][0]) if ga else vm.where(0), "in the fused LoadPath arm a missing attribute yields "
            "undefined only behind a position comparison whose other edge raises undefined_field_error (last segment only, like LoadName + LoadAttr*)"
            + ("" if ok else " — VIOLATED: " + why))
    # WritePath: a missing attribute is always an error (writing undefined is one anyway)
    reg = vm_arm(vm, crate, "WritePath")
    ga = [(bb, t) for bb, t in vm.calls(sorted(reg)) if callee_def(t).endswith("value::Value::get_attr")]
    ok = len(ga) == 1
    if ok:
        g = ga[0][0]
        for sb, tgt in rrec.ok_edges_of_call(vm, crate, g):
            for o in [x for x in vm.succ[sb] if x != tgt and vm.term(x)["k"] != "unreachable"]:
                r = {x for x in vm.reach_from(o) if vm.dominates(o, x)}
                if not any(callee_def(t2).endswith("undefined_field_error") for b2, t2 in vm.calls(sorted(r))):
                    ok = False
                heads = {bb for bb, t in find_calls(vm, ["parsing::instructions::Chunk::get"])}
                if vm.reach_from(o, removed_blocks=frozenset(bb2 for bb2, t2 in vm.calls() if callee_def(t2).endswith("undefined_field_error"))) & heads:
                    ok = False
    rep.add("C09.FUSED", "C09.FUSED:WritePath:missing-attribute-is-an-error", ok, vm.where(ga[0][0]) if ga else vm.where(0), "in the fused WritePath arm the None edge of get_attr reaches "
            "the next instruction only through undefined_field_error (never prints a missing field)" + ("" if ok else " — VIOLATED"))


def check_fused_root(crate, vm, rep, cfg):
    """C09.FUSED — the first segment of a fused path is resolved exactly like the LoadName it replaces: by State::get_value(path[0]), called
    in the arm itself — not through a memo or another resolver whose answer can differ from a fresh lookup."""
    from props.c03 import vm_arm
    tr = Tracer(vm)
    ln = crate.one("vm::state::State::<'t>::load_name")
    ref = [callee_def(t) for bb, t in ln.calls() if callee_def(t).endswith("::get_value")]
    for variant in ("LoadPath", "WritePath"):
        reg = vm_arm(vm, crate, variant)
        gv = [(bb, t) for bb, t in vm.calls(sorted(reg)) if callee_def(t).endswith("State::<'t>::get_value")]
        others = sorted({callee_def(t).rsplit("::", 1)[-1] for bb, t in vm.calls(sorted(reg))
                         if "vm::state::State" in callee_def(t) and callee_def(t).rsplit("::", 1)[-1] not in ("get_value", "dump_context")})
        ok = len(gv) == 1 and not others and bool(ref)
        why = "%d get_value calls, other State resolvers: %s" % (len(gv), others)
        if ok:
            al = [l for l in tr.operand(gv[0][1]["args"][1]) if l.kind != "cycle"]
            ok = bool(al)
            for l in al:
                # `&path[0]`: Index::index(path, 0) with `path` the opcode's payload
                good = False
                if l.kind == "call" and l.detail[0] == "std::ops::Index::index":
                    it = vm.term(l.detail[2])
                    pl = [x for x in tr.operand(it["args"][0]) if x.kind != "cycle"]
                    ix = it["args"][1]
                    good = bool(pl) and all(("as:" + variant) in x.projs for x in pl) and ix["k"] == "const" and str(ix.get("v")) == "0"
                elif ("as:" + variant) in l.projs:
                    good = True
                ok = ok and good
            why = "get_value is not asked for the path's own first segment"
        if ok:
            # ... and that fresh answer is THE root: whatever the arm tests with is_undefined / walks with get_attr comes from get_value,
            # dump_context or an earlier get_attr — not from a remembered value (holds on the inlined body too, where a caching helper
            # would otherwise hide behind "the arm contains a get_value call")
            ctr = Tracer(vm, transparent=set(TRANSPARENT_CALLS) | {"std::option::Option::<&T>::cloned", "std::option::Option::<T>::unwrap_or_else"})
            for bb2, t2 in vm.calls(sorted(reg)):
                if callee_def(t2).endswith("value::Value::is_undefined") or callee_def(t2).endswith("value::Value::get_attr"):
                    for l in ctr.operand(t2["args"][0]):
                        if l.kind == "cycle":
                            continue
                        good = l.kind == "call" and (l.detail[0].endswith("::get_value") or l.detail[0].endswith("::dump_context") or l.detail[0].endswith("::get_attr")
                                                     or l.detail[0].endswith("Value::undefined") or l.detail[0].endswith("stack::Stack::pop"))
                        if not good:
                            ok = False
                            why = "a root / segment value comes from %s, not from a fresh lookup" % leaf_str(l)
        rep.add("C09.FUSED", "C09.FUSED:%s:root-resolved-like-LoadName" % variant, ok, vm.where(gv[0][0]) if gv else vm.where(0), "the %s arm resolves the path's first segment with "
                "State::get_value (what LoadName does), directly" % variant + ("" if ok else " — VIOLATED: " + why))


def check_fused_write(crate, vm, rep, cfg):
    """C09.FUSED — the fused WritePath arm decides raw-vs-escaped exactly like the WriteTop it replaces: both ask the VM's effective setting
    (VirtualMachine::autoescape_enabled — API override, else template flag) and the value's safe mark, and neither looks at the template flag
    or the override on its own."""
    from props.c03 import vm_arm
    tr = Tracer(vm)
    sigs = {}
    direct = {}
    for variant in ("WriteTop", "WritePath"):
        reg = vm_arm(vm, crate, variant)
        sig = set()
        for bb, t in vm.calls(sorted(reg)):
            cd = callee_def(t)
            if cd.endswith("VirtualMachine::<'tera>::autoescape_enabled") or cd.endswith("value::Value::is_safe"):
                # the answer must be what a branch tests
                sig.add(cd.rsplit("::", 1)[-1])
        sw = set()
        for sb in sorted(reg):
            t = vm.term(sb)
            if t["k"] == "switch":
                for l in tr.operand(t["op"]):
                    if l.kind == "call" and (l.detail[0].endswith("autoescape_enabled") or l.detail[0].endswith("Value::is_safe")):
                        sw.add(l.detail[0].rsplit("::", 1)[-1])
                    if l.kind == "param" and (".autoescape_enabled" in l.projs or ".autoescape_override" in l.projs):
                        direct.setdefault(variant, []).append(sb)
        sigs[variant] = (sig, sw)
    want = {"autoescape_enabled", "is_safe"}
    ok = all(sigs[v][0] == want and sigs[v][1] == want for v in sigs) and not direct
    why = "; ".join("%s tests %s" % (v, sorted(sigs[v][1])) for v in sorted(sigs)) + ("; reads the flag/override field directly in %s" % sorted(direct) if direct else "")
    rep.add("C09.FUSED", "C09.FUSED:WritePath:same-escape-decision-as-WriteTop", ok, vm.where(0), "WriteTop and WritePath both branch on VirtualMachine::autoescape_enabled() and "
            "Value::is_safe(), never on Template.autoescape_enabled / autoescape_override alone" + ("" if ok else " — VIOLATED: " + why))


def variant_switches(body, crate, adt_suffix):
    """list of (switch bb, {variant: target}) for switches on the discriminant of the enum"""
    ef = EdgeFacts(body, crate)
    out = []
    for sb in sorted(body.reachable):
        t = body.term(sb)
        if t["k"] != "switch":
            continue
        listed = {}
        for tgt, fl in ef.facts_for_switch(sb).items():
            if tgt == t["otherwise"]:
                continue
            for f in fl:
                if f[0] == "variant" and f[1].endswith(adt_suffix) and f[4]:
                    for v in f[3]:
                        listed[v] = tgt
        if listed:
            out.append((sb, listed))
    return out


def check_jumpset(crate, opt, vm, rep, cfg):
    sw = variant_switches(opt, crate, "instructions::Instruction")
    multi = [(sb, l, None) for sb, l in sw if len(l) > 1 or (set(l) & JUMP_REVIEWED)]
    # the same enumeration factored into an accessor: a call from optimize to a crate-local `fn(&self / &mut self) -> Option<..>` on
    # Instruction; its variant set is the set for which it is definitely Some (table read off the accessor's MIR)
    from engine import option_table
    import rrec
    iadt = crate.adts.get("parsing::instructions::Instruction")
    for bb, t in opt.calls():
        h = crate.bodies.get(callee_def(t))
        if h is None or h is opt or h.kind == "closure" or h.arg_count != 1 or not h.local_ty(0).startswith("std::option::Option<"):
            continue
        if "instructions::Instruction" not in h.local_ty(1) or iadt is None:
            continue
        tab = option_table(h, iadt)
        some = {v for v, o in tab.items() if o == "some"}
        maybe = {v for v, o in tab.items() if o == "maybe"}
        if some and not maybe:
            # the Some edge of the accessor's result, or of an Option adapter applied to it (`.and_then(..)`, `.map(..)`, `.filter(..)`:
            # their Some implies the accessor's Some)
            carriers = [bb]
            d = t["dest"]["l"]
            for b3, t3 in opt.calls():
                if callee_def(t3).rsplit("::", 1)[-1] in ("and_then", "map", "filter") and "Option" in callee_def(t3) and t3["args"] and \
                        t3["args"][0]["k"] in ("copy", "move") and t3["args"][0]["pl"]["l"] == d:
                    carriers.append(b3)
            for cb_ in carriers:
                for sb2, tgt2 in rrec.ok_edges_of_call(opt, crate, cb_):
                    multi.append((bb, {v: tgt2 for v in some}, tgt2))
    tr = Tracer(opt)
    mark, fix = None, None
    for sb, listed, via in multi:
        tgt = next(iter(listed.values()))
        region = opt.reach_from(tgt, removed_blocks=frozenset([sb])) if via is None else {x for x in opt.reach_from(via) if opt.dominates(via, x)}
        # marking loop: writes a Vec<bool>; fix-up loop: assigns through the payload reference
        writes_bool = any("Vec<bool>" in (t["atys"][0] if t["atys"] else "") for bb, t in find_calls(opt, ["std::ops::IndexMut::index_mut"], blocks=sorted(region))) or \
            any(callee_def(t).endswith("::get_mut") and "bool" in (t["atys"][0] if t["atys"] else "") for bb, t in opt.calls(sorted(region))) or \
            any(i2 != "t" and st.get("k") == "assign" and pl_projs(st["pl"]) == ["deref"] and opt.local_ty(st["pl"]["l"]) == "&mut bool" for b2, i2, st in opt.stmts(sorted(region)))
        if writes_bool and mark is None:
            mark = (sb, set(listed))
        else:
            fix = (sb, set(listed))
    # VM: variants whose arm assigns `ip` from the payload
    from props.c02 import ip_locals
    ips = ip_locals(vm)
    vtr = Tracer(vm)
    vm_set = set()
    for bb, idx, s in vm.stmts():
        if idx != "t" and s["k"] == "assign" and not s["pl"]["p"] and s["pl"]["l"] in ips:
            for l in vtr._rv(s["rv"], (), set(), 0, bb, idx):
                for p in l.projs:
                    if p.startswith("as:") and p[3:] not in ("Some", "Ok"):
                        vm_set.add(p[3:])
    key = "C09.JUMPSET:sets-agree"
    if mark is None or fix is None:
        rep.bad("C09.JUMPSET", key, opt.where(0), "anchor-missing: marking loop / fix-up loop in optimize (found %d multi-variant switches)" % len(multi))
        return
    ok = mark[1] == fix[1] == vm_set
    what = ("jump-carrying opcodes agree: optimiser mark loop %s, fix-up loop %s, VM arms assigning ip from their payload %s" % (
        sorted(mark[1]), sorted(fix[1]), sorted(vm_set)))
    (rep.ok if ok else rep.bad)("C09.JUMPSET", key, opt.where(mark[0]), what if ok else what + " — VIOLATED: an opcode whose target is not marked can be "
                                "absorbed into a fused group / left pointing at a stale index")
    key = "C09.JUMPSET:reviewed"
    (rep.ok if mark[1] == JUMP_REVIEWED else rep.bad)("C09.JUMPSET", key, opt.where(mark[0]), "the jump set equals the reviewed set %s" % sorted(JUMP_REVIEWED)
                                                      + ("" if mark[1] == JUMP_REVIEWED else " — CHANGED: %s; review JUMPSET/GUARD for the new opcode" % sorted(mark[1])))
    # fix-up: payload rewritten from index_map[old]
    sbf = fix[0]
    n = 0
    for bb, idx, s in opt.stmts():
        if idx != "t" and s["k"] == "assign" and s["pl"]["p"] and pl_projs(s["pl"])[-1] == "deref" and "usize" in opt.local_ty(s["pl"]["l"]):
            src = tr._rv(s["rv"], (), set(), 0, bb, idx)
            if src and all(l.kind == "call" and leaf_call_is(l, "std::ops::Index::index") for l in src) and opt.dominates(sbf, bb):
                n += 1
    rep.add("C09.JUMPSET", "C09.JUMPSET:fixup-through-index_map", n >= 1, opt.where(sbf),
            "the fix-up loop assigns every jump payload from `index_map[old target]`" + ("" if n >= 1 else " — VIOLATED"))
    # Break: ForLoop.end_ip written only by the Iterate arm
    writers = [a for a in field_accesses(crate, "vm::for_loop::ForLoop", "end_ip") if a["kind"] in ("assign", "assign-part")]
    ok = bool(writers)
    for a in writers:
        b = a["body"]
        src = Tracer(b)._rv(b.blocks[a["bb"]]["s"][a["idx"]]["rv"], (), set(), 0, a["bb"], a["idx"])
        if not (b.path == vm.path and src and all("as:Iterate" in l.projs for l in src)):
            ok = False
    rep.add("C09.JUMPSET", "C09.JUMPSET:break-end_ip", ok, vm.where(0), "Break jumps to ForLoop.end_ip, whose only writer is the Iterate arm (from Iterate's payload, "
            "which the fix-up loop rewrites)" + ("" if ok else " — VIOLATED: writers %s" % [(a["body"].path, a["kind"]) for a in writers]))
    inits = [a for a in field_accesses(crate, "vm::for_loop::ForLoop", "end_ip") if a["kind"] == "agg-init"]
    rep.floor("C09.JUMPSET", "writers of ForLoop.end_ip in the VM [%s]" % cfg, len(writers), 1)


def check_guard(crate, opt, rep, cfg):
    """product exploration: (block, taint, has_write) ; taint = is_jump_target[j] not tested false since j last changed"""
    tr = Tracer(opt)
    ef = EdgeFacts(opt, crate)
    # anchors by shape, not by name: j = the local(s) indexing the Vec<bool> (is_jump_target) in a *read*; the tracked flag = bool locals
    # that receive compile-time constants in at least two blocks (has_write)
    def src_locals(a):
        out = set()
        if a["k"] in ("copy", "move"):
            out.add(a["pl"]["l"])
            for (b2, i2, dp, rv) in opt.defs.get(a["pl"]["l"], []):
                if rv["k"] == "use" and rv["op"]["k"] in ("copy", "move") and not rv["op"]["pl"]["p"]:
                    out.add(rv["op"]["pl"]["l"])
        return out
    js = set()
    for bb, t in find_calls(opt, ["std::ops::Index::index"]):
        if "Vec<bool>" in t["atys"][0]:
            js |= {l for l in src_locals(t["args"][1]) if opt.local_name(l)}
    hw = set()
    for l, ds in opt.defs.items():
        if opt.local_ty(l) == "bool" and opt.local_name(l):
            consts = {d[0] for d in ds if not d[2] and d[3]["k"] == "use" and d[3]["op"]["k"] == "const"}
            if len(consts) >= 2:
                hw.add(l)
    if not js:
        rep.anchor_missing("C09.GUARD", "the index local of the is_jump_target reads in optimize")
        return
    # absorption blocks: index_mut(index_map, j) i.e. Vec<usize> receiver with index derived from j
    absorb = []
    for bb, t in find_calls(opt, ["std::ops::IndexMut::index_mut"]):
        if "Vec<usize>" not in t["atys"][0]:
            continue
        idx_leaves = tr.operand(t["args"][1])
        a1 = t["args"][1]
        src_locals = set()
        # direct copy of j?
        if a1["k"] in ("copy", "move"):
            d = opt.defs.get(a1["pl"]["l"], [])
            for (b2, i2, dp, rv) in d:
                if rv["k"] == "use" and rv["op"]["k"] in ("copy", "move"):
                    src_locals.add(rv["op"]["pl"]["l"])
            src_locals.add(a1["pl"]["l"])
        if src_locals & js:
            absorb.append(bb)
    rep.floor("C09.GUARD", "absorption sites `index_map[j] = ..` [%s]" % cfg, len(absorb), 2)
    # edges that test is_jump_target[j]
    clean_edges, taint_edges = set(), set()
    for sb in sorted(opt.reachable):
        t = opt.term(sb)
        if t["k"] != "switch" or t["op"]["k"] == "const":
            continue
        leaves = tr.operand(t["op"])
        # switch operand: copy of (*index(&is_jump_target, j)) possibly through Not
        d = ef.describe_bool_or_discr(t["op"]["pl"]) if not t["op"]["pl"]["p"] else None
        neg = False
        while d and d[0] == "not":
            neg = not neg
            d = d[1]
        is_jt = False
        src = tr.operand(t["op"])
        for l in src:
            if l.kind == "call" and leaf_call_is(l, "std::ops::Index::index"):
                call = opt.term(l.detail[2])
                if "Vec<bool>" in call["atys"][0]:
                    a1 = call["args"][1]
                    ok_j = False
                    if a1["k"] in ("copy", "move"):
                        for (b2, i2, dp, rv) in opt.defs.get(a1["pl"]["l"], []):
                            if rv["k"] == "use" and rv["op"]["k"] in ("copy", "move") and rv["op"]["pl"]["l"] in js:
                                ok_j = True
                        if a1["pl"]["l"] in js:
                            ok_j = True
                    if ok_j:
                        is_jt = True
            # Not(x) appears as op leaf; follow its operand
        if not is_jt:
            # maybe `_t = Not(load)`; look one level down
            dd = ef.single_def(t["op"]["pl"]["l"]) if not t["op"]["pl"]["p"] else None
            if dd and dd[3]["k"] == "un" and dd[3]["op"] == "Not":
                for l in tr.operand(dd[3]["a"]):
                    if l.kind == "call" and leaf_call_is(l, "std::ops::Index::index") and "Vec<bool>" in opt.term(l.detail[2])["atys"][0]:
                        is_jt = True
                        neg = True
        if not is_jt:
            continue
        for v, tgt in t["targets"]:
            truth = (v != "0")
            if neg:
                truth = not truth
            (taint_edges if truth else clean_edges).add((sb, tgt))
        if len(t["targets"]) == 1:
            truth = (t["targets"][0][0] == "0")
            if neg:
                truth = not truth
            (taint_edges if truth else clean_edges).add((sb, t["otherwise"]))
    rep.floor("C09.GUARD", "tests of is_jump_target[j] [%s]" % cfg, len(clean_edges), 2)
    # exploration
    start = (0, True, "?")
    seen = {start}
    work = [start]
    bad_reach = {}
    while work:
        bb, taint, h = work.pop()
        # statements
        vals = {}
        for s in opt.blocks[bb]["s"]:
            if s["k"] == "assign" and not s["pl"]["p"]:
                if s["pl"]["l"] in js:
                    taint = True
                rv = s["rv"]
                if s["pl"]["l"] in hw:
                    h = rv["op"].get("v", "?") if (rv["k"] == "use" and rv["op"]["k"] == "const") else "?"
                elif rv["k"] == "use" and rv["op"]["k"] in ("copy", "move") and not rv["op"]["pl"]["p"] and rv["op"]["pl"]["l"] in hw:
                    vals[s["pl"]["l"]] = h      # a copy of has_write taken in this block
        if bb in absorb and taint:
            bad_reach[bb] = True
        t = opt.term(bb)
        if t["k"] == "call" and not t["dest"]["p"] and t["dest"]["l"] in hw:
            h = "?"
        for tgt in opt.succ[bb]:
            nt = taint
            if (bb, tgt) in clean_edges:
                nt = False
            elif (bb, tgt) in taint_edges:
                nt = True
            nh = h
            if t["k"] == "switch" and t["op"]["k"] in ("copy", "move") and not t["op"]["pl"]["p"]:
                sl = t["op"]["pl"]["l"]
                hv = h if sl in hw else vals.get(sl)
                if hv in ("0", "1"):
                    # follow only the matching edge
                    tv = {v: tb for v, tb in t["targets"]}
                    take = tv[hv] if hv in tv else t["otherwise"]
                    if tgt != take:
                        continue
            st = (tgt, nt, nh)
            if st not in seen:
                seen.add(st)
                work.append(st)
    for k, bb in enumerate(absorb):
        key = "C09.GUARD:absorb#%d" % k
        what = ("the absorption `index_map[j] = optimized.len()` is reachable only with `is_jump_target[j]` tested false since j last changed "
                "(no instruction that some jump targets is folded into a fused group)")
        if bb in bad_reach:
            rep.bad("C09.GUARD", key, opt.where(bb), what + " — VIOLATED: a path reaches it without that test; a jump would then land inside/after a fused "
                    "instruction and execute the load it was meant to skip")
        else:
            rep.ok("C09.GUARD", key, opt.where(bb), what)


def check_dumpvar(crate, opt, vm, rep, cfg):
    """two cooperating sites: the VM's fused arms special-case the magic dump variable only for one-element paths, so the
    optimiser must never start a multi-element fusion at it"""
    static = "vm::state::MAGICAL_DUMP_VAR"
    def mentions(body):
        out = []
        for bb, idx, s in body.stmts():
            for op in iter_operands(s):
                if op["k"] == "const" and (op.get("cdef") == static or static in str(op.get("psrc") or "")):
                    out.append(bb)
            if idx != "t" and s["k"] == "assign" and s["rv"]["k"] == "tls":
                pass
        return out
    # statics are read through a pointer constant: look for the type `&&str` const whose cdef/ty mentions the static
    def reads_static(body):
        n = 0
        import json
        for bb, idx, s in body.stmts():
            if '"static": "vm::state::MAGICAL_DUMP_VAR"' in json.dumps(s):
                n += 1
        return n
    n_opt = reads_static(opt)
    n_vm = reads_static(vm)
    key = "C09.DUMPVAR:optimizer-excludes-magic-variable"
    ok = n_opt >= 1 and n_vm >= 2
    (rep.ok if ok else rep.bad)("C09.DUMPVAR", key, opt.where(0), "the VM's LoadPath/WritePath arms special-case `__tera_context` only for one-element paths (%d reads of "
                                "MAGICAL_DUMP_VAR in the VM) and the optimiser's fusion-start test reads the same static (%d) so it never fuses attributes onto it" % (n_vm, n_opt)
                                + ("" if ok else " — VIOLATED: a fused path starting at the magic variable takes State::get_value (undefined) instead of dump_context()"))


def check_only(crate, opt, rep, cfg):
    built = {}
    for bb, idx, s in find_aggs(opt, "parsing::instructions::Instruction"):
        built.setdefault(s["rv"]["variant"], []).append((bb, idx))
    extra = set(built) - CONSTRUCT_ALLOWED
    rep.add("C09.ONLY", "C09.ONLY:constructed-variants", not extra, opt.where(0),
            "optimize constructs only %s (placeholder, fused forms, reconstructed LoadName); found %s" % (sorted(CONSTRUCT_ALLOWED), sorted(built))
            + ("" if not extra else " — VIOLATED: also builds %s: a rewrite other than path fusion" % sorted(extra)))
    # pushes into `optimized`: fused/reconstructed aggregates or mem::replace of the original
    tr = Tracer(opt)
    n = 0
    for bb, t in find_calls(opt, ["std::vec::Vec::<T, A>::push"]):
        recv = t["args"][0]
        if "Instruction" not in t["atys"][0]:
            continue
        n += 1
        val = t["args"][1]
        leaves = tr.operand(val)
        ok = True
        for l in leaves:
            if l.kind == "call" and leaf_call_is(l, "std::mem::replace"):
                continue
            if l.kind == "agg" and l.detail[0] == "tuple":
                # (Instruction::X(..), spans): first component must be an allowed construction
                first = tr.place(val["pl"], [".0"]) if val["k"] in ("copy", "move") else set()
                if first and all(x.kind == "agg" and x.detail[2] in CONSTRUCT_ALLOWED for x in first):
                    continue
            ok = False
        key = "C09.ONLY:push#%d" % (n - 1)
        (rep.ok if ok else rep.bad)("C09.ONLY", key, opt.where(bb), "what is pushed to the optimised code is the original instruction (mem::replace) or a fused/"
                                    "reconstructed path instruction" + ("" if ok else " — VIOLATED: origin %s" % sorted(leaf_str(l) for l in leaves)[:2]))
    rep.floor("C09.ONLY", "pushes into the optimised instruction vector [%s]" % cfg, n, 4)
    # index_map has len + 1 entries
    ok = False
    for bb, t in opt.calls():
        if "from_elem" in callee_def(t) and "usize" in str(t["f"].get("targs")):
            leaves = tr.operand(t["args"][1])
            if leaves and all(l.kind == "op" and l.detail[1] in ("Add", "AddWithOverflow") for l in leaves):
                ok = True
    rep.add("C09.ONLY", "C09.ONLY:index_map-len+1", ok, opt.where(0), "index_map is created with old.len() + 1 entries (jumps may target one past the end)"
            + ("" if ok else " — VIOLATED"))
