#!/usr/bin/env python3
"""Assigns the reviewed reason class to every row of tables/panic_sites.json (first matching pattern wins).
The patterns were written while reading each site; rows that match nothing stay UNREVIEWED and fail the check."""
import json
import os
import re
import sys
sys.path.insert(0, os.path.dirname(os.path.abspath(__file__)))
import rpanic

R = [
    (r"\|K2\|.*\[Some under the dominating kind test\]", "decided structurally: the accessor whose result is unwrapped is definitely Some (table read off its MIR) for every kind left by the dominating `match v.kind()` / `if v.is_x()` edge on the same value; the key changes if the test goes or stops covering the accessor"),
    # ---- VM
    (r"interpret\|K2\|expect [Tt]o have a chunk", "State.chunk is Some in every State the VM executes: all constructions go through State::new_with_chunk (render_to, render_include, render_component, Tera::render_component_to)"),
    (r"interpret\|K2\|expect to have a span for error", "span presence: every instruction whose value can reach an error site is emitted with a span (C07.SPAN; fused paths carry one span per element)"),
    (r"interpret\|K2\|expect to have kwargs", "the popped operand is the map built by the BuildMap* instruction that compile_map_entries always emits before a component call"),
    (r"interpret\|K2\|expect no lineage found", "current_block_name is only Some while its (name, lineage, level) entry is on state.blocks (pushed/popped around the nested interpret in RenderBlock)"),
    (r"interpret\|K2\|unwrap", "into_map_arc()/into_map()/into_vec() after the is_map()/is_array() test two lines above, or on the kwargs map emitted by compile_kwargs; capture_buffers.pop() paired with Capture (C07.PAIR)"),
    (r"interpret\|K1\|index std::collections::HashMap<std::borrow::Cow", "registry lookup keyed by a name validated at add time (C07.REF.e)"),
    (r"interpret\|K1\|index std::collections::HashMap<std::string::String, \(parsing::ast::Componen", "component lookup keyed by a name validated at add time (C07.REF.e)"),
    (r"report_target\|K1\|index std::collections::HashMap<std::string::String, template::Template>", "chunk.name is the name of a registered template (C12.CHUNKNAME) or equals the VM's own template (compared first)"),
    (r"interpret\|K1\|index std::vec::Vec<\(&str", "state.blocks[pos] with pos from rposition() on the same vector in the same arm"),
    (r"interpret\|K1\|index std::vec::Vec<parsing::instructions::Chunk>", "lineage[0] behind `filter(|bl| !bl.is_empty())`; lineage[level + 1] behind the `level + 1 >= lineage.len()` error test"),
    (r"interpret\|K1\|index std::vec::Vec<std::string::String>", "path[0] / path[1..] of LoadPath/WritePath: the optimiser only builds paths with >= 1 element (C09.ONLY)"),
    (r"interpret\|K1\|index std::vec::Vec<std::vec::Vec<u8>>", "capture_buffers[len - 1] in the branch where capture_buffers is not empty"),
    (r"SourceLocation::<'a>::new\|K4\|Sub usize \[dominated", "underline width end_col - start_col: computed only on the true edge of `end_col > start_col` (a span covering several lines has end_col < start_col); decided structurally, the key changes if the guard goes"),
    (r"interpret\|K4\|(Add|Sub) usize", "ip + 1 / level + 1 / len - 1: ip < chunk.len(), level < lineage.len(), len >= 1 in the non-empty branch"),
    (r"vm::stack::Stack::(pop|peek|peek_mut)\|K2", "stack discipline of compiled code: every instruction pops what the compiler pushed (stated, not proved — DESIGN §5 C07)"),
    (r"ForLoop::new\|K2\|expect Should only be called", "ForLoop::new is only called after can_be_iterated_on() in StartIterate; the two kind sets agree (C07.ITER)"),
    (r"ForLoopIterator as std::iter::Iterator>::next\|K1", "arr[*index] / bytes[*index] inside `if *index < len`"),
    (r"ForLoopIterator as std::iter::Iterator>::next\|K4\|Add usize", "*current_pos += char_end / *index += 1: bounded by content.len() / len"),
    (r"ForLoopIterator as std::iter::Iterator>::next\|K4\|Sub usize", "*remaining -= 1 after `current_pos < content.len()`: remaining counts the chars not yet yielded, so it is >= 1 here"),
    (r"ForLoopIterator as std::iter::Iterator>::next\|K5", "offsets from char_indices / the accumulated char-boundary position (C14.CHARS)"),
    (r"indexed_size_hint\|K4\|Sub usize", "len - index with index <= len (index only advances while index < len); saturating in effect"),
    (r"vm::.*\|K6\|(<T>|String)::with_capacity", "capacity is a small constant or a size hint derived from template sizes"),
    (r"render_component_to\|K2\|expect Component source template must exist", "Tera.components is rebuilt by every finalize from the templates currently in the map; its chunks carry their defining template's name (C10.DERIVED, C12.CHUNKNAME)"),
    # ---- value
    (r"value::number::\w+\|K2\|panic", "after into_float() promotion both operands are Integer or both Float; the mixed arm is unreachable"),
    (r"value::number::(floor_div|rem)\|K6\|<impl f64>::(div|rem)_euclid", "float euclidean division: no panic for floats (division by zero excluded by the is_zero test, C13)"),
    (r"value::resolve_index\|K4\|Add i128", "idx + len under idx < 0 (C14.ARITH)"),
    (r"slice_items\|K4\|Sub i128", "len - 1 with len >= 0 from usize (C14.ARITH)"),
    (r"slice_items\|K1\|bounds", "items[i as usize] with i inside the clamped [lo, hi] loop (C14.CAST)"),
    (r"value::Value::get_item\|K1", "arr[i] / chars[i] with i = resolve_index(..) -> Some(i) which is inside 0..len (C14)"),
    (r"value::SmartString::(new|as_str)\|K1\|index \[u8; 21\]", "data[..len] with len <= 21 checked in SmartString::new (`s.len() <= 21` branch); len is only written there"),
    (r"value::SmartString::new\|K6\|<impl \[T\]>::copy_from_slice", "destination slice data[..s.len()] has exactly the source length"),
    (r"<value::Value as std::fmt::Display>::fmt\|K2\|expect valid utf-8", "Value::format only writes valid UTF-8 (C07.UTF8)"),
    (r"<value::Value as std::cmp::Ord>::cmp\|K6\|<impl \[T\]>::sort_by", "comparator is Key::cmp, a total order (C15.KEYORD)"),
    (r"value::format_map\|K6\|<impl \[T\]>::sort_by_key", "key is &Key with total Ord (C15.KEYORD)"),
    (r"value::Value::from_serializable\|K2\|unwrap", "documented panic of the infallible constructor (public API contract; try_from_serializable is the fallible twin); not on any render path"),
    (r"SerializeMap>::serialize_value\|K2\|expect missing key", "serde's SerializeMap contract: serialize_key precedes serialize_value"),
    (r"(value::ser::|<value::Value as std::convert::From<std::collections::|ArgFromValue<'k>>::from_value).*\|K6\|.*with_capacity", "capacity is the length of an existing in-memory collection / serde size hint"),
    # ---- filters / tests / functions / args
    (r"filters::abs\|K2\|unwrap", "as_f64()/as_i128() on the kind just matched (F64 / I64 / I128), always Some"),
    (r"filters::abs\|K6\|<impl i128>::abs", "(i64::MIN as i128).abs() cannot overflow i128"),
    (r"filters::(int|float)\|K2\|unwrap", "as_*() on the ValueKind just matched; strip_prefix results after the starts_with test"),
    (r"filters::int\|K6\|<impl i128>::from_str_radix", "base validated by the (2..=36) range test before the call (C17.PRE)"),
    (r"filters::title\|K2\|unwrap", "write! into a String cannot fail"),
    (r"filters::escape\|K2\|unwrap", "escape_html into a Vec<u8> cannot fail"),
    (r"filters::(escape|escape_xml|title|indent|sort|unique)\|K6\|.*with_capacity", "capacity derived from the input's length"),
    (r"filters::(escape_xml|indent)\|K4\|Mul usize", "len * small constant for a capacity hint; inputs are in-memory strings (len <= isize::MAX / 2 in practice) — accepted"),
    (r"filters::indent\|K6\|<impl str>::repeat", "width is capped with .min(1000) (C17.PRE)"),
    (r"filters::sort\|K6\|<impl \[T\]>::sort_by", "Value::cmp is total (C15.ORD) and sort refuses incomparable inputs first (C16.ORDUSE)"),
    (r"filters::truncate\|K5", "offset from char_indices().nth(length) (C14.CHARS)"),
    (r"functions::range\|", "step_by > 0 (resp. step > 0) on these paths so `x - 1`, `/ step` cannot overflow or divide by zero; i * step_by and start + .. stay inside [start, end) because i < len = ceil(span / step); len <= MAX_RANGE_LEN before with_capacity (C17.PRE)"),
    (r"tests::is_(odd|even)\|K[34]", "% 2 with a constant non-zero, non -1 divisor"),
    (r"tests::is_containing\|K2\|unwrap", "as_str()/as_array()/as_map() on the ValueKind just matched"),
    # ---- parsing
    (r"basic_tokenize\|K4\|Add usize", "line/column/byte counters and offsets bounded by the input length (usize cannot overflow before memory does)"),
    (r"basic_tokenize\|K4\|Sub usize", "`end_pos - 1` under `end_pos > 0`; `s.len() - 1` with s including both quotes (len >= 2)"),
    (r"basic_tokenize\|K6\|<impl str>::split_at", "advance!(n): n is a byte count found by scanning for ASCII bytes / validated 2-byte delimiters, hence a char boundary <= len (C06.DELIM)"),
    (r"basic_tokenize\|K5", "rest[a..b] with offsets found by memstr on the same bytes for 2-byte delimiters (char boundaries); s[1..len-1] strips the ASCII quotes"),
    (r"basic_tokenize\|K1\|index \[u8\]", "rest.as_bytes()[offset..] with offset <= len: offset advances by found + 2 inside the found range"),
    (r"basic_tokenize\|K2\|unwrap", "stack.last() after the `match stack.last()` Some arm (the state stack is never empty: Template is never popped)"),
    (r"basic_tokenize\|K2\|panic", "the lexer's state stack always has Template at the bottom; Variable/Tag are the only other states"),
    (r"basic_tokenize\|K6\|String::with_capacity", "capacity is the string literal's length"),
    (r"lexer::(memstr|find_start_marker)\|K6\|<impl \[T\]>::windows", "window size is the needle length = 2 (validated delimiters, C06.DELIM) — never 0"),
    (r"lexer::skip_tag\|K4\|Sub usize", "block_str.len() - ptr.len(): ptr is a suffix of block_str"),
    (r"Parser::<'a>::(inner_parse_expression|parse_until|parse_if|parse_array|parse_subscript)\|K4\|Sub usize", "depth counter decremented right after the matching increment on the same path"),
    (r"Parser::<'a>::parse_subscript\|K2\|expect to have an expr", "not a slice => no colon was seen => the first branch parsed `start`"),
    (r"Parser::<'a>::parse_expr_bp\|K2\|panic", "token was matched as Minus or Ident(\"not\") by the enclosing arm"),
    (r"Parser::<'a>::parse_component_definition\|K2\|unwrap", "parse_literal_map returns a Value built from a literal map (as_value of a Const map), so as_map() is Some"),
    (r"Parser::<'a>::parse_map\|K6", "capacity = number of parsed entries"),
    (r"parsing::ast::.*fmt\|", "AST pretty-printers (Display/Debug): not reachable from add/render paths of accepted templates except for error text of a unary operator; indices are keys just collected from the same map, `len - 1` under a non-empty loop"),
    (r"parsing::ast::Array::as_const\|K6", "capacity = number of items"),
    (r"ComponentDefinition::build_context\|K2\|unwrap", "arg_def.typ.unwrap() in the branch where type_matches() is false, which requires typ to be Some (unwrap_or(true) otherwise)"),
    (r"Compiler::compile_(expr|node)\|K2\|panic", "Is/Pipe are rewritten to Test/Filter nodes by the parser; processing_bodies pushes and pops are paired per arm (C06.PATCH)"),
    (r"Compiler::end_branch\|K2\|panic", "end_branch is only called after a matching Branch push in the same arm (C06.PATCH)"),
    (r"Compiler::compile_node\|K2\|unwrap", "temp_variables always holds the root scope (first/last are Some); Continue is only parsed inside a for loop (C07.PAIR) so get_current_loop() is Some"),
    (r"Compiler::compile_block\|K4\|Sub usize", "block_depth decremented after the matching increment"),
    (r"Compiler::compile_(expr|map_entries)\|K6", "capacity = number of entries"),
    (r"Chunk::optimize\|K1", "i, j < old.len() by the loop conditions; index_map has len + 1 entries; jump targets <= len (C06.JT)"),
    (r"Chunk::optimize\|K2\|(panic|unwrap)", "the instruction was just matched as LoadName/LoadAttr by matches!; path has the name pushed above"),
    (r"Chunk::optimize\|K6", "capacity = old instruction count"),
    # ---- template / tera
    (r"template::(find_parents|check_include_cycles::walk)\|K1", "key is the result of resolve_template_name, a key of the same map"),
    (r"check_include_cycles::walk\|K6", "sorting &String with total Ord"),
    (r"template::Template::size_hint\|", "total_content_num_bytes * 2 and next_power_of_two: the sum of source lengths held in memory; overflow needs > 2^62 bytes of templates — accepted"),
    (r"tera::Tera::finalize_templates\|K1", "names/parents/components looked up are keys collected from the same maps earlier in the same call (sorted keys, tpl_parents[name], component_sources)"),
    (r"tera::Tera::finalize_templates\|K2\|unwrap", "tpl_size_hint/tpl_parents/tpl_blocks were filled for every key of self.templates in the loops above; get_mut(name) for name in tpl_parents"),
    (r"tera::Tera::finalize_templates\|K4\|Add usize", "sum of source lengths held in memory"),
    (r"tera::Tera::finalize_templates\|K6", "capacities = map sizes; sorting strings / (name, pos) tuples with total Ord"),
    (r"tera::Tera::get_template\|K1", "key is the result of resolve_template_name"),
    # ---- feature-gated
    (r"<value::Value as std::convert::From<(ahash::AHashMap|indexmap::IndexMap)<K, T>>>::from\|K6", "capacity is the length of an existing in-memory collection"),
    (r"ForLoopIterator as std::iter::Iterator>::size_hint\|K4\|Sub usize", "ranges.len() - *index with index <= len (index only advances while index < len) [unicode]"),
    (r"create_string_iterator\|K4\|Add usize", "start + g.len() for a grapheme inside the string: <= content.len() [unicode]"),
    (r"filters::truncate\|K1\|index std::vec::Vec<\(usize, &str\)>", "graphemes[length] behind `length >= graphemes.len()` early return [unicode]"),
    (r"globbing::load_from_glob\|K5", "glob[..first_star] with first_star from find('*') on the same string (char boundary) [glob_fs]"),
    (r"globbing::load_from_glob\|K6\|<impl str>::split_at", "split position is rfind(is_separator) + 1 inside glob[..first_star]: separators are ASCII, so a char boundary <= len [glob_fs]"),
    (r"globbing::load_from_glob\|K2\|unwrap", "strip_prefix(\"./\") right after starts_with(\"./\") [glob_fs]"),
    # ---- reporting
    (r"reporting::SourceLocation::<'a>::new\|", "line_starts[start_line - 1 ..]: spans come from the lexer for the same source (set_source / report_target, C12) and lexer lines start at 1; byte ranges are lexer offsets at char boundaries"),
    (r"reporting::generate_report\|K6\|<impl str>::repeat", "repeat counts are column widths of one source line"),
]


def main():
    t = json.load(open(rpanic.TABLE))
    n_un = 0
    for k, v in t.items():
        reason = None
        for rx, why in R:
            if re.search(rx, k):
                reason = why
                break
        if reason is None:
            n_un += 1
            print("UNMATCHED", k)
            reason = "UNREVIEWED"
        v["reason"] = reason
    json.dump(t, open(rpanic.TABLE, "w"), indent=0, sort_keys=True)
    print(len(t), "rows,", n_un, "unmatched")


if __name__ == "__main__":
    main()
