//! R-REC / R-DEPTH.ast controls.
pub enum Tree {
    Leaf(u32),
    Wrap(Box<Tree>),
}

pub struct P {
    depth: usize,
    toks: Vec<u32>,
}

impl P {
    /// unguarded self recursion driven by input: must be flagged
    pub fn unguarded(&mut self) -> Result<Tree, String> {
        match self.toks.pop() {
            Some(0) => Ok(Tree::Wrap(Box::new(self.unguarded()?))),
            Some(n) => Ok(Tree::Leaf(n)),
            None => Err("eoi".to_string()),
        }
    }

    /// guarded recursion: must NOT be flagged
    pub fn guarded(&mut self) -> Result<Tree, String> {
        self.depth += 1;
        if self.depth > 40 {
            self.depth -= 1;
            return Err("too deep".to_string());
        }
        let r = self.guarded_inner();
        self.depth -= 1;
        r
    }

    fn guarded_inner(&mut self) -> Result<Tree, String> {
        match self.toks.pop() {
            Some(0) => Ok(Tree::Wrap(Box::new(self.guarded()?))),
            Some(n) => Ok(Tree::Leaf(n)),
            None => Err("eoi".to_string()),
        }
    }

    /// the guard lives in a helper whose Err is propagated with `?`: must NOT be flagged
    pub fn gated(&mut self, depth: usize) -> Result<Tree, String> {
        let next = Self::gate(depth)?;
        match self.toks.pop() {
            Some(0) => Ok(Tree::Wrap(Box::new(self.gated(next)?))),
            Some(n) => Ok(Tree::Leaf(n)),
            None => Err("eoi".to_string()),
        }
    }

    fn gate(depth: usize) -> Result<usize, String> {
        let next = depth + 1;
        if next > 40 {
            return Err("too deep".to_string());
        }
        Ok(next)
    }

    /// a helper that looks like a gate but also answers Ok beyond the limit: must be flagged
    pub fn leaky_gated(&mut self, depth: usize) -> Result<Tree, String> {
        let next = Self::leaky_gate(depth, self.toks.len())?;
        match self.toks.pop() {
            Some(0) => Ok(Tree::Wrap(Box::new(self.leaky_gated(next)?))),
            Some(n) => Ok(Tree::Leaf(n)),
            None => Err("eoi".to_string()),
        }
    }

    fn leaky_gate(depth: usize, hint: usize) -> Result<usize, String> {
        let next = depth + 1;
        if hint > 7 {
            return Ok(next);
        }
        if next > 40 {
            return Err("too deep".to_string());
        }
        Ok(next)
    }

    /// loop-carried wrap without any charge: must be flagged by R-DEPTH.ast
    pub fn wrap_loop(&mut self) -> Tree {
        let mut t = Tree::Leaf(0);
        while let Some(_) = self.toks.pop() {
            t = Tree::Wrap(Box::new(t));
        }
        t
    }
}
