#!/usr/bin/env python3
"""bin/verif selftest [name...] — apply each mutant patch to a scratch copy of /repo, run the property's check there
and require a violation whose key matches the expected regex. Mutant files: selftest/mutants/<name>.patch with header
lines  '# property: Cnn'  '# expect: <regex on violation key>'  '# what: ...'. Scratch copies are removed afterwards."""
import os
import re
import shutil
import subprocess
import sys
import tempfile

HERE = os.path.dirname(os.path.abspath(__file__))
VERIF = os.path.dirname(HERE)


def parse_header(path):
    h = {}
    for line in open(path):
        if line.startswith("# ") and ":" in line:
            k, _, v = line[2:].partition(":")
            h[k.strip()] = v.strip()
        elif not line.startswith("#"):
            break
    return h


def run_one(path, repo="/repo", keep=False):
    h = parse_header(path)
    prop, expect = h["property"], h["expect"]
    tmp = tempfile.mkdtemp(prefix="tvmut-")
    try:
        subprocess.check_call(["rsync", "-a", "--exclude", "target", "--exclude", ".git", repo + "/", tmp + "/"])
        r = subprocess.run(["patch", "-p1", "-s", "--no-backup-if-mismatch", "-i", path], cwd=tmp, stdout=subprocess.PIPE, stderr=subprocess.STDOUT, text=True)
        if r.returncode != 0:
            return False, "patch does not apply: " + r.stdout[-300:]
        env = dict(os.environ, TV_REPO=tmp)
        r = subprocess.run([sys.executable, os.path.join(HERE, "cli.py"), "check", prop], env=env, stdout=subprocess.PIPE, stderr=subprocess.STDOUT, text=True)
        keys = re.findall(r"rule=\S+ key=(.*)", r.stdout)
        hit = [k for k in keys if re.search(expect, k)]
        if "fact extraction failed" in r.stdout or "EXTRACT" in r.stdout:
            return False, "mutant does not compile: " + r.stdout[-400:]
        if hit:
            return True, "caught: %s (%d violation(s) total)" % (hit[0][:140], len(keys))
        return False, "NOT caught; violations reported: %s" % [k[:100] for k in keys[:5]]
    finally:
        if not keep:
            shutil.rmtree(tmp, ignore_errors=True)


def seeded_as_patch(seed_id):
    """a temporary patch file with the selftest header built from seeded/<id>/meta.json"""
    import json
    sd = os.path.join(VERIF, "seeded", seed_id)
    meta = json.load(open(os.path.join(sd, "meta.json")))
    tmp = tempfile.NamedTemporaryFile("w", suffix=".patch", delete=False)
    tmp.write("# property: %s\n# expect: %s\n# what: seeded change %s\n" % (meta["check_property"], meta["expect_key"], seed_id))
    tmp.write(open(os.path.join(sd, "patch.diff")).read())
    tmp.close()
    return tmp.name


def main(argv):
    d = os.path.join(VERIF, "selftest", "mutants")
    seeds = sorted(x for x in os.listdir(os.path.join(VERIF, "seeded")) if os.path.exists(os.path.join(VERIF, "seeded", x, "meta.json")))
    names = argv or (sorted(f[:-6] for f in os.listdir(d) if f.endswith(".patch")) + ["seed:" + x for x in seeds])
    jobs = int(os.environ.get("TV_SELFTEST_JOBS", "4"))
    from concurrent.futures import ThreadPoolExecutor

    def one(n):
        if n.startswith("seed:"):
            p = seeded_as_patch(n[5:])
            try:
                return n, run_one(p)
            finally:
                os.unlink(p)
        return n, run_one(os.path.join(d, n + ".patch"))
    bad = 0
    with ThreadPoolExecutor(max_workers=jobs) as ex:
        for n, (ok, msg) in ex.map(one, names):
            print("%s %-40s %s" % ("PASS" if ok else "FAIL", n, msg), flush=True)
            bad += 0 if ok else 1
    print("selftest: %d/%d caught" % (len(names) - bad, len(names)))
    return 1 if bad else 0


if __name__ == "__main__":
    sys.exit(main(sys.argv[1:]))
