"""C15 — coherence of equality, ordering and keys (partial).
C15.ORD: `Ord for Value` reaches its kind-rank fallback only for operands of different rank.
C15.KEYORD: same for `Ord for Key`.  C15.KEY: Key's Eq/Ord/Hash share the as_str/as_number normalisers.
C15.KEYNUM: every signed->unsigned cast in KeyNumber's Eq/Ord/Hash is guarded by the `< 0` test of the same value."""
from engine import (VariantWalk, Tracer, option_table, const_table, find_calls, callee_names, callee_def, name_matches,
                    pl_str, pl_projs, AnchorMissing, leaf_call_is)

EXPLANATION = (
    "Decides the totality / Eq-consistency skeleton of the orderings by exhaustive walk over the finite tag domain "
    "(144 ValueInner pairs, 49 Key pairs) of the type-checked MIR: per pair, which arm of PartialOrd::partial_cmp is taken "
    "and whether its result is definitely Some (per-tag tables of as_i128/as_u128/cmp_f64_to_number are themselves read "
    "off the MIR); then the set of pairs that can reach the kind-rank fallback of Ord::cmp. Obligation: no pair of equal "
    "rank reaches the fallback (it would answer Equal for values that == distinguishes and break transitivity). For Key: "
    "Eq/Ord/Hash dispatch through the same normalisers and never read a numeric payload directly; KeyNumber's mixed-sign "
    "casts are guarded. NOT decided: the algebraic laws on payload values (reflexivity etc.), scan/hash cut-off "
    "equivalence of map lookup.")
NOT_DECIDED = "payload-level algebraic laws; get_attr scan vs hash cut-off equivalence; map lookup behaviour"
EXHAUSTIVE = True
ASSUMPTIONS = ["std PartialOrd/Ord of bool, str, [u8], u128, i128, u8 are total orders consistent with ==",
               "Iterator::cmp / Vec::cmp are lexicographic over the element Ord (std contract)"]

TOTAL_SELF_TYPES = {"bool", "str", "u8", "u128", "i128", "u64", "i64", "std::sync::Arc<std::vec::Vec<u8>>", "std::vec::Vec<u8>", "[u8]"}


def pair_coords(leaf):
    if leaf.kind == "param" and leaf.detail in (1, 2):
        return leaf.detail - 1
    return None


def resolve_wrapper_table(crate, body, adt):
    """option_table, following a body that only forwards param 1 to another local Option-returning fn"""
    calls = list(body.calls())
    if len(calls) == 1 and calls[0][1]["dest"]["l"] == 0:
        t = calls[0][1]
        tgt = t["f"].get("res") or t["f"]["def"]
        if tgt in crate.bodies and tgt != body.path:
            tr = Tracer(body)
            leaves = tr.operand(t["args"][0])
            if all(l.kind == "param" and l.detail == 1 for l in leaves):
                return resolve_wrapper_table(crate, crate.bodies[tgt], adt)
    return option_table(body, adt)


def outcome_classes(body, adt, arity, coords, summaries, pair_summaries=None):
    """For an Option-returning fn: dict tuple -> set of classes in {'some','none','maybe'}; plus VariantWalk state.
    summaries: {name: (arg_index, {variant: class})}"""
    vw_summ = {n: tab for n, (ai, tab) in summaries.items() if ai == 0}
    vw = VariantWalk(body, adt, arity, coords, vw_summ)
    st = vw.run()
    tr = vw.tr
    out = {}

    def add(tuples, fn):
        for t in tuples:
            out.setdefault(t, set()).add(fn(t))

    def class_of_call(t, bb):
        """returns function tuple -> class for a call terminator whose result flows to _0"""
        names = callee_names(t)
        for n, (ai, tab) in summaries.items():
            if any(name_matches(c, [n]) for c in names):
                c = vw.coord_of(tr.operand(t["args"][ai]))
                if c is None:
                    return lambda tup: "maybe"
                return lambda tup, c=c, tab=tab: tab.get(tup[c], "maybe")
        if any(name_matches(c, ["std::option::Option::<T>::map"]) for c in names):
            leaves = tr.operand(t["args"][0])
            fns = []
            for l in leaves:
                if l.kind == "call" and not [p for p in l.projs if not p.startswith("via:")]:
                    fns.append(class_of_call(body.term(l.detail[2]), l.detail[2]))
                else:
                    return lambda tup: "maybe"
            if len(fns) == 1:
                return fns[0]
            return lambda tup: "maybe"
        if any(name_matches(c, ["std::ops::FromResidual::from_residual"]) for c in names):
            return lambda tup: "none"
        if any(name_matches(c, ["std::cmp::PartialOrd::partial_cmp"]) for c in names):
            st_ty = t["f"].get("self_ty") or ""
            if st_ty in TOTAL_SELF_TYPES:
                return lambda tup: "some"
            return lambda tup: "maybe"
        return lambda tup: "maybe"

    for bb, idx, s in body.stmts():
        tuples = st.get(bb, frozenset())
        if not tuples:
            continue
        if idx == "t":
            if s["k"] == "call" and s["dest"]["l"] == 0 and not s["dest"]["p"]:
                add(tuples, class_of_call(s, bb))
            continue
        if s["k"] == "assign" and s["pl"]["l"] == 0 and not s["pl"]["p"]:
            rv = s["rv"]
            if rv["k"] == "agg" and rv.get("adt") == "std::option::Option":
                cls = "some" if rv["variant"] == "Some" else "none"
                add(tuples, lambda tup, cls=cls: cls)
            else:
                add(tuples, lambda tup: "maybe")
    return out, st


def definitely_some(classes):
    return classes == {"some"}


def run(ctx, rep):
    for cfg in ctx.tera_configs():
        crate = ctx.crate(cfg)
        check_value_ord(crate, rep, cfg)
        check_key(crate, rep, cfg)
        from props import c13
        c13.check_cmp(crate, rep, cfg)      # == / < on numbers compare exact mathematical values (no lossy cast of a compared operand)
        check_str_eq(crate, rep, cfg)
        check_keynum_ord(crate, rep, cfg)
        check_get_attr(crate, rep, cfg)
        check_get_filter(crate, rep, cfg)
        c13.check_conv(crate, rep, cfg)     # a value becomes a key / a compared number without a saturating float->int or lossy cast
    pos = ctx.posctl()
    check_posctl(ctx, pos)


def merge(tab):
    return {v: (next(iter(c)) if len(c) == 1 else "maybe") for v, c in tab.items()}


def check_value_ord(crate, rep, cfg):
    vi = crate.adts.get("value::ValueInner")
    if vi is None:
        raise AnchorMissing("enum value::ValueInner")
    f_as_i128 = crate.one("value::Value::as_i128")
    f_as_u128 = crate.one("value::Value::as_u128")
    f_c2n = crate.one("value::cmp_f64_to_number")
    f_pcmp = crate.one("<value::Value as std::cmp::PartialOrd>::partial_cmp")
    f_cmp = crate.one("<value::Value as std::cmp::Ord>::cmp")
    try:
        f_rank = crate.one("<value::Value as std::cmp::Ord>::cmp::type_order")
    except AnchorMissing:
        # the kind-rank table hoisted out of cmp into a free function of the module
        f_rank = crate.one("value::type_order")
    rep.analysed(f_as_i128, f_as_u128, f_c2n, f_pcmp, f_cmp, f_rank)
    t_i = option_table(f_as_i128, vi)
    t_u = option_table(f_as_u128, vi)
    rank = const_table(f_rank, vi)
    bad_rank = [v for v, r in rank.items() if len(r) != 1 or "?" in r or "call" in r]
    if bad_rank:
        rep.bad("C15.ORD", "C15.ORD:rank-table", f_rank.where(0), "kind-rank table is not a constant per variant for %s" % bad_rank)
        return
    rank = {v: next(iter(r)) for v, r in rank.items()}
    rep.ok("C15.ORD", "C15.ORD:rank-table", f_rank.where(0), "kind-rank table read off type_order: %s" % rank)
    # cmp_f64_to_number(x, other): table over other's tag (param 2)
    c2n, _ = outcome_classes(f_c2n, vi, 1, lambda l: 0 if (l.kind == "param" and l.detail == 2) else None,
                             {"value::Value::as_i128": (0, t_i), "value::Value::as_u128": (0, t_u)})
    t_c2n = merge({t[0]: c for t, c in c2n.items()})
    for v in vi.variant_names():
        t_c2n.setdefault(v, "maybe")
    rep.ok("C15.ORD", "C15.ORD:table:cmp_f64_to_number", f_c2n.where(0),
           "definitely-Some tags of cmp_f64_to_number: %s" % sorted(v for v, c in t_c2n.items() if c == "some"))
    summ = {"value::Value::as_i128": (0, t_i), "value::Value::as_u128": (0, t_u), "value::cmp_f64_to_number": (1, t_c2n)}
    pc, _ = outcome_classes(f_pcmp, vi, 2, pair_coords, summ)
    names = vi.variant_names()
    pc_class = {}
    for a in names:
        for b in names:
            cl = pc.get((a, b))
            pc_class[(a, b)] = "unreached" if not cl else ("some" if definitely_some(cl) else ("none" if cl == {"none"} else "maybe"))
    unreached = [p for p, c in pc_class.items() if c == "unreached"]
    if unreached:
        rep.bad("C15.ORD", "C15.ORD:partial_cmp:coverage", f_pcmp.where(0),
                "pairs with no outcome in partial_cmp (walk lost track): %s" % unreached[:5])
    # Ord::cmp: which pairs reach the fallback
    vw = VariantWalk(f_cmp, vi, 2, pair_coords, {})
    # refine on the result of partial_cmp(self, other): None edge keeps only pairs that are not definitely Some
    st = run_with_pair_summary(vw, f_cmp, "std::cmp::PartialOrd::partial_cmp", pc_class)
    fb_blocks = [bb for bb, t in find_calls(f_cmp, ["type_order"])]
    rep.floor("C15.ORD", "kind-rank fallback calls in Ord::cmp [%s]" % cfg, len(fb_blocks), 2)
    reaching = set()
    for bb in fb_blocks:
        reaching |= set(st.get(bb, ()))
    same_rank = [(a, b) for a in names for b in names if rank[a] == rank[b]]
    n_ok = 0
    for (a, b) in same_rank:
        key = "C15.ORD:%s:pair=%s,%s" % (f_cmp.path, a, b)
        what = ("Ord::cmp never answers by kind rank for the equal-rank pair (%s, %s): partial_cmp is definitely Some "
                "or a dedicated total arm handles it" % (a, b))
        if (a, b) in reaching:
            rep.bad("C15.ORD", key, f_cmp.where(fb_blocks[0]),
                    what + " — VIOLATED: partial_cmp outcome for the pair is '%s' and the pair reaches the rank fallback, "
                    "which returns Equal for values that == distinguishes" % pc_class[(a, b)])
        else:
            n_ok += 1
            rep.ok("C15.ORD", key, f_cmp.where(0), what + " [partial_cmp: %s]" % pc_class[(a, b)])
    # the dedicated arms must answer through an Ord::cmp (std lexicographic Iterator::cmp / Vec::cmp / scalar cmp),
    # never through a constant Ordering
    tr = Tracer(f_cmp)
    n_res = 0
    for bb, idx, s in f_cmp.stmts():
        tuples = st.get(bb, frozenset())
        if not any(rank[a] == rank[b] for a, b in tuples):
            continue
        src = None
        if idx == "t":
            if s["k"] == "call" and s["dest"]["l"] == 0 and not s["dest"]["p"]:
                names = callee_names(s)
                ok = any(name_matches(c, ["std::cmp::Ord::cmp", "std::iter::Iterator::cmp"]) for c in names)
                src = ("call " + callee_def(s), ok)
        elif s["k"] == "assign" and s["pl"]["l"] == 0 and not s["pl"]["p"]:
            leaves = tr.operand(s["rv"]["op"]) if s["rv"]["k"] == "use" else set()
            ok = bool(leaves) and all(leaf_call_is(l, "std::cmp::PartialOrd::partial_cmp") and "as:Some" in l.projs for l in leaves)
            src = ("assignment from %s" % sorted(str(l[0]) for l in leaves) if leaves else s["rv"]["k"], ok)
        if src is None:
            continue
        n_res += 1
        key = "C15.ORD:%s:result#%d" % (f_cmp.path, n_res)
        what = "a result of Ord::cmp reachable for equal-rank pairs comes from partial_cmp's Some payload or from an Ord::cmp/Iterator::cmp call"
        if src[1]:
            rep.ok("C15.ORD", key, f_cmp.where(bb, idx), what + " [%s]" % src[0])
        else:
            rep.bad("C15.ORD", key, f_cmp.where(bb, idx), what + " — VIOLATED: %s" % src[0])
    rep.floor("C15.ORD", "result sites of Ord::cmp reachable for equal-rank pairs [%s]" % cfg, n_res, 3)
    rep.note("C15.ORD[%s]: %d equal-rank pairs, %d pairs can reach the fallback (all of different rank): e.g. %s" % (
        cfg, len(same_rank), len(reaching), sorted(reaching)[:4]))


def run_with_pair_summary(vw, body, callee, pair_class):
    """VariantWalk.run, additionally refining on `match <callee>(self, other) {Some/None}`"""
    ef = vw.ef
    tr = vw.tr
    orig = vw.edge_filters
    cache = {}

    def pair_filter(bb):
        if bb in cache:
            return cache[bb]
        res = {}
        t = body.term(bb)
        if t["k"] == "switch" and t["op"]["k"] != "const" and not t["op"]["pl"]["p"]:
            d = ef.single_def(t["op"]["pl"]["l"])
            if d is not None and d[3]["k"] == "discr" and d[3]["adt"] == "std::option::Option":
                leaves = tr.place(d[3]["pl"])
                if leaves and all(leaf_call_is(l, callee) and not l.projs for l in leaves):
                    call = body.term(next(iter(leaves)).detail[2])
                    c0 = vw.coord_of(tr.operand(call["args"][0]))
                    c1 = vw.coord_of(tr.operand(call["args"][1]))
                    if (c0, c1) == (0, 1):
                        for tgt, facts in ef.facts_for_switch(bb).items():
                            for f in facts:
                                if f[0] == "variant" and f[4]:
                                    if "None" in f[3] and "Some" not in f[3]:
                                        res[tgt] = lambda tup: pair_class.get(tup) != "some"
                                    elif "Some" in f[3] and "None" not in f[3]:
                                        res[tgt] = lambda tup: pair_class.get(tup) != "none"
        cache[bb] = res
        return res

    state = {0: vw.all_tuples()}
    work = [0]
    while work:
        bb = work.pop()
        cur = state[bb]
        filters = orig(bb)
        pf = pair_filter(bb)
        for tgt in body.succ[bb]:
            ns = cur
            for (c, allowed) in filters.get(tgt, []):
                ns = frozenset(t for t in ns if t[c] in allowed)
            if tgt in pf:
                ns = frozenset(t for t in ns if pf[tgt](t))
            old = state.get(tgt, frozenset())
            new = old | ns
            if new != old:
                state[tgt] = new
                work.append(tgt)
    return state


NUMERIC_KEY_VARIANTS = {"U64", "I64", "U128", "I128"}
STRING_KEY_VARIANTS = {"String", "Str"}


def check_key(crate, rep, cfg):
    k = crate.adts.get("value::key::Key")
    if k is None:
        raise AnchorMissing("enum value::key::Key")
    f_as_str = crate.one("value::key::Key::<'a>::as_str")
    f_as_num = [b for p, b in crate.bodies.items() if p.endswith("::as_number") and "key" in p]
    if len(f_as_num) != 1:
        raise AnchorMissing("Key::as_number")
    f_as_num = f_as_num[0]
    f_rank = crate.one("value::key::type_order")
    f_eq = crate.one("<value::key::Key<'a> as std::cmp::PartialEq>::eq")
    f_cmp = crate.one("<value::key::Key<'a> as std::cmp::Ord>::cmp")
    f_hash = crate.one("<value::key::Key<'a> as std::hash::Hash>::hash")
    rep.analysed(f_as_str, f_as_num, f_rank, f_eq, f_cmp, f_hash)
    t_str = option_table(f_as_str, k)
    t_num = resolve_wrapper_table(crate, f_as_num, k)
    rank = {v: (next(iter(r)) if len(r) == 1 else "?") for v, r in const_table(f_rank, k).items()}
    # table sanity: strings <-> as_str some, numerics <-> as_number some
    exp_str = {v: ("some" if v in STRING_KEY_VARIANTS else "none") for v in k.variant_names()}
    exp_num = {v: ("some" if v in NUMERIC_KEY_VARIANTS else "none") for v in k.variant_names()}
    for name, tab, exp, f in (("as_str", t_str, exp_str, f_as_str), ("as_number", t_num, exp_num, f_as_num)):
        key = "C15.KEY:table:%s" % name
        if tab != exp:
            rep.bad("C15.KEY", key, f.where(0), "Key::%s per-variant table is %s, expected %s (string variants / numeric variants)" % (name, tab, exp))
        else:
            rep.ok("C15.KEY", key, f.where(0), "Key::%s is Some exactly for %s" % (name, sorted(v for v, c in tab.items() if c == "some")))
    # KEYORD: pairs reaching the rank fallback in Ord::cmp
    summ = {"as_str": t_str, "as_number": t_num}
    vw = VariantWalk(f_cmp, k, 2, pair_coords, {f_as_str.path: t_str, f_as_num.path: t_num})
    st = vw.run()
    fb_blocks = [bb for bb, t in find_calls(f_cmp, ["value::key::type_order"])]
    rep.floor("C15.KEYORD", "kind-rank fallback calls in Key::cmp [%s]" % cfg, len(fb_blocks), 2)
    reaching = set()
    for bb in fb_blocks:
        reaching |= set(st.get(bb, ()))
    names = k.variant_names()
    for a in names:
        for b in names:
            if rank[a] != rank[b]:
                continue
            key = "C15.KEYORD:%s:pair=%s,%s" % (f_cmp.path, a, b)
            what = "Key::cmp never answers by kind rank for the equal-rank pair (%s, %s)" % (a, b)
            if (a, b) in reaching:
                rep.bad("C15.KEYORD", key, f_cmp.where(fb_blocks[0]), what + " — VIOLATED: the pair reaches the rank fallback (Equal for distinct keys)")
            else:
                rep.ok("C15.KEYORD", key, f_cmp.where(0), what)
    # KEY: the three impls use the normalisers and never read a numeric/string payload directly
    for f in (f_eq, f_cmp, f_hash):
        uses_str = any(True for _ in find_calls(f, [f_as_str.path]))
        uses_num = any(True for _ in find_calls(f, [f_as_num.path]))
        direct = set()
        for bb, idx, s in f.stmts():
            for pl in places_of(s):
                for p in pl_projs(pl):
                    if p.startswith("as:") and p[3:] in (NUMERIC_KEY_VARIANTS | STRING_KEY_VARIANTS):
                        direct.add(p[3:])
        key = "C15.KEY:%s:normalised" % f.path
        what = "dispatches strings through Key::as_str and numbers through Key::as_number and reads no numeric/string payload directly"
        if (not uses_str or not uses_num or direct) and f is f_hash and hash_classes_agree(crate, f):
            rep.ok("C15.KEY", key, f.where(0), "Hash matches on the variants directly; every variant of one equality class feeds the hasher the same type (String/Str as "
                   "`str`, all integer variants through KeyNumber)")
        elif not uses_str or not uses_num or direct:
            rep.bad("C15.KEY", key, f.where(0), what + " — VIOLATED: as_str used=%s, as_number used=%s, direct payload reads of %s" % (
                uses_str, uses_num, sorted(direct)))
        else:
            rep.ok("C15.KEY", key, f.where(0), what)
    # KEYNUM: casts guarded by the sign test
    n_casts = 0
    for suffix in ("<value::key::KeyNumber as std::cmp::PartialEq>::eq", "<value::key::KeyNumber as std::cmp::Ord>::cmp",
                   "<value::key::KeyNumber as std::hash::Hash>::hash"):
        f = crate.one(suffix)
        rep.analysed(f)
        tr = Tracer(f)
        from engine import EdgeFacts
        ef = EdgeFacts(f, crate)
        ord_n = 0
        for bb, idx, s in f.stmts():
            if idx == "t" or s["k"] != "assign" or s["rv"]["k"] != "cast":
                continue
            rv = s["rv"]
            if not (rv["from"] == "i128" and rv["to"] == "u128"):
                continue
            n_casts += 1
            src = tr.operand(rv["op"])
            # find a dominating switch whose false edge of Lt(x, 0) holds with x of the same origin
            guarded = False
            for sb in sorted(f.reachable):
                t = f.term(sb)
                if t["k"] != "switch":
                    continue
                for tgt, facts in ef.facts_for_switch(sb).items():
                    for fa in facts:
                        if fa[0] == "cmp" and fa[1] == "Lt" and fa[3] == ("const", "0") and fa[4] is False and fa[2][0] == "place":
                            # operand of the comparison
                            d = ef.single_def(t["op"]["pl"]["l"])
                            lhs = tr.operand(d[3]["l"]) if d and d[3]["k"] == "bin" else set()
                            if lhs == src and f.dominates(tgt, bb) and tgt != sb:
                                guarded = True
            key = "C15.KEYNUM:%s:cast#%d" % (f.path, ord_n)
            ord_n += 1
            what = "i128→u128 cast of a Signed payload is dominated by the false edge of `v < 0` on the same value"
            if guarded:
                rep.ok("C15.KEYNUM", key, f.where(bb, idx), what)
            else:
                rep.bad("C15.KEYNUM", key, f.where(bb, idx), what + " — VIOLATED: unguarded sign-changing cast makes negative keys alias large unsigned ones")
    # the same conversion spelled `u128::try_from(v)` (Err exactly for negatives) needs no guard; it counts towards the floor
    n_try = 0
    for suffix in ("<value::key::KeyNumber as std::cmp::PartialEq>::eq", "<value::key::KeyNumber as std::cmp::Ord>::cmp",
                   "<value::key::KeyNumber as std::hash::Hash>::hash"):
        f = crate.one(suffix)
        n_try += sum(1 for bb, t in f.calls() if callee_def(t).endswith("TryFrom::try_from") and "u128" in str(t["f"].get("self_ty", "")) + str(t["f"].get("targs", "")))
    rep.floor("C15.KEYNUM", "signed→unsigned conversions (guarded casts / try_from) in KeyNumber Eq/Ord/Hash [%s]" % cfg, n_casts + n_try, 5)
    # Hash agrees with Eq across the two representations: whatever the Signed arm feeds the hasher for a value that may be non-negative,
    # the Unsigned arm feeds too (same sequence of (type, constant) writes) — equal keys of different width hash alike
    h = crate.one("<value::key::KeyNumber as std::hash::Hash>::hash")
    from engine import EdgeFacts
    from props.c02 import const_of
    from props.c09 import variant_switches
    hef = EdgeFacts(h, crate)
    arms = {}
    for sb, listed in variant_switches(h, crate, "key::KeyNumber"):
        for v, tgt in listed.items():
            arms[v] = {x for x in h.reach_from(tgt, removed_blocks=frozenset([sb])) if h.dominates(tgt, x)}
    if set(arms) != {"Signed", "Unsigned"}:
        rep.anchor_missing("C15.KEYNUM", "Signed/Unsigned arms of <KeyNumber as Hash>::hash")
        return
    neg_only = set()
    for sb in sorted(h.reachable):
        if h.term(sb)["k"] != "switch":
            continue
        for tgt, facts in hef.facts_for_switch(sb).items():
            for fa in facts:
                if fa[0] == "cmp" and fa[1] == "Lt" and fa[3] == ("const", "0") and fa[4] is True and len(h.pred[tgt]) == 1:
                    neg_only |= {x for x in h.reach_from(tgt) if h.dominates(tgt, x)}

    def sig(t):
        st = t["f"].get("self_ty") or (t["atys"][0] if t["atys"] else "?")
        c = const_of(h, t["args"][0])
        return (st.lstrip("&"), (c or {}).get("pv", (c or {}).get("v")) if c else None)

    def sequences(region, skip):
        """hasher-write signatures along each path of the arm (the arms are loop-free)"""
        hb = {bb: sig(t) for bb, t in h.calls(sorted(region)) if callee_def(t).endswith("hash::Hash::hash") and bb not in skip}
        out = set()

        def walk(bb, acc, depth):
            if depth > 64:
                return
            acc2 = acc + ((hb[bb],) if bb in hb else ())
            nxt = [x for x in h.succ[bb] if x in region and x not in skip]
            if not nxt:
                out.add(acc2)
            for x in nxt:
                walk(x, acc2, depth + 1)
        starts = [x for x in region if not any(p in region for p in h.pred[x])]
        for s0 in starts:
            if s0 not in skip:
                walk(s0, (), 0)
        return {q for q in out if q}
    s_nonneg = sequences(arms["Signed"], neg_only)
    s_unsigned = sequences(arms["Unsigned"], set())
    ok = bool(s_nonneg) and s_nonneg == s_unsigned
    rep.add("C15.KEYNUM", "C15.KEYNUM:hash-agrees-across-widths", ok, h.where(0), "outside the `v < 0` branch the Signed arm of KeyNumber's Hash writes the same (type, tag) sequence(s) "
            "as the Unsigned arm: %s" % sorted(s_unsigned) + ("" if ok else " — VIOLATED: Signed (possibly non-negative) writes %s: equal keys stored with different widths hash "
                                                               "differently (map lookups miss, equal maps compare unequal)" % sorted(s_nonneg)))


def places_of(s):
    from engine import iter_places_read
    for p in iter_places_read(s):
        yield p
    if s.get("k") == "assign":
        yield s["pl"]


def check_posctl(ctx, pos):
    """positive control: a two-variant enum whose cmp falls back to rank for an equal-rank pair must be flagged"""
    adt = pos.adts.get("ordctl::V")
    f_cmp = pos.bodies.get("<ordctl::V as std::cmp::Ord>::cmp")
    f_rank = pos.bodies.get("ordctl::rank")
    fired = False
    if adt and f_cmp and f_rank:
        rank = {v: next(iter(r)) for v, r in const_table(f_rank, adt).items()}
        vw = VariantWalk(f_cmp, adt, 2, pair_coords, {})
        st = vw.run()
        reaching = set()
        for bb, t in find_calls(f_cmp, ["ordctl::rank"]):
            reaching |= set(st.get(bb, ()))
        fired = any(rank[a] == rank[b] for a, b in reaching)
    if not ctx.control("C15.ORD", fired):
        raise AnchorMissing("positive control for C15.ORD did not fire")


def hash_classes_agree(crate, f):
    """second accepted shape of `Hash for Key`: an exhaustive match; the set of types handed to the hasher is the same for all variants of an
    equality class — {String, Str} hash a `str`, {U64, I64, U128, I128} hash a KeyNumber (whose own agreement is C15.KEYNUM)"""
    from props.c09 import variant_switches
    sig = {}
    for sb, listed in variant_switches(f, crate, "key::Key"):
        for v, tgt in listed.items():
            region = {x for x in f.reach_from(tgt, removed_blocks=frozenset([sb])) if f.dominates(tgt, x)}
            tys = set()
            for bb, t in f.calls(sorted(region)):
                if callee_def(t).endswith("hash::Hash::hash"):
                    tys.add((t["f"].get("self_ty") or (t["atys"][0] if t["atys"] else "?")).lstrip("&"))
            sig.setdefault(v, set()).update(tys)
    strs = [sig.get(v) for v in STRING_KEY_VARIANTS]
    nums = [sig.get(v) for v in NUMERIC_KEY_VARIANTS]
    if not all(strs) or not all(nums):
        return False
    if any(x != strs[0] for x in strs) or any(x != nums[0] for x in nums):
        return False
    return strs[0] == {"str"} and any("KeyNumber" in x for x in nums[0]) and len(nums[0]) == 1


def check_str_eq(crate, rep, cfg):
    """C15.STR — strings are equal when their CONTENT is equal, whatever their storage (inline / heap) and their safe mark: `==`, `<` and
    Ord::cmp on two strings all go through SmartString::as_str(), and SmartString has no equality of its own that could look at the
    representation."""
    own = sorted(p_ for p_ in crate.bodies if "SmartString" in p_ and ("PartialEq" in p_ or "PartialOrd" in p_ or "cmp::Ord" in p_ or "::Eq" in p_))
    bad_own = []
    for p_ in own:
        b = crate.bodies[p_]
        if b.j.get("from_exp"):
            bad_own.append(p_ + " (derived: compares the representation)")
        elif not any(callee_def(t).endswith("SmartString::as_str") for bb, t in b.calls()):
            bad_own.append(p_ + " (does not go through as_str)")
    rep.add("C15.STR", "C15.STR:SmartString:no-representation-equality", not bad_own, "tera/src/value/mod.rs", "SmartString has no comparison impl that looks at its representation "
            "(impls found: %s)" % (own or "none") + ("" if not bad_own else " — VIOLATED: %s: equal text stored differently (inline vs heap, owned key vs literal) compares unequal" % bad_own))
    # (Ord::cmp answers two strings through partial_cmp's Some — C15.ORD)
    for suffix, what in (("<value::Value as std::cmp::PartialEq>::eq", "=="), ("<value::Value as std::cmp::PartialOrd>::partial_cmp", "<")):
        b = crate.one(suffix)
        n_as = len([1 for bb, t in b.calls() if callee_def(t).endswith("SmartString::as_str")])
        direct = [callee_def(t) for bb, t in b.calls() if "SmartString" in (t["f"].get("self_ty") or "") and callee_def(t).rsplit("::", 1)[-1] in ("eq", "ne", "partial_cmp", "cmp")]
        ok = n_as >= 2 and not direct
        rep.add("C15.STR", "C15.STR:%s:by-content" % suffix, ok, b.where(0), "%s on two strings compares the `as_str()` of both (%d as_str calls)" % (what, n_as)
                + ("" if ok else " — VIOLATED: compares SmartString values directly: %s" % direct))


def check_keynum_ord(crate, rep, cfg):
    """C15.KEYNUM — integer keys are ordered numerically: two Signed payloads are compared by i128::cmp on the payloads themselves, two
    Unsigned ones by u128::cmp; no magnitude / absolute-value form takes part (it orders negatives backwards)."""
    c = [b for p_, b in crate.bodies.items() if p_.endswith("KeyNumber as std::cmp::Ord>::cmp")]
    if len(c) != 1:
        rep.anchor_missing("C15.KEYNUM", "<KeyNumber as Ord>::cmp")
        return
    b = c[0]
    rep.analysed(b)
    bodies = crate.with_closures(b)
    mags = sorted({callee_def(t).rsplit("::", 1)[-1] for bd in bodies for bb, t in bd.calls()
                   if callee_def(t).rsplit("::", 1)[-1] in ("unsigned_abs", "abs", "wrapping_abs", "checked_abs", "abs_diff", "to_bits", "to_be_bytes", "to_le_bytes", "to_ne_bytes", "signum")})
    tr = Tracer(b)
    direct = {"i128": False, "u128": False}
    for bb, t in b.calls():
        if callee_def(t) == "std::cmp::Ord::cmp" and t["f"].get("self_ty") in ("i128", "u128"):
            ty = t["f"]["self_ty"]
            var = "as:Signed" if ty == "i128" else "as:Unsigned"
            sides = []
            for a in t["args"]:
                ls = [l for l in tr.operand(a) if l.kind != "cycle"]
                sides.append(bool(ls) and all(l.kind == "param" and var in l.projs and not any(p.startswith("cast:") for p in l.projs) for l in ls))
            if all(sides) and {next(iter(tr.operand(t["args"][0]))).detail, next(iter(tr.operand(t["args"][1]))).detail} == {1, 2}:
                direct[ty] = True
    ok = not mags and all(direct.values())
    rep.add("C15.KEYNUM", "C15.KEYNUM:ord:same-sign-pairs-compare-payloads", ok, b.where(0), "KeyNumber::cmp compares Signed/Signed with i128::cmp and Unsigned/Unsigned with "
            "u128::cmp on the payloads themselves" + ("" if ok else " — VIOLATED: %s" % (("uses %s" % mags) if mags else "direct payload comparison missing for %s" % sorted(k for k, v in direct.items() if not v))))


def check_get_attr(crate, rep, cfg):
    """C15.ATTR — `m.name` and `m["name"]` find the same entry: Value::get_attr's linear scan (small maps) must look at EVERY entry until it
    finds a string key equal to the attribute — a non-string key is skipped, not a reason to stop. Structurally: inside a hand-written
    loop of get_attr no `None` is returned (no `?`, no early `return None`); a `find`/`find_map` predicate may answer None / false freely
    (that only moves on to the next entry)."""
    b = crate.one("value::Value::get_attr")
    rep.analysed(b)
    bad = []
    from engine import EdgeFacts
    tr = Tracer(b)
    ef = EdgeFacts(b, crate)

    def none_blocks():
        out = set()
        for bb2, idx2, st2 in b.stmts():
            if idx2 != "t" and st2.get("k") == "assign" and st2["pl"]["l"] == 0 and not st2["pl"]["p"] and st2["rv"]["k"] == "agg" and st2["rv"].get("variant") == "None":
                out.add(bb2)
            if idx2 == "t" and st2["k"] == "call" and callee_def(st2).endswith("FromResidual::from_residual") and st2["dest"]["l"] == 0:
                out.add(bb2)
        return out
    nb = none_blocks()
    for head, L in b.natural_loops().items():
        # leaving the loop anywhere but on the iterator's `None` (exhausted) edge and then answering None = giving up early
        for u in sorted(L):
            for v in b.succ[u]:
                if v in L:
                    continue
                exhausted = False
                t_u = b.term(u)
                if t_u["k"] == "switch" and t_u["op"]["k"] != "const" and not t_u["op"]["pl"]["p"]:
                    d = ef.single_def(t_u["op"]["pl"]["l"])
                    if d and d[3]["k"] == "discr":
                        src = [l for l in tr.place(d[3]["pl"]) if l.kind != "cycle"]
                        if src and all(l.kind == "call" and l.detail[0].endswith("Iterator::next") and not l.projs for l in src):
                            exhausted = True
                if not exhausted and (b.reach_from(v) & nb):
                    bad.append(b.where(u))
        for bb in sorted(L):
            for idx, st in enumerate(b.blocks[bb]["s"]):
                if st.get("k") == "assign" and st["pl"]["l"] == 0 and not st["pl"]["p"] and st["rv"]["k"] == "agg" and st["rv"].get("variant") == "None":
                    bad.append(b.where(bb, idx))
            t = b.term(bb)
            if t["k"] == "call" and callee_def(t).endswith("FromResidual::from_residual") and t["dest"]["l"] == 0:
                bad.append(b.where(bb))
    # the scan exists in one of the two forms
    scans = [1 for bb, t in b.calls() if callee_def(t).rsplit("::", 1)[-1] in ("find_map", "find")] + [1 for _ in b.natural_loops()]
    ok = not bad and bool(scans)
    rep.add("C15.ATTR", "C15.ATTR:get_attr:scan-skips-non-matching-keys", ok, b.where(0), "the small-map scan of get_attr only stops on a match (non-string keys are skipped), so dot "
            "access agrees with the keyed lookup" + ("" if ok else " — VIOLATED: gives up inside the scan at %s" % (bad[:2] or "scan not found")))


def check_get_filter(crate, rep, cfg):
    """C15.ATTR — the `get` filter finds what `m[k]` and `k in m` find: one Map lookup with `Key::Str(key)` built from the keyword argument
    as it is — the key is not taken apart (split at dots, trimmed, followed as a path)."""
    b = crate.one("filters::get")
    rep.analysed(b)
    names = {callee_def(t).rsplit("::", 1)[-1] for bd in crate.with_closures(b) for bb, t in bd.calls()}
    apart = sorted(names & {"split_once", "split", "rsplit_once", "splitn", "find", "get_from_path", "trim", "strip_prefix", "strip_suffix", "to_lowercase", "contains", "char_indices"})
    lookups = [(bb, t) for bb, t in b.calls() if callee_def(t).endswith("::get") and ("Map" in callee_def(t) or "Map<" in str(t.get("atys")))]
    ok = len(lookups) == 1 and not apart
    rep.add("C15.ATTR", "C15.ATTR:get-filter:one-lookup-of-the-key-as-given", ok, b.where(lookups[0][0]) if lookups else b.where(0), "filters::get is one map lookup of Key::Str(key), the "
            "key untouched" + ("" if ok else " — VIOLATED: %s" % (("takes the key apart with %s" % apart) if apart else "%d lookups" % len(lookups))))
