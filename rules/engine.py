"""Rule engine library: facts loading, CFG, dominators, def-use tracing, call graph.

Everything here works on the JSON facts dumped by driver/ (MIR at opt-level 0 with
resolved callees). No rule lives here.
"""
import json
import sys
from collections import defaultdict, deque

sys.setrecursionlimit(20000)


# --------------------------------------------------------------------------- places

def pl_local(pl):
    return pl["l"]


def proj_name(p):
    """Normalised, hashable name of one projection element."""
    if isinstance(p, str):
        return p  # deref / rawderef / opaque
    if "n" in p:
        return "." + p["n"]
    if "dc" in p:
        return "as:" + p["dc"]
    if "idx" in p:
        return "[_]"
    if "cidx" in p:
        return "[%s]" % p["cidx"]
    if "sub" in p:
        return "[..]"
    return "?"


def pl_projs(pl):
    return [proj_name(p) for p in pl["p"]]


def pl_str(pl):
    return "_%d%s" % (pl["l"], "".join(pl_projs(pl)))


def norm_projs(projs):
    """Cancel '&' followed by deref, and deref followed by '&' (reborrow): both are the identity on provenance."""
    out = []
    for p in projs:
        if p in ("deref", "rawderef") and out and out[-1] == "&":
            out.pop()
        elif p == "&" and out and out[-1] in ("deref", "rawderef"):
            out.pop()
        else:
            out.append(p)
    return out


# --------------------------------------------------------------------------- body

class Body:
    def __init__(self, j, crate):
        self.j = j
        self.crate = crate
        self.path = j["path"]
        self.kind = j["kind"]
        self.file = j["file"]
        self.line = j["line"]
        self.blocks = j["blocks"]
        self.locals = j["locals"]
        self.arg_count = j["arg_count"]
        self.parent = j.get("parent")
        self.n = len(self.blocks)
        self._succ = None
        self._pred = None
        self._reach = None
        self._idom = None
        self._ipdom = None
        self._defs = None
        self._rpo = None

    def __repr__(self):
        return "<Body %s>" % self.path

    # ---- naming helpers
    def local_name(self, l):
        return self.locals[l].get("n")

    def local_ty(self, l):
        return self.locals[l]["ty"]

    def locals_named(self, name):
        return [i for i, l in enumerate(self.locals) if l.get("n") == name]

    def site(self, bb, idx=None):
        """(file, line) of a statement or terminator."""
        b = self.blocks[bb]
        if idx is None or idx == "t":
            sp = b["t"].get("sp") or {}
        else:
            sp = b["s"][idx].get("sp") or {}
        return (self.file, sp.get("l", self.line))

    def where(self, bb, idx=None):
        f, l = self.site(bb, idx)
        return "%s:%s" % (f, l)

    # ---- CFG (unwind edges and cleanup blocks excluded)
    def term(self, bb):
        return self.blocks[bb]["t"]

    def edges(self, bb):
        """list of (target, label). label: 'goto' | ('sw', value) | ('sw','otherwise') | 'call' | 'assert' | 'drop'"""
        t = self.blocks[bb]["t"]
        k = t["k"]
        if k == "goto":
            return [(t["t"], "goto")]
        if k == "switch":
            op = t["op"]
            if op["k"] in ("copy", "move") and not op["pl"]["p"]:
                ds = self.defs.get(op["pl"]["l"], [])
                if len(ds) == 1 and not ds[0][2] and ds[0][3]["k"] == "use" and ds[0][3]["op"]["k"] == "const" and ds[0][3]["op"].get("v") is not None:
                    op = ds[0][3]["op"]      # a local holding a compile-time constant (cfg!(..))
            if op["k"] == "const" and op.get("v") is not None:
                # switch on a compile-time constant (cfg!(..), macro-expanded `if true`): only the matching edge is feasible
                for v, tb in t["targets"]:
                    if v == op["v"]:
                        return [(tb, ("sw", v))]
                return [(t["otherwise"], ("sw", "otherwise"))]
            out = [(tb, ("sw", v)) for v, tb in t["targets"]]
            out.append((t["otherwise"], ("sw", "otherwise")))
            return out
        if k == "call":
            return [(t["t"], "call")] if t["t"] is not None else []
        if k == "assert":
            return [(t["t"], "assert")]
        if k == "drop":
            return [(t["t"], "drop")]
        return []

    @property
    def succ(self):
        if self._succ is None:
            self._succ = [[e[0] for e in self.edges(b)] for b in range(self.n)]
        return self._succ

    @property
    def pred(self):
        if self._pred is None:
            p = [[] for _ in range(self.n)]
            for b in range(self.n):
                for s in self.succ[b]:
                    p[s].append(b)
            self._pred = p
        return self._pred

    def reach_from(self, start, removed_edges=frozenset(), removed_blocks=frozenset()):
        """Blocks reachable from `start` (a block or iterable of blocks). removed_edges: set of (src, dst)."""
        if isinstance(start, int):
            start = [start]
        seen = set()
        work = [s for s in start if s not in removed_blocks]
        seen.update(work)
        while work:
            b = work.pop()
            for s in self.succ[b]:
                if (b, s) in removed_edges or s in removed_blocks or s in seen:
                    continue
                seen.add(s)
                work.append(s)
        return seen

    @property
    def reachable(self):
        if self._reach is None:
            self._reach = self.reach_from(0)
        return self._reach

    def return_blocks(self):
        return [b for b in self.reachable if self.blocks[b]["t"]["k"] == "return"]

    def rpo(self):
        if self._rpo is None:
            seen = set()
            order = []
            stack = [(0, iter(self.succ[0]))]
            seen.add(0)
            while stack:
                b, it = stack[-1]
                adv = False
                for s in it:
                    if s not in seen:
                        seen.add(s)
                        stack.append((s, iter(self.succ[s])))
                        adv = True
                        break
                if not adv:
                    order.append(b)
                    stack.pop()
            order.reverse()
            self._rpo = order
        return self._rpo

    @staticmethod
    def _compute_idom(order, preds, entry):
        """Cooper-Harvey-Kennedy. order: RPO list starting with entry."""
        idx = {b: i for i, b in enumerate(order)}
        idom = {entry: entry}
        changed = True
        while changed:
            changed = False
            for b in order[1:]:
                new = None
                for p in preds(b):
                    if p in idom:
                        if new is None:
                            new = p
                        else:
                            a, c = p, new
                            while a != c:
                                while idx[a] > idx[c]:
                                    a = idom[a]
                                while idx[c] > idx[a]:
                                    c = idom[c]
                            new = a
                if new is not None and idom.get(b) != new:
                    idom[b] = new
                    changed = True
        return idom

    @property
    def idom(self):
        if self._idom is None:
            order = self.rpo()
            inorder = set(order)
            self._idom = self._compute_idom(order, lambda b: [p for p in self.pred[b] if p in inorder], 0)
        return self._idom

    def dominates(self, a, b):
        """a dominates b (reflexive)."""
        idom = self.idom
        if b not in idom or a not in idom:
            return False
        while True:
            if a == b:
                return True
            nb = idom[b]
            if nb == b:
                return False
            b = nb

    def dominated_by(self, a):
        return {b for b in self.reachable if self.dominates(a, b)}

    @property
    def ipdom(self):
        """post-dominators w.r.t. a virtual exit (-1) fed by every block without successors."""
        if self._ipdom is None:
            EXIT = -1
            reach = self.reachable
            rsucc = defaultdict(list)  # reversed graph: successors = CFG preds
            rpred = defaultdict(list)
            for b in reach:
                ss = [s for s in self.succ[b] if s in reach]
                if not ss:
                    rsucc[EXIT].append(b)
                    rpred[b].append(EXIT)
                for s in ss:
                    rsucc[s].append(b)
                    rpred[b].append(s)
            seen = {EXIT}
            order = []
            stack = [(EXIT, iter(rsucc[EXIT]))]
            while stack:
                b, it = stack[-1]
                adv = False
                for s in it:
                    if s not in seen:
                        seen.add(s)
                        stack.append((s, iter(rsucc[s])))
                        adv = True
                        break
                if not adv:
                    order.append(b)
                    stack.pop()
            order.reverse()
            inorder = set(order)
            self._ipdom = self._compute_idom(order, lambda b: [p for p in rpred[b] if p in inorder], EXIT)
        return self._ipdom

    def postdominates(self, a, b):
        """a post-dominates b (reflexive): every path from b to exit passes a."""
        ip = self.ipdom
        if b not in ip or a not in ip:
            return False
        while True:
            if a == b:
                return True
            nb = ip[b]
            if nb == b:
                return False
            b = nb

    def sccs(self, within=None):
        """Tarjan SCCs (iterative) over the normal CFG restricted to `within` (set) or reachable."""
        nodes = within if within is not None else self.reachable
        index = {}
        low = {}
        onstack = set()
        stack = []
        out = []
        counter = [0]
        for root in sorted(nodes):
            if root in index:
                continue
            work = [(root, 0)]
            while work:
                v, pi = work[-1]
                if pi == 0:
                    index[v] = low[v] = counter[0]
                    counter[0] += 1
                    stack.append(v)
                    onstack.add(v)
                succs = [s for s in self.succ[v] if s in nodes]
                if pi < len(succs):
                    work[-1] = (v, pi + 1)
                    w = succs[pi]
                    if w not in index:
                        work.append((w, 0))
                    elif w in onstack:
                        low[v] = min(low[v], index[w])
                else:
                    work.pop()
                    if work:
                        u = work[-1][0]
                        low[u] = min(low[u], low[v])
                    if low[v] == index[v]:
                        comp = []
                        while True:
                            w = stack.pop()
                            onstack.discard(w)
                            comp.append(w)
                            if w == v:
                                break
                        out.append(comp)
        return out

    def loops(self):
        """SCCs that contain a cycle."""
        res = []
        for c in self.sccs():
            if len(c) > 1 or c[0] in self.succ[c[0]]:
                res.append(set(c))
        return res

    def natural_loops(self):
        """{head: body} — natural loops from back edges (x -> h with h dominating x); nested loops are separate entries"""
        if getattr(self, "_nat", None) is not None:
            return self._nat
        loops = {}
        for x in sorted(self.reachable):
            for h in self.succ[x]:
                if h in self.reachable and self.dominates(h, x):
                    body = loops.setdefault(h, {h})
                    work = [x]
                    while work:
                        n = work.pop()
                        if n in body:
                            continue
                        body.add(n)
                        work.extend(p for p in self.pred[n] if p in self.reachable)
        self._nat = loops
        return loops

    def innermost_loop(self, bb):
        c = [L for L in self.natural_loops().values() if bb in L]
        return min(c, key=len) if c else None

    # ---- statements iteration
    def stmts(self, blocks=None):
        """yield (bb, idx, stmt) for assign statements, and (bb, 't', term) for terminators."""
        bs = blocks if blocks is not None else sorted(self.reachable)
        for b in bs:
            blk = self.blocks[b]
            for i, s in enumerate(blk["s"]):
                yield b, i, s
            yield b, "t", blk["t"]

    def calls(self, blocks=None):
        bs = blocks if blocks is not None else sorted(self.reachable)
        for b in bs:
            t = self.blocks[b]["t"]
            if t["k"] == "call":
                yield b, t

    # ---- def-use
    @property
    def defs(self):
        """local -> list of (bb, idx|'t', place projs (names), rv or None for call result)"""
        if self._defs is None:
            d = defaultdict(list)
            for b in range(self.n):
                blk = self.blocks[b]
                if blk["cleanup"]:
                    continue
                for i, s in enumerate(blk["s"]):
                    if s["k"] == "assign":
                        d[s["pl"]["l"]].append((b, i, pl_projs(s["pl"]), s["rv"]))
                    elif s["k"] == "setdiscr":
                        d[s["pl"]["l"]].append((b, i, pl_projs(s["pl"]), {"k": "setdiscr", "v": s["v"]}))
                t = blk["t"]
                if t["k"] == "call":
                    d[t["dest"]["l"]].append((b, "t", pl_projs(t["dest"]), {"k": "call", "t": t}))
            self._defs = d
        return self._defs

    def is_param(self, l):
        return 1 <= l <= self.arg_count


def callee_name(t):
    """Best name of a call terminator's callee: resolved path if available."""
    f = t["f"]
    if f.get("indirect"):
        return "<indirect>"
    return f.get("res") or f["def"]


def callee_def(t):
    f = t["f"]
    if f.get("indirect"):
        return "<indirect>"
    return f["def"]


def callee_names(t):
    f = t["f"]
    if f.get("indirect"):
        return {"<indirect>"}
    s = {f["def"]}
    if f.get("res"):
        s.add(f["res"])
    return s


# --------------------------------------------------------------------------- tracing

# calls through which a value's identity is preserved (the result *is* (a view of / a copy of) arg0)
TRANSPARENT_CALLS = {
    "std::ops::Deref::deref", "std::ops::DerefMut::deref_mut",
    "std::clone::Clone::clone", "std::borrow::Borrow::borrow", "std::borrow::BorrowMut::borrow_mut",
    "std::convert::AsRef::as_ref", "std::convert::AsMut::as_mut",
    "std::convert::Into::into", "std::convert::From::from",
    "std::borrow::ToOwned::to_owned", "std::string::ToString::to_string",
    "std::string::String::as_str", "std::string::String::as_bytes", "core::str::<impl str>::as_bytes",
    "std::vec::Vec::<T, A>::as_slice", "std::vec::Vec::<T, A>::as_mut_slice",
    "std::option::Option::<T>::as_ref", "std::option::Option::<T>::as_mut",
    "std::option::Option::<T>::as_deref", "std::option::Option::<&T>::cloned", "std::option::Option::<&T>::copied",
    "std::result::Result::<T, E>::as_ref",
    "std::boxed::Box::<T>::new", "std::sync::Arc::<T>::new",
    "std::ops::Try::branch", "std::ops::FromResidual::from_residual",
    "std::iter::IntoIterator::into_iter",
}


class Leaf(tuple):
    """(kind, detail, projs) ; kind in param|call|const|agg|op|cycle|multi|unknown"""
    __slots__ = ()

    @property
    def kind(self):
        return self[0]

    @property
    def detail(self):
        return self[1]

    @property
    def projs(self):
        return self[2]


class Tracer:
    """Flow-insensitive, place-sensitive backward provenance over one body."""

    def __init__(self, body, transparent=None, max_depth=60):
        self.b = body
        self.transparent = TRANSPARENT_CALLS if transparent is None else transparent
        self.max_depth = max_depth

    def operand(self, op, projs=()):
        if op["k"] == "const":
            if "fn" in op:
                return {Leaf(("const", ("fn", op["fn"]), tuple(projs)))}
            return {Leaf(("const", (op.get("ty"), op.get("v", op.get("s", op.get("cdef")))), tuple(projs)))}
        if op["k"] in ("copy", "move"):
            return self.place(op["pl"], projs)
        return {Leaf(("unknown", "operand", tuple(projs)))}

    def place(self, pl, extra=()):
        return self._trace(pl["l"], tuple(norm_projs(pl_projs(pl) + list(extra))), set(), 0)

    def _trace(self, local, projs, visited, depth):
        b = self.b
        key = (local, projs)
        if key in visited or depth > self.max_depth:
            return {Leaf(("cycle", local, projs))}
        visited = visited | {key}
        defs = b.defs.get(local, [])
        out = set()
        if b.is_param(local):
            out.add(Leaf(("param", local, projs)))
        if not defs and not b.is_param(local):
            return {Leaf(("unknown", ("undef", local), projs))}
        for (bb, idx, dprojs, rv) in defs:
            dprojs = tuple(norm_projs(dprojs))
            # assignment to a sub-place: relevant only if it is a prefix of (or extends) what we look for
            if dprojs:
                n = min(len(dprojs), len(projs))
                if dprojs[:n] != projs[:n]:
                    continue
                if len(dprojs) > len(projs):
                    # writes a part of the traced place: record as partial
                    out |= self._rv(rv, (), visited, depth, bb, idx, partial=dprojs[len(projs):])
                    continue
                rest = projs[len(dprojs):]
            else:
                rest = projs
            out |= self._rv(rv, rest, visited, depth, bb, idx)
        return out

    def _rv(self, rv, rest, visited, depth, bb, idx, partial=None):
        b = self.b
        k = rv["k"]
        if partial is not None:
            rest = ()
        if k == "use":
            op = rv["op"]
            if op["k"] == "const":
                return self.operand(op, rest)
            pl = op["pl"]
            return self._trace(pl["l"], tuple(norm_projs(pl_projs(pl) + list(rest))), visited, depth + 1)
        if k == "ref" or k == "rawptr":
            pl = rv["pl"]
            return self._trace(pl["l"], tuple(norm_projs(pl_projs(pl) + ["&"] + list(rest))), visited, depth + 1)
        if k == "cast":
            op = rv["op"]
            ck = rv["ck"]
            if op["k"] == "const":
                return self.operand(op, rest)
            pl = op["pl"]
            marker = [] if ck.startswith("PointerCoercion") or ck in ("Transmute", "PtrToPtr") else ["cast:%s:%s->%s" % (ck, rv["from"], rv["to"])]
            return self._trace(pl["l"], tuple(norm_projs(pl_projs(pl) + marker + list(rest))), visited, depth + 1)
        if k == "agg":
            if rest and rv.get("ak") in ("adt", "tuple", "closure"):
                r = list(rest)
                # optional downcast first
                if r and r[0].startswith("as:"):
                    if rv.get("ak") == "adt" and rv.get("variant") != r[0][3:]:
                        return set()  # other variant: this def cannot be the source
                    r = r[1:]
                if r and r[0].startswith("."):
                    fname = r[0][1:]
                    ops = rv["ops"]
                    sel = None
                    if rv.get("ak") == "adt":
                        fields = rv.get("fields", [])
                        if fname in fields:
                            sel = fields.index(fname)
                    elif fname.isdigit():
                        sel = int(fname)
                    if sel is not None and sel < len(ops):
                        o = ops[sel]
                        if o["k"] in ("copy", "move"):
                            # keep the visited set: `x.f = Agg { f0: x.f.f0, .. }` refers to itself
                            return self._trace(o["pl"]["l"], tuple(norm_projs(pl_projs(o["pl"]) + list(r[1:]))), visited, depth + 1)
                        return self.operand(o, r[1:])
            return {Leaf(("agg", (rv.get("ak"), rv.get("adt"), rv.get("variant"), bb, idx), tuple(rest)))}
        if k == "call":
            t = rv["t"]
            names = callee_names(t)
            if names & self.transparent and t["args"]:
                a0 = t["args"][0]
                marker = ["via:" + callee_def(t)]
                if a0["k"] == "const":
                    return self.operand(a0, marker + list(rest))
                pl = a0["pl"]
                return self._trace(pl["l"], tuple(norm_projs(pl_projs(pl) + marker + list(rest))), visited, depth + 1)
            return {Leaf(("call", (callee_def(t), callee_name(t), bb), tuple(rest)))}
        if k in ("bin", "un", "discr", "repeat", "setdiscr", "tls"):
            return {Leaf(("op", (k, rv.get("op") if isinstance(rv.get("op"), str) else None, bb, idx), tuple(rest)))}
        return {Leaf(("unknown", k, tuple(rest)))}


# --------------------------------------------------------------------------- edge facts

class EdgeFacts:
    """What a switch edge tells us. Facts are tuples:
       ('variant', adt, place_str, frozenset(variant names), positive)
       ('call', callee, args(tuple of place strs), truth)
       ('cmp', op, lhs, rhs, truth)   lhs/rhs are operand descriptors
       ('bool', place_str, truth)
    """

    def __init__(self, body, crate):
        self.b = body
        self.crate = crate

    def single_def(self, local):
        defs = [d for d in self.b.defs.get(local, []) if not d[2]]
        if len(defs) == 1:
            return defs[0]
        return None

    def op_desc(self, op):
        if op["k"] == "const":
            return ("const", op.get("v", op.get("s", op.get("cdef"))))
        return ("place", pl_str(op["pl"]))

    def facts_for_switch(self, bb):
        """returns dict target_block -> list of facts (a target reached by several values gets a merged fact)"""
        t = self.b.term(bb)
        assert t["k"] == "switch"
        op = t["op"]
        res = defaultdict(list)
        if op["k"] == "const":
            return res
        desc = self.describe_bool_or_discr(op["pl"], t)
        if desc is None:
            return res
        kind = desc[0]
        targets = t["targets"]
        otherwise = t["otherwise"]
        if kind == "discr":
            _, adt_path, place = desc
            adt = self.crate.adts.get(adt_path)
            by_target = defaultdict(set)
            listed = set()
            for v, tb in targets:
                name = adt.variant_by_discr(v) if adt else v
                by_target[tb].add(name)
                listed.add(name)
            for tb, names in by_target.items():
                res[tb].append(("variant", adt_path, place, frozenset(names), True))
            if adt:
                rest = frozenset(n for n in adt.variant_names() if n not in listed)
                res[otherwise].append(("variant", adt_path, place, rest, True))
            else:
                res[otherwise].append(("variant", adt_path, place, frozenset(listed), False))
        else:
            # boolean-like: value 0 => false
            for v, tb in targets:
                truth = (v != "0")
                res[tb].extend(self.boolean_facts(desc, truth))
            if len(targets) == 1:
                truth = (targets[0][0] == "0")
                res[otherwise].extend(self.boolean_facts(desc, truth))
        return res

    def boolean_facts(self, desc, truth):
        kind = desc[0]
        if kind == "not":
            return self.boolean_facts(desc[1], not truth)
        if kind == "call":
            return [("call", desc[1], desc[2], truth, desc[3])]
        if kind == "cmp":
            return [("cmp", desc[1], desc[2], desc[3], truth)]
        if kind == "bool":
            return [("bool", desc[1], truth)]
        return []

    def describe_bool_or_discr(self, pl, term=None, depth=0):
        if pl["p"]:
            return ("bool", pl_str(pl))
        if depth > 10:
            return None
        d = self.single_def(pl["l"])
        if d is None:
            return ("bool", pl_str(pl))
        bb, idx, _, rv = d
        k = rv["k"]
        if k == "discr":
            return ("discr", rv["adt"], pl_str(rv["pl"]))
        if k == "un" and rv["op"] == "Not":
            a = rv["a"]
            if a["k"] == "const":
                return None
            inner = self.describe_bool_or_discr(a["pl"], None, depth + 1)
            return ("not", inner) if inner else None
        if k == "bin" and rv["op"] in ("Eq", "Ne", "Lt", "Le", "Gt", "Ge"):
            return ("cmp", rv["op"], self.op_desc(rv["l"]), self.op_desc(rv["r"]))
        if k == "use":
            op = rv["op"]
            if op["k"] == "const":
                return None
            return self.describe_bool_or_discr(op["pl"], None, depth + 1)
        if k == "call":
            t = rv["t"]
            args = tuple(self.op_desc(a)[1] for a in t["args"])
            return ("call", callee_name(t), args, bb)
        return ("bool", pl_str(pl))


# --------------------------------------------------------------------------- crate facts

class Adt:
    def __init__(self, j):
        self.j = j
        self.path = j["path"]
        self.kind = j["kind"]
        self.variants = j["variants"]

    def variant_names(self):
        return [v["name"] for v in self.variants]

    def variant_by_discr(self, d):
        for v in self.variants:
            if v["discr"] == str(d):
                return v["name"]
        return "?%s" % d

    def variant(self, name):
        for v in self.variants:
            if v["name"] == name:
                return v
        return None

    def fields(self, variant=None):
        v = self.variants[0] if variant is None else self.variant(variant)
        return v["fields"] if v else []


class Crate:
    def __init__(self, j):
        self.j = j
        self.name = j["crate"]
        self.features = j["features"]
        self.bodies = {}
        for b in j["bodies"]:
            body = Body(b, self)
            self.bodies[body.path] = body
        self.adts = {a["path"]: Adt(a) for a in j["adts"]}
        self.consts = {c["path"]: c for c in j["consts"]}
        self.impls = j["impls"]
        self.auto_traits = {a["name"]: a for a in j["auto_traits"]}
        self.type_graph = j["type_graph"]
        self._children = None
        self._callgraph = None

    @classmethod
    def load(cls, path):
        with open(path) as f:
            return cls(json.load(f))

    def body(self, path):
        return self.bodies.get(path)

    def find(self, pred):
        return [b for b in self.bodies.values() if pred(b)]

    def find_suffix(self, suffix):
        return [b for p, b in self.bodies.items() if p.endswith(suffix)]

    def one(self, suffix):
        """Exactly one body whose path ends with suffix (and is a whole path segment match)."""
        c = [b for p, b in self.bodies.items() if p == suffix or p.endswith("::" + suffix)]
        if len(c) != 1:
            raise AnchorMissing("expected exactly one function '%s', found %d" % (suffix, len(c)))
        return c[0]

    def in_module(self, *prefixes):
        """bodies whose file-based module matches: prefixes are path prefixes like 'vm::' or file names."""
        out = []
        for b in self.bodies.values():
            for p in prefixes:
                if p.endswith(".rs"):
                    if b.file.endswith(p):
                        out.append(b)
                        break
                elif b.path.startswith(p) or ("<" + p) in b.path or (" " + p) in b.path:
                    out.append(b)
                    break
        return out

    def in_files(self, *files):
        return [b for b in self.bodies.values() if any(b.file.endswith(f) for f in files)]

    def children(self, body):
        """closures (transitively) defined inside body"""
        if self._children is None:
            ch = defaultdict(list)
            for b in self.bodies.values():
                if b.parent:
                    ch[b.parent].append(b)
            self._children = ch
        out = []
        work = [body.path]
        while work:
            p = work.pop()
            for c in self._children.get(p, []):
                out.append(c)
                work.append(c.path)
        return out

    def with_closures(self, body):
        return [body] + self.children(body)

    def root_of(self, body):
        while body.parent and body.parent in self.bodies:
            body = self.bodies[body.parent]
        return body

    # ---- call graph over local bodies (closures attached to their parents)
    def callgraph(self):
        """returns dict root_path -> list of (callee_root_path, caller_body, bb) for calls to local fns.
        Function-item references (passed as values) are included with bb=None marker 'ref'."""
        if self._callgraph is None:
            g = defaultdict(list)
            for b in self.bodies.values():
                root = self.root_of(b).path
                for bb, t in b.calls():
                    f = t["f"]
                    if f.get("indirect"):
                        continue
                    tgt = None
                    if f.get("res_local") and f.get("res") in self.bodies:
                        tgt = f["res"]
                    elif f.get("local") and f["def"] in self.bodies:
                        tgt = f["def"]
                    if tgt is not None:
                        g[root].append((self.root_of(self.bodies[tgt]).path, b, bb, "call"))
                # function items used as values
                for bb, idx, s in b.stmts():
                    for op in iter_operands(s):
                        if op["k"] == "const" and op.get("fn_local") and op.get("fn") in self.bodies:
                            if idx == "t" and s["k"] == "call" and not s["f"].get("indirect") and s["f"]["def"] == op["fn"]:
                                continue
                            g[root].append((self.root_of(self.bodies[op["fn"]]).path, b, bb, "ref"))
            self._callgraph = g
        return self._callgraph


def iter_operands(s):
    """All operands mentioned by a statement or terminator (shallow)."""
    k = s.get("k")
    if k == "assign":
        rv = s["rv"]
        rk = rv["k"]
        if rk in ("use", "repeat", "cast"):
            yield rv["op"]
        elif rk == "bin":
            yield rv["l"]
            yield rv["r"]
        elif rk == "un":
            yield rv["a"]
        elif rk == "agg":
            for o in rv["ops"]:
                yield o
    elif k == "call":
        f = s["f"]
        if f.get("indirect"):
            yield f["op"]
        for a in s["args"]:
            yield a
    elif k == "switch":
        yield s["op"]
    elif k == "assert":
        yield s["cond"]


def iter_places_read(s):
    """Places read by a statement/terminator (operands + ref/discr places)."""
    for op in iter_operands(s):
        if op["k"] in ("copy", "move"):
            yield op["pl"]
    if s.get("k") == "assign":
        rv = s["rv"]
        if rv["k"] in ("ref", "rawptr", "discr"):
            yield rv["pl"]
    if s.get("k") == "drop":
        yield s["pl"]


class AnchorMissing(Exception):
    pass


# --------------------------------------------------------------------------- rule results

class Instance:
    """One (rule, site) obligation."""

    def __init__(self, rule, key, ok, where="", what="", detail=None, nontrivial=True, config=None):
        self.rule = rule
        self.key = key          # without line numbers
        self.ok = ok
        self.where = where      # file:line
        self.what = what        # human text: obligation and observation
        self.detail = detail or {}
        self.nontrivial = nontrivial
        self.config = config

    def to_json(self):
        return {"rule": self.rule, "key": self.key, "ok": self.ok, "where": self.where,
                "what": self.what, "detail": self.detail, "config": self.config}


class Report:
    def __init__(self, prop):
        self.prop = prop
        self.instances = []
        self.floors = []   # (rule, label, count, floor)
        self.notes = []
        self.functions = set()

    def add(self, rule, key, ok, where="", what="", detail=None, nontrivial=True):
        self.instances.append(Instance(rule, key, ok, where, what, detail, nontrivial))

    def ok(self, rule, key, where="", what="", detail=None):
        self.add(rule, key, True, where, what, detail)

    def bad(self, rule, key, where="", what="", detail=None):
        self.add(rule, key, False, where, what, detail)

    def floor(self, rule, label, count, floor):
        """fail closed when fewer instances than confirmed by hand are found"""
        self.floors.append((rule, label, count, floor))
        if count < floor:
            self.add(rule, "%s:floor:%s" % (rule, label), False, "",
                     "anchor-missing: found %d instance(s) of '%s', floor is %d" % (count, label, floor))

    def anchor_missing(self, rule, what):
        self.add(rule, "%s:anchor-missing:%s" % (rule, what), False, "", "anchor-missing: " + what)

    def analysed(self, *bodies):
        for b in bodies:
            self.functions.add(b.path if hasattr(b, "path") else str(b))

    def note(self, text):
        self.notes.append(text)


# --------------------------------------------------------------------------- common queries

def find_aggs(body, adt=None, variant=None, blocks=None):
    """yield (bb, idx, stmt) for Aggregate constructions of adt(::variant)"""
    for bb, idx, s in body.stmts(blocks):
        if idx == "t" or s["k"] != "assign":
            continue
        rv = s["rv"]
        if rv["k"] != "agg" or rv.get("ak") != "adt":
            continue
        if adt is not None and not (rv["adt"] == adt or rv["adt"].endswith("::" + adt)):
            continue
        if variant is not None and rv["variant"] != variant:
            continue
        yield bb, idx, s


def find_calls(body, names=None, pred=None, blocks=None):
    """yield (bb, term) for calls whose def/res path is in names (exact or '::'-suffix match)"""
    for bb, t in body.calls(blocks):
        if names is not None:
            if not any(name_matches(c, names) for c in callee_names(t)):
                continue
        if pred is not None and not pred(t):
            continue
        yield bb, t


_MAP_RX = None


def name_matches(path, names):
    """exact / '::'-suffix match; a std HashMap method also matches the same method of wrapper maps
    (ahash::AHashMap, indexmap::IndexMap, hashbrown::HashMap) so that rules are feature-configuration independent"""
    import re as _re
    global _MAP_RX
    if _MAP_RX is None:
        _MAP_RX = _re.compile(r"^(?:std::collections::HashMap::<K, V, S(?:, A)?>|ahash::AHashMap::<K, V(?:, S)?>|indexmap::IndexMap::<K, V(?:, S)?>|hashbrown::HashMap::<K, V, S(?:, A)?>)::(\w+)$")
    for n in names:
        if path == n or path.endswith("::" + n):
            return True
        m = _MAP_RX.match(n)
        if m:
            m2 = _MAP_RX.match(path)
            if m2 and m2.group(1) == m.group(1):
                return True
    return False


def place_has_field(pl, field):
    return any(isinstance(p, dict) and p.get("n") == field for p in pl["p"])


def leaf_str(leaf):
    k, d, projs = leaf
    if k == "call":
        d = d[0]
    return "%s(%s)%s" % (k, d, "".join(projs))


def leaf_call_is(leaf, *names):
    """leaf is a call whose generic def path or resolved path matches one of names"""
    if leaf[0] != "call":
        return False
    return name_matches(leaf[1][0], names) or name_matches(leaf[1][1], names)


# --------------------------------------------------------------------------- variant walk (finite tag domain)

class VariantWalk:
    """Conditional propagation of the feasible set of enum-variant tuples through a CFG.

    coords(leaf) -> index of the tuple coordinate a traced place designates, or None.
    summaries: {callee name suffix: {variant: 'some'|'none'|'maybe'}} for Option-returning functions of ONE
    coordinate (their first argument); used to refine on `match f(x) { Some/None }` edges.
    """

    def __init__(self, body, adt, arity, coords, summaries=None, transparent=None):
        self.b = body
        self.adt = adt
        self.arity = arity
        self.coords = coords
        self.summaries = summaries or {}
        self.tr = Tracer(body, transparent=transparent)
        self.ef = EdgeFacts(body, body.crate)
        self._edge_cache = {}

    def all_tuples(self):
        import itertools
        names = self.adt.variant_names()
        return frozenset(itertools.product(names, repeat=self.arity))

    def coord_of(self, leaves):
        cs = set()
        for l in leaves:
            if l.kind == "cycle":
                continue
            cs.add(self.coords(l))
        if len(cs) == 1:
            return next(iter(cs))
        return None

    def edge_filters(self, bb):
        """for switch block bb: dict target -> list of (coord, allowed variant set)"""
        if bb in self._edge_cache:
            return self._edge_cache[bb]
        res = {}
        t = self.b.term(bb)
        if t["k"] == "switch" and t["op"]["k"] != "const" and not t["op"]["pl"]["p"]:
            d = self.ef.single_def(t["op"]["pl"]["l"])
            if d is not None and d[3]["k"] == "discr":
                rv = d[3]
                leaves = self.tr.place(rv["pl"])
                dadt = self.b.crate.adts.get(rv["adt"])
                if rv["adt"] == self.adt.path:
                    c = self.coord_of(leaves)
                    if c is not None:
                        for tgt, facts in self.ef.facts_for_switch(bb).items():
                            for f in facts:
                                if f[0] == "variant" and f[4]:
                                    res.setdefault(tgt, []).append((c, frozenset(f[3])))
                elif dadt is not None and rv["adt"] in ("std::option::Option", "std::ops::ControlFlow"):
                    # Option<..> returned by a summarised function of one coordinate
                    info = self.summary_of(leaves)
                    if info is not None:
                        c, summ = info
                        for tgt, facts in self.ef.facts_for_switch(bb).items():
                            for f in facts:
                                if f[0] != "variant" or not f[4]:
                                    continue
                                names = set(f[3])
                                some_names = {"Some", "Continue"}
                                none_names = {"None", "Break"}
                                allowed = set()
                                if names & some_names:
                                    allowed |= {v for v, s in summ.items() if s != "none"}
                                if names & none_names:
                                    allowed |= {v for v, s in summ.items() if s != "some"}
                                if names - some_names - none_names:
                                    allowed = set(summ)
                                res.setdefault(tgt, []).append((c, frozenset(allowed)))
        self._edge_cache[bb] = res
        return res

    def summary_of(self, leaves):
        found = None
        for l in leaves:
            if l.kind == "cycle":
                continue
            if l.kind != "call":
                return None
            # only the Option itself (or through Try::branch), not a payload of it
            if any(not p.startswith("via:") for p in l.projs):
                return None
            summ = None
            for name, s in self.summaries.items():
                if name_matches(l.detail[0], [name]) or name_matches(l.detail[1], [name]):
                    summ = s
            if summ is None:
                return None
            call = self.b.term(l.detail[2])
            if not call["args"]:
                return None
            c = self.coord_of(self.tr.operand(call["args"][0]))
            if c is None:
                return None
            if found is not None and found != (c, id(summ)):
                return None
            found = (c, id(summ))
            result = (c, summ)
        return result if found is not None else None

    def run(self, init=None):
        """returns dict bb -> frozenset of feasible tuples at block entry"""
        b = self.b
        init = self.all_tuples() if init is None else init
        state = {0: init}
        work = [0]
        while work:
            bb = work.pop()
            cur = state[bb]
            filters = self.edge_filters(bb)
            for tgt in b.succ[bb]:
                ns = cur
                for (c, allowed) in filters.get(tgt, []):
                    ns = frozenset(t for t in ns if t[c] in allowed)
                old = state.get(tgt, frozenset())
                new = old | ns
                if new != old:
                    state[tgt] = new
                    work.append(tgt)
        return state


def option_table(body, adt, self_coord_param=1):
    """R-TABLE for `fn f(&self) -> Option<_>` matching on an enum: variant -> 'some' | 'none' | 'maybe'."""
    def coords(leaf):
        if leaf.kind == "param" and leaf.detail == self_coord_param:
            return 0
        return None
    vw = VariantWalk(body, adt, 1, coords)
    st = vw.run()
    outcome = {v: set() for v in adt.variant_names()}
    for bb, idx, s in body.stmts():
        if idx == "t":
            if s["k"] == "call" and s["dest"]["l"] == 0 and not s["dest"]["p"]:
                for (v,) in st.get(bb, ()):
                    outcome[v].add("maybe")
            continue
        if s["k"] == "assign" and s["pl"]["l"] == 0 and not s["pl"]["p"]:
            rv = s["rv"]
            cls = "maybe"
            if rv["k"] == "agg" and rv.get("adt") == "std::option::Option":
                cls = "some" if rv["variant"] == "Some" else "none"
            for (v,) in st.get(bb, ()):
                outcome[v].add(cls)
    table = {}
    for v, o in outcome.items():
        if o == {"some"}:
            table[v] = "some"
        elif o == {"none"}:
            table[v] = "none"
        else:
            table[v] = "maybe"
    return table


def const_table(body, adt, self_coord_param=1):
    """R-TABLE for `fn f(&T) -> <const>` matching on an enum: variant -> set of constants assigned to _0."""
    def coords(leaf):
        if leaf.kind == "param" and leaf.detail == self_coord_param:
            return 0
        return None
    vw = VariantWalk(body, adt, 1, coords)
    st = vw.run()
    out = {v: set() for v in adt.variant_names()}
    for bb, idx, s in body.stmts():
        if idx != "t" and s["k"] == "assign" and s["pl"]["l"] == 0 and not s["pl"]["p"]:
            rv = s["rv"]
            val = "?"
            if rv["k"] == "use" and rv["op"]["k"] == "const":
                val = rv["op"].get("v", "?")
            for (v,) in st.get(bb, ()):
                out[v].add(val)
        elif idx == "t" and s["k"] == "call" and s["dest"]["l"] == 0:
            for (v,) in st.get(bb, ()):
                out[v].add("call")
    return out


# --------------------------------------------------------------------------- R-WRITERS / field access inventory

def field_index(pl, owner, field):
    """index in pl['p'] of the (last) projection that selects `field` of ADT `owner`, or None"""
    res = None
    for i, p in enumerate(pl["p"]):
        if isinstance(p, dict) and p.get("n") == field and (owner is None or p.get("o") == owner or p.get("o", "").endswith("::" + owner)):
            res = i
    return res


def field_accesses(crate, owner, field, bodies=None):
    """Inventory of how `owner.field` is touched crate-wide. Yields dicts:
       {body, bb, idx, kind, callee, mut}   kind in assign | assign-part | call | ref | read | agg-init"""
    out = []
    for b in (bodies if bodies is not None else crate.bodies.values()):
        # temporaries holding a reference to the field (or to a part of it)
        refs = {}   # local -> (mut, whole)
        for bb, idx, s in b.stmts():
            if idx != "t" and s["k"] == "assign":
                pl, rv = s["pl"], s["rv"]
                fi = field_index(pl, owner, field)
                if fi is not None:
                    whole = (fi == len(pl["p"]) - 1)
                    out.append({"body": b, "bb": bb, "idx": idx, "kind": "assign" if whole else "assign-part", "callee": None, "mut": True})
                if rv["k"] in ("ref", "rawptr"):
                    fi = field_index(rv["pl"], owner, field)
                    if fi is not None and not pl["p"]:
                        refs[pl["l"]] = (rv.get("bk") == "mut" or rv["k"] == "rawptr", fi == len(rv["pl"]["p"]) - 1)
                if rv["k"] == "agg" and rv.get("ak") == "adt" and (rv["adt"] == owner or rv["adt"].endswith("::" + owner)) and field in rv.get("fields", []):
                    out.append({"body": b, "bb": bb, "idx": idx, "kind": "agg-init", "callee": None, "mut": True,
                                "op": rv["ops"][rv["fields"].index(field)]})
        # propagate refs through plain moves/reborrows and Deref/DerefMut (wrapper maps such as ahash::AHashMap)
        DEREFS = ("std::ops::Deref::deref", "std::ops::DerefMut::deref_mut")
        changed = True
        while changed:
            changed = False
            for bb, idx, s in b.stmts():
                if idx != "t" and s["k"] == "assign" and not s["pl"]["p"] and s["pl"]["l"] not in refs:
                    rv = s["rv"]
                    src = None
                    if rv["k"] == "use" and rv["op"]["k"] in ("copy", "move") and not rv["op"]["pl"]["p"]:
                        src = rv["op"]["pl"]["l"]
                    elif rv["k"] == "ref" and rv["pl"]["p"] == ["deref"]:
                        src = rv["pl"]["l"]
                    if src in refs:
                        refs[s["pl"]["l"]] = refs[src]
                        changed = True
                elif idx == "t" and s["k"] == "call" and callee_def(s) in DEREFS and s["args"] and not s["dest"]["p"] and s["dest"]["l"] not in refs:
                    a = s["args"][0]
                    if a["k"] in ("copy", "move") and not a["pl"]["p"] and a["pl"]["l"] in refs:
                        m0, w0 = refs[a["pl"]["l"]]
                        refs[s["dest"]["l"]] = (m0 and callee_def(s).endswith("deref_mut"), w0)
                        changed = True
        for bb, t in b.calls():
            if callee_def(t) in DEREFS:
                continue
            for ai, a in enumerate(t["args"]):
                if a["k"] in ("copy", "move") and not a["pl"]["p"] and a["pl"]["l"] in refs:
                    mut, whole = refs[a["pl"]["l"]]
                    out.append({"body": b, "bb": bb, "idx": "t", "kind": "call", "callee": callee_def(t), "res": callee_name(t),
                                "mut": mut, "arg": ai, "whole": whole})
                elif a["k"] in ("copy", "move") and field_index(a["pl"], owner, field) is not None:
                    out.append({"body": b, "bb": bb, "idx": "t", "kind": "call", "callee": callee_def(t), "res": callee_name(t),
                                "mut": a["k"] == "move", "arg": ai, "whole": True, "by_value": True})
        for bb, idx, s in b.stmts():
            if idx != "t" and s["k"] == "assign" and s["rv"]["k"] == "use" and s["rv"]["op"]["k"] in ("copy", "move"):
                if field_index(s["rv"]["op"]["pl"], owner, field) is not None:
                    out.append({"body": b, "bb": bb, "idx": idx, "kind": "read", "callee": None, "mut": s["rv"]["op"]["k"] == "move"})
    return out


def runs_every_iteration(body, call_bb):
    """call_bb lies in a `for` loop and every complete iteration (from the Some edge of the loop's Iterator::next back to
    that next call) passes through it. Returns (ok, detail)."""
    loops = [l for l in body.loops() if call_bb in l]
    if not loops:
        return False, "not inside a loop"
    ef = EdgeFacts(body, body.crate)
    tr = Tracer(body, transparent=set())
    for L in sorted(loops, key=len):
        # the loop's own `next` call: the one whose Option result is switched with an edge leaving L
        for nb, nt in find_calls(body, ["std::iter::Iterator::next"], blocks=sorted(L)):
            dest = nt["dest"]["l"]
            for sb in L:
                t = body.term(sb)
                if t["k"] != "switch" or t["op"]["k"] == "const" or t["op"]["pl"]["p"]:
                    continue
                d = ef.single_def(t["op"]["pl"]["l"])
                if not (d and d[3]["k"] == "discr" and d[3]["pl"]["l"] == dest and not d[3]["pl"]["p"]):
                    continue
                if all(x in L for x in body.succ[sb]):
                    continue
                for tgt, fl in ef.facts_for_switch(sb).items():
                    for f in fl:
                        if f[0] == "variant" and "Some" in f[3] and len(f[3]) == 1 and tgt in L:
                            reach = body.reach_from(tgt, removed_blocks=frozenset([call_bb]) | (set(range(body.n)) - L))
                            if tgt == call_bb:
                                return True, "first block of the iteration"
                            if nb in reach:
                                return False, "an iteration can return to the loop head at %s without passing the call" % body.where(nb)
                            return True, "every iteration passes the call"
    return False, "loop shape not recognised"


def kwarg_locals(body, name, const_of=None, named_only=True):
    """user-named locals that hold the value of the keyword argument `name`: forward flow from `Kwargs::get/must_get(.., "name")` through
    `?`, unwrap_or*, copies and the Continue payload. The keyword name is part of the documented interface, the local's name is not."""
    def cstr(op, depth=0):
        if op["k"] == "const":
            return op.get("s")
        if depth > 6 or op["k"] not in ("copy", "move"):
            return None
        for (b2, i2, dp, rv) in body.defs.get(op["pl"]["l"], []):
            if dp:
                continue
            if rv["k"] == "use":
                return cstr(rv["op"], depth + 1)
            if rv["k"] == "ref":
                return cstr({"k": "copy", "pl": {"l": rv["pl"]["l"], "p": []}}, depth + 1)
        return None
    S = set()
    for bb, t in body.calls():
        cd = callee_def(t)
        if ("Kwargs::get" in cd or "Kwargs::must_get" in cd) and any(cstr(a) == name for a in t["args"][1:]):
            S.add(t["dest"]["l"])
    PASS = ("::branch", "::unwrap_or", "::unwrap_or_default", "::unwrap_or_else", "::unwrap", "::expect")
    changed = bool(S)
    while changed:
        changed = False
        for bb, idx, st in body.stmts():
            if idx == "t":
                if st["k"] == "call" and st["args"] and st["args"][0]["k"] in ("copy", "move") and st["args"][0]["pl"]["l"] in S \
                        and callee_def(st).endswith(PASS) and st["dest"]["l"] not in S:
                    S.add(st["dest"]["l"])
                    changed = True
                continue
            if st.get("k") != "assign":
                continue
            rv = st["rv"]
            if rv["k"] == "ref" and rv["pl"]["l"] in S and st["pl"]["l"] not in S:
                S.add(st["pl"]["l"])       # reborrow of the value
                changed = True
            if rv["k"] != "use":
                continue
            op = rv["op"]
            if op["k"] in ("copy", "move") and op["pl"]["l"] in S and st["pl"]["l"] not in S:
                S.add(st["pl"]["l"])
                changed = True
    return {l for l in S if body.local_name(l)} if named_only else S


# --------------------------------------------------------------------------- virtual inlining of crate-local helpers

def _remap(x, lo):
    """deep copy of a MIR JSON fragment with every local index shifted by `lo`"""
    if isinstance(x, dict):
        if isinstance(x.get("l"), int) and "p" in x:
            return {"l": x["l"] + lo, "p": [_remap(p, lo) for p in x["p"]]}
        if "idx" in x and isinstance(x["idx"], int) and len(x) == 1:
            return {"idx": x["idx"] + lo}
        return {k: (v if k == "sp" else _remap(v, lo)) for k, v in x.items()}
    if isinstance(x, list):
        return [_remap(v, lo) for v in x]
    return x


def _retarget(t, bo):
    t = dict(t)
    k = t["k"]
    if k in ("goto", "assert", "drop") and t.get("t") is not None:
        t["t"] = t["t"] + bo
    elif k == "call":
        if t.get("t") is not None:
            t["t"] = t["t"] + bo
    elif k == "switch":
        t["targets"] = [[v, tb + bo] for v, tb in t["targets"]]
        t["otherwise"] = t["otherwise"] + bo
    return t


_KNOWN_FNS = None


def known_functions():
    """function paths of the tree the rules were written against (tables/known_functions.json): anchors may be calls to these, so they are
    never inlined; only functions that are new relative to that list (helpers a refactoring introduced) are"""
    global _KNOWN_FNS
    if _KNOWN_FNS is None:
        import json, os
        p = os.path.join(os.path.dirname(os.path.dirname(os.path.abspath(__file__))), "tables", "known_functions.json")
        try:
            with open(p) as f:
                _KNOWN_FNS = set(json.load(f))
        except OSError:
            _KNOWN_FNS = set()
    return _KNOWN_FNS


def inline_helpers(crate, body, depth=2, max_callee_blocks=160, max_total=6000, stack=()):
    """A Body equal to `body` with calls to crate-local functions replaced by their bodies (parameters assigned from the arguments, the
    return place copied to the destination). Semantics-preserving; used as a second chance for rules whose idiom was moved into a helper."""
    if depth == 0 or body.kind == "const":
        return body
    blocks = [dict(b, s=list(b["s"])) for b in body.blocks]
    locs = list(body.locals)
    changed = False
    for bi in range(len(body.blocks)):
        t = blocks[bi]["t"]
        if t["k"] != "call" or t["f"].get("indirect"):
            continue
        f = t["f"]
        tgt = f.get("res") if f.get("res_local") and f.get("res") in crate.bodies else (f["def"] if f.get("local") and f["def"] in crate.bodies else None)
        if tgt is None:
            continue
        h = crate.bodies[tgt]
        if h.kind not in ("fn", "assoc_fn") or h.path == body.path or h.path in stack or len(h.blocks) > max_callee_blocks or len(blocks) + len(h.blocks) > max_total:
            continue
        if h.path in known_functions():
            continue
        if h.arg_count != len(t["args"]):
            continue
        h = inline_helpers(crate, h, depth - 1, max_callee_blocks, max_total, stack + (body.path,))
        lo, bo = len(locs), len(blocks)
        for l in h.locals:
            l2 = dict(l)
            l2["inl"] = h.path
            locs.append(l2)
        sp = t.get("sp")
        for i, a in enumerate(t["args"]):
            blocks[bi]["s"].append({"k": "assign", "pl": {"l": lo + 1 + i, "p": []}, "rv": {"k": "use", "op": a}, "sp": sp, "inl_arg": h.path})
        cont = t.get("t")
        blocks[bi]["t"] = {"k": "goto", "t": bo, "sp": sp, "inlined": h.path}
        for hb in h.blocks:
            nb = {"s": [_remap(st, lo) for st in hb["s"]], "t": _retarget(_remap(hb["t"], lo), bo)}
            for k_ in hb:
                if k_ not in ("s", "t"):
                    nb[k_] = hb[k_]
            if nb["t"]["k"] == "return":
                nb["s"].append({"k": "assign", "pl": t["dest"], "rv": {"k": "use", "op": {"k": "move", "pl": {"l": lo, "p": []}}}, "sp": sp, "inl_ret": h.path})
                nb["t"] = {"k": "goto", "t": cont, "sp": sp} if cont is not None else {"k": "unreachable", "sp": sp}
            blocks.append(nb)
        changed = True
    if not changed:
        return body
    j = dict(body.j)
    j["blocks"] = blocks
    j["locals"] = locs
    nb_ = Body(j, crate)
    nb_.inlined_from = body
    return nb_


class InlinedCrate:
    """view of a Crate whose function bodies have their crate-local callees inlined (two levels); everything else is shared"""
    def __init__(self, crate):
        self.__dict__["_c"] = crate
        self.__dict__["bodies"] = _LazyInlined(crate)

    def __getattr__(self, name):
        return getattr(self._c, name)

    def get(self, path):
        return self.bodies.get(path)

    def find(self, pred):
        return [b for b in self.bodies.values() if pred(b)]

    def one(self, suffix):
        c = [p for p in self._c.bodies if p == suffix or p.endswith("::" + suffix)]
        if len(c) != 1:
            return self._c.one(suffix)
        return self.bodies[c[0]]

    def in_files(self, *files):
        return [self.bodies[b.path] for b in self._c.in_files(*files)]

    def children(self, body):
        return [self.bodies[c.path] for c in self._c.children(self._c.bodies.get(body.path, body))]

    def with_closures(self, body):
        return [body] + self.children(body)

    def root_of(self, body):
        return self._c.root_of(self._c.bodies.get(body.path, body))


class _LazyInlined(dict):
    def __init__(self, crate):
        super().__init__()
        self._c = crate
        self._done = {}

    def _get(self, k):
        if k not in self._done:
            self._done[k] = inline_helpers(self._c, self._c.bodies[k])
        return self._done[k]

    def __getitem__(self, k):
        if k not in self._c.bodies:
            raise KeyError(k)
        return self._get(k)

    def get(self, k, default=None):
        return self._get(k) if k in self._c.bodies else default

    def __contains__(self, k):
        return k in self._c.bodies

    def __iter__(self):
        return iter(self._c.bodies)

    def __len__(self):
        return len(self._c.bodies)

    def keys(self):
        return self._c.bodies.keys()

    def values(self):
        return [self._get(k) for k in self._c.bodies]

    def items(self):
        return [(k, self._get(k)) for k in self._c.bodies]
