"""C16 — collection filters (narrow): ORDUSE + reviewed panic sites of the collection filters."""
from engine import (Tracer, EdgeFacts, find_calls, find_aggs, AnchorMissing, leaf_str, leaf_call_is, callee_def, callee_names, name_matches)
import rpanic
from props import c06, c15

EXPLANATION = (
    "Decides structural clauses of C16: (ORDUSE) `sort` orders with slice::sort_by whose comparator is `Ord::cmp for Value` and `unique` "
    "dedups through a BTreeSet<Value>, so their order/equality contracts (and sort_by's total-order panic) reduce to C15.ORD, which is "
    "re-checked here; every Ok return of `sort` for a non-empty input lies behind the Continue edge of ensure_comparable, which uses "
    "partial_cmp (the `<` relation); first/last/nth use the non-panicking first()/last()/get(n); (PANIC) the panic-capable sites of the "
    "collection filters are exactly the reviewed set. NOT decided: permutation/stability/partition/round-trip contracts (input-quantified).")
NOT_DECIDED = "permutation, stability, group partition and round-trip laws of the filters"
ASSUMPTIONS = ["slice::sort_by is a stable sort that permutes its input (std contract)"]


def run(ctx, rep):
    for cfg in ctx.tera_configs():
        crate = ctx.crate(cfg)
        c15.check_value_ord(crate, rep, cfg)
        check_orduse(crate, rep, cfg)
        rpanic.check(crate, rep, "R-PANIC.coll", ("filters.rs",), cfg, 10)
        # first / last / nth agree with indexing and reverse because they ARE slice::first / last / get (C17.DELEG, shared)
        from props import c17
        c17.check_seq_deleg(crate, rep, cfg)
        check_reverse_kind(crate, rep, cfg)


def check_orduse(crate, rep, cfg):
    sort = crate.one("filters::sort")
    bodies = crate.with_closures(sort)
    rep.analysed(*bodies)
    sorts = [(b, bb, t) for b in bodies for bb, t in b.calls() if callee_def(t).endswith("::sort_by")]
    rep.floor("C16.ORDUSE", "sort_by calls in filters::sort [%s]" % cfg, len(sorts), 2)
    cmp_closures = 0
    for b in bodies:
        if b.kind == "closure" and any(callee_def(t) == "std::cmp::Ord::cmp" and "value::Value" in (t["f"].get("self_ty") or "") for bb, t in b.calls()):
            cmp_closures += 1
    rep.add("C16.ORDUSE", "C16.ORDUSE:sort:comparator", cmp_closures >= 2, sort.where(0), "the comparators of filters::sort call <Value as Ord>::cmp (%d closures)" % cmp_closures
            + ("" if cmp_closures >= 2 else " — VIOLATED"))
    # every Ok return for non-empty input behind ensure_comparable's Continue edge
    ens = [bb for bb, t in find_calls(sort, ["filters::ensure_comparable"])]
    oks = [bb for bb, idx, s in find_aggs(sort, "std::result::Result", "Ok") if s["pl"]["l"] == 0]
    ok = bool(ens)
    n_guarded = 0
    for ob in oks:
        if any(sort.dominates(eb, ob) and ob not in c06.error_exit_blocks(sort) for eb in ens):
            n_guarded += 1
    unguarded = len(oks) - n_guarded
    ok = ok and n_guarded >= 2 and unguarded <= 1      # the one unguarded Ok is the empty-input early return
    rep.add("C16.ORDUSE", "C16.ORDUSE:sort:comparable-before-ok", ok, sort.where(0), "both non-empty Ok returns of sort are dominated by an ensure_comparable call whose Err is "
            "propagated (%d guarded, %d early return)" % (n_guarded, unguarded) + ("" if ok else " — VIOLATED"))
    # equal keys keep their input order: the sort is one of std's stable sorts
    sorts = [callee_def(t).rsplit("::", 1)[-1] for bb, t in sort.calls() if ("<impl [T]>::sort" in callee_def(t) or "Vec::<T, A>::sort" in callee_def(t))]
    ok_st = bool(sorts) and all(x in ("sort_by", "sort_by_key", "sort", "sort_by_cached_key") for x in sorts)
    rep.add("C16.ORDUSE", "C16.ORDUSE:sort:stable", ok_st, sort.where(0), "filters::sort orders with a stable std sort (%s): elements with equal keys keep their input order" % sorted(set(sorts))
            + ("" if ok_st else " — VIOLATED: sort_unstable* may reorder equal keys (visible beyond std's 20-element insertion-sort threshold)"))
    ec0 = crate.one("filters::ensure_comparable")
    # by shape: one loop, and a loop-carried `Option<&Value>` (the previous element) assigned before the loop and inside it
    lps = ec0.loops()
    carried = []
    if len(lps) == 1:
        for l, ds in ec0.defs.items():
            if ec0.local_name(l) and "Option<&" in ec0.local_ty(l) and "Value" in ec0.local_ty(l):
                inside = [d for d in ds if not d[2] and d[0] in lps[0]]
                outside = [d for d in ds if not d[2] and d[0] not in lps[0]]
                if inside and outside:
                    carried.append(l)
    adjacent_form = bool(carried)
    if adjacent_form:
        # ensure_comparable only inspects adjacent pairs (and skips pairs with none): that is sound only on the SORTED sequence,
        # where every kind is contiguous — so each call must come after the sort_by of the same arm
        sort_blocks = [bb for bb, t in sort.calls() if callee_def(t).endswith("::sort_by")]
        k = 0
        for eb in ens:
            after = any(sort.dominates(sb, eb) for sb in sort_blocks)
            rep.add("C16.ORDUSE", "C16.ORDUSE:sort:comparable-check-after-sort#%d" % k, after, sort.where(eb), "the adjacent-pair comparability check runs on the sorted sequence "
                    "(dominated by the sort_by of its arm)" + ("" if after else " — VIOLATED: on unsorted input a none between two incomparable values hides them; sort "
                                                               "returns instead of refusing"))
            k += 1
    ec = crate.one("filters::ensure_comparable")
    uses = any(callee_def(t) == "std::cmp::PartialOrd::partial_cmp" and "value::Value" in (t["f"].get("self_ty") or "") for bb, t in ec.calls())
    rep.add("C16.ORDUSE", "C16.ORDUSE:ensure_comparable:partial_cmp", uses, ec.where(0), "ensure_comparable decides with Value::partial_cmp (the relation behind `<`)" + ("" if uses else " — VIOLATED"))
    uq = crate.one("filters::unique")
    bt = [callee_def(t) for bb, t in uq.calls() if "BTreeSet" in callee_def(t) and "value::Value" in str(t["f"].get("targs"))]
    ok = any(x.endswith("::insert") for x in bt)
    rep.add("C16.ORDUSE", "C16.ORDUSE:unique:btreeset", ok, uq.where(0), "unique dedups through BTreeSet<Value>::insert (with or without a contains first) (equality classes of Ord::cmp == classes of `==`, C15.ORD)"
            + ("" if ok else " — VIOLATED: %s" % bt))
    # ... and through nothing else: the decision to keep an element is the answer of that set alone (a second structure keyed by a
    # conversion of the value — a hash key, a string, a rounded number — has its own equality classes)
    from props.c08 import gate_of
    utr = Tracer(uq)
    pushes = [(bb, t) for bb, t in uq.calls() if callee_def(t).endswith("Vec::<T, A>::push")]
    ok = bool(pushes)
    why = "no push into the result"
    for bb, t in pushes:
        g = gate_of(uq, bb)
        if g is None:
            ok, why = False, "the push at %s is unconditional" % uq.where(bb)
            continue
        todo = [l for l in utr.operand(uq.term(g)["op"])]
        seen_l = set()
        while todo:
            l = todo.pop()
            if l in seen_l or l.kind in ("const", "cycle"):
                continue
            seen_l.add(l)
            if l.kind == "op" and l.detail[0] in ("un", "bin"):
                rv = uq.blocks[l.detail[2]]["s"][l.detail[3]]["rv"]
                for o in ([rv["a"]] if "a" in rv else [rv["l"], rv["r"]]):
                    todo.extend(utr.operand(o))
                continue
            ct = uq.term(l.detail[2]) if l.kind == "call" else None
            if not (ct and "BTreeSet" in callee_def(ct) and callee_def(ct).rsplit("::", 1)[-1] in ("insert", "contains") and "value::Value" in str(ct["f"].get("targs"))):
                ok, why = False, "keeping an element depends on %s" % leaf_str(l)
    other = sorted({callee_def(t) for bb, t in uq.calls() if any(x in callee_def(t) for x in ("HashSet", "HashMap", "BTreeMap", "IndexMap", "IndexSet"))
                    or ("BTreeSet" in callee_def(t) and callee_def(t).rsplit("::", 1)[-1] in ("insert", "contains", "get", "replace") and "value::Value" not in str(t["f"].get("targs")))})
    if other:
        ok, why = False, "a second membership structure is used: %s" % other[:2]
    rep.add("C16.ORDUSE", "C16.ORDUSE:unique:decided-by-the-value-set-alone", ok, uq.where(pushes[0][0]) if pushes else uq.where(0), "an element is kept exactly when "
            "BTreeSet<Value>::insert/contains says it is new; no other set or map takes part" + ("" if ok else " — VIOLATED: " + why))
    # group_by partitions: an element is appended to the group of its key, and a group is created only when that key has none yet —
    # an insert that can hit an existing key throws the earlier group away
    import rrec
    gb = crate.one("filters::group_by")
    rep.analysed(gb)
    gtr = Tracer(gb)
    gef = EdgeFacts(gb, crate)

    def on_groups(t):
        a0 = (t["atys"][0] if t["atys"] else "").replace(" ", "")
        return "HashMap<value::key::Key" in a0 and "Vec<value::Value>" in a0
    ins = [(bb, t) for bb, t in gb.calls() if callee_def(t).endswith("::insert") and on_groups(t)]
    looks = [(bb, t) for bb, t in gb.calls() if callee_def(t).rsplit("::", 1)[-1] in ("get_mut", "get", "contains_key") and on_groups(t)]
    entries = [(bb, t) for bb, t in gb.calls() if callee_def(t).endswith("::entry") and on_groups(t)]
    ok = bool(ins) or bool(entries)
    why = "no insert / entry on the groups map"
    for bb, t in ins:
        kl = {(l.kind, l.detail) for l in gtr.operand(t["args"][1]) if l.kind != "cycle"}
        good = False
        for lb, lt in looks:
            lk = {(l.kind, l.detail) for l in gtr.operand(lt["args"][1]) if l.kind != "cycle"}
            if not kl or kl != lk:
                continue
            name = callee_def(lt).rsplit("::", 1)[-1]
            if name == "contains_key":
                absent = [tgt for sb in sorted(gb.reachable) if gb.term(sb)["k"] == "switch" for tgt, fl in gef.facts_for_switch(sb).items() for f in fl
                          if f[0] == "call" and f[4] == lb and f[3] is False]
            else:
                some = rrec.ok_edges_of_call(gb, crate, lb)
                absent = [x for sb, tgt in some for x in gb.succ[sb] if x != tgt and gb.term(x)["k"] != "unreachable"]
            if any(gb.dominates(a, bb) for a in absent):
                good = True
        if not good:
            ok, why = False, "the insert at %s is not on the key-absent edge of a lookup of the same key in the same map" % gb.where(bb)
    rep.add("C16.ORDUSE", "C16.ORDUSE:group_by:insert-never-overwrites", ok, gb.where(ins[0][0]) if ins else gb.where(0), "group_by creates a group (HashMap::insert) only on the "
            "absent edge of a lookup of that key — existing groups are only appended to" + ("" if ok else " — VIOLATED: " + why))
    # join / split are the standard library's inverse pair: where separators go is decided by `[String]::join` and `str::split`, with
    # the separator taken from the keyword argument, over every element in order (no hand-written separator logic to get wrong)
    from engine import kwarg_locals
    jb = crate.one("filters::join")
    jtr = Tracer(jb)
    oks = list(find_aggs(jb, "std::result::Result", "Ok"))
    jcalls = [(bb, t) for bb, t in jb.calls() if callee_def(t).endswith("slice::<impl [T]>::join")]
    ok = len(oks) == 1 and len(jcalls) == 1
    if ok:
        ok = all(l.kind == "call" and l.detail[2] == jcalls[0][0] for l in jtr.operand(oks[0][2]["rv"]["ops"][0]))
        seps = kwarg_locals(jb, "sep", named_only=False)
        sa = jcalls[0][1]["args"][1]
        ok = ok and sa["k"] in ("copy", "move") and sa["pl"]["l"] in seps
        # the joined strings come from iterating the input slice itself (every element, in order): iter -> map -> collect only
        adapters = {callee_def(t).rsplit("::", 1)[-1] for bb, t in jb.calls() if callee_def(t).startswith("std::iter::Iterator::")}
        ok = ok and adapters <= {"map", "collect"}
    rep.add("C16.ORDUSE", "C16.ORDUSE:join:std-join-with-sep", ok, jb.where(0), "filters::join returns `[String]::join(sep)` over map(Display) of every element, sep being the "
            "`sep` keyword argument" + ("" if ok else " — VIOLATED: separator placement is no longer delegated to the standard library (split then join may not give the input back)"))
    sb_ = crate.one("filters::split")
    scalls = [(bb, t) for bb, t in sb_.calls() if callee_def(t).endswith("str::<impl str>::split")]
    ok = len(scalls) == 1
    if ok:
        str_ = Tracer(sb_)
        recv = str_.operand(scalls[0][1]["args"][0])
        ok = bool(recv) and all(l.kind == "param" and l.detail == 1 for l in recv)
        pats = kwarg_locals(sb_, "pat", named_only=False)
        pa = scalls[0][1]["args"][1]
        ok = ok and pa["k"] in ("copy", "move") and pa["pl"]["l"] in pats
        adapters = {callee_def(t).rsplit("::", 1)[-1] for bb, t in sb_.calls() if callee_def(t).startswith("std::iter::Iterator::")}
        ok = ok and adapters <= {"map", "collect"}
    rep.add("C16.ORDUSE", "C16.ORDUSE:split:std-split-with-pat", ok, sb_.where(0), "filters::split returns every piece of `str::split(pat)` on its input, pat being the `pat` keyword "
            "argument (no piece filtered out)" + ("" if ok else " — VIOLATED"))
    for name, want in (("first", "first"), ("last", "last"), ("nth", "get")):
        b = crate.one("filters::" + name)
        ok = any(callee_def(t).endswith("::" + want) for bb, t in b.calls()) and not any(callee_def(t) == "std::ops::Index::index" for bb, t in b.calls())
        rep.add("C16.ORDUSE", "C16.ORDUSE:%s:non-panicking-access" % name, ok, b.where(0), "filters::%s uses the Option-returning %s() (out of range => undefined/none, not a panic)" % (name, want)
                + ("" if ok else " — VIOLATED"))


# which ValueInner variant a conversion into Value builds (the impls of value/mod.rs; anything unlisted is "unknown" and reported)
BUILDS = {
    "<value::Value as std::convert::From<std::vec::Vec<T>>>::from": "Array",
    "<value::Value as std::convert::From<std::string::String>>::from": "String",
    "<value::Value as std::convert::From<&str>>::from": "String",
    "<value::Value as std::convert::From<&[u8]>>::from": "Bytes",
    "value::Value::bytes": "Bytes",
}


def check_reverse_kind(crate, rep, cfg):
    """C16.KIND — "reversing twice gives back the input" needs `reverse` to answer with a value of the kind it was given: per arm of
    Value::reverse (Array / Bytes / String), the Ok payload is built by a conversion that produces that same ValueInner variant. (A
    `Vec<u8>` handed to the generic `From<Vec<T>>` becomes an Array of integers.)"""
    from engine import EdgeFacts
    b = crate.one("value::Value::reverse")
    rep.analysed(b)
    tr = Tracer(b, transparent=set())
    ef = EdgeFacts(b, crate)
    arms = {}
    for sb in sorted(b.reachable):
        if b.term(sb)["k"] != "switch":
            continue
        for tgt, fl in ef.facts_for_switch(sb).items():
            for f in fl:
                if f[0] == "variant" and f[1].endswith("ValueInner") and f[4] and len(f[3]) == 1 and tgt != sb:
                    arms[next(iter(f[3]))] = {x for x in b.reach_from(tgt) if b.dominates(tgt, x)}
    n = 0
    for variant in ("Array", "Bytes", "String"):
        reg = arms.get(variant, set())
        built = set()
        for bb, idx, st in find_aggs(b, "std::result::Result", "Ok"):
            if bb not in reg:
                continue
            for l in tr.operand(st["rv"]["ops"][0]):
                if l.kind == "call":
                    res = b.term(l.detail[2])["f"].get("res") or l.detail[0]
                    built.add(BUILDS.get(res, BUILDS.get(l.detail[0], "unknown:" + str(res))))
                elif l.kind == "agg" and str(l.detail[1]).endswith("ValueInner"):
                    built.add(l.detail[2])
                elif l.kind != "cycle":
                    built.add("unknown:" + leaf_str(l))
        n += 1
        ok = built == {variant}
        rep.add("C16.KIND", "C16.KIND:reverse:%s-stays-%s" % (variant, variant), ok, b.where(min(reg)) if reg else b.where(0), "Value::reverse of a %s builds a %s" % (variant, variant)
                + ("" if ok else " — VIOLATED: builds %s" % (sorted(built) or "nothing recognised")))
    rep.floor("C16.KIND", "arms of Value::reverse checked [%s]" % cfg, n, 3)
