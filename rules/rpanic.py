"""R-PANIC — the set of panic-capable sites is exactly the reviewed set (multiset inclusion per key, no line numbers)."""
import json
import os
import re
from collections import Counter

from engine import callee_def, callee_names, iter_operands, Tracer, EdgeFacts, find_calls, pl_str

HERE = os.path.dirname(os.path.abspath(__file__))
TABLE = os.path.join(os.path.dirname(HERE), "tables", "panic_sites.json")

UNWRAPS = re.compile(r"(Option::<T>|Result::<T, E>)::(unwrap|expect|unwrap_unchecked|expect_err|unwrap_err)$")
PANICS = re.compile(r"(panicking::panic|panicking::panic_fmt|panicking::panic_display|panicking::unreachable_display|panicking::assert_failed|"
                    r"panicking::panic_explicit|panicking::panic_nounwind|panicking::panic_str_2015|begin_panic|option::expect_failed|result::unwrap_failed)")
K6 = re.compile(r"(::from_str_radix$|<impl str>::repeat$|::with_capacity$|::windows$|::chunks$|::chunks_exact$|::copy_from_slice$|::swap$|"
                r"Vec::<T, A>::remove$|Vec::<T, A>::insert$|Vec::<T, A>::swap_remove$|Vec::<T, A>::split_off$|Vec::<T, A>::drain$|String::remove$|String::insert$|"
                r"::from_digit$|::to_digit$|::sort$|::sort_by$|::sort_by_key$|::sort_unstable$|::sort_unstable_by$|::sort_unstable_by_key$|::sort_by_cached_key$|"
                r"::step_by$|::next_power_of_two$|<impl i\d+>::abs$|<impl [iu]\d+>::pow$|::div_euclid$|::rem_euclid$|::split_at$|::split_at_mut$|"
                r"LazyLock::<T, F>::force$|Arc::<T>::try_unwrap$|::select_nth_unstable\w*$|::rotate_left$|::rotate_right$|char::from_u32_unchecked$)")
INDEXABLE = ("[", "std::vec::Vec<", "&[", "&mut [", "str", "std::string::String", "std::collections::HashMap<", "std::collections::BTreeMap<",
             "&std::vec::Vec<", "&mut std::vec::Vec<", "&std::collections::HashMap<", "&mut std::collections::HashMap<", "&str", "indexmap::IndexMap<",
             "&indexmap::IndexMap<", "&std::collections::BTreeMap<", "std::boxed::Box<[")


def short_ty(t):
    t = re.sub(r"'\w+ ?", "", t)
    t = re.sub(r"\{closure@[^}]*\}", "{closure}", t)
    return t[:70]


def first_str_const(body, t):
    for a in t["args"]:
        if a["k"] == "const" and isinstance(a.get("s"), str):
            return a["s"][:60]
    # message passed through a local: look one step back
    for a in t["args"]:
        if a["k"] in ("copy", "move") and not a["pl"]["p"]:
            for (b2, i2, dp, rv) in body.defs.get(a["pl"]["l"], []):
                if rv["k"] == "use" and rv["op"]["k"] == "const" and isinstance(rv["op"].get("s"), str):
                    return rv["op"]["s"][:60]
                if rv["k"] == "ref":
                    for (b3, i3, dp3, rv3) in body.defs.get(rv["pl"]["l"], []):
                        if rv3["k"] == "use" and rv3["op"]["k"] == "const" and isinstance(rv3["op"].get("s"), str):
                            return rv3["op"]["s"][:60]
    return ""


def generated(sp):
    x = (sp or {}).get("x", "")
    if x.startswith("macro:") and x.endswith(":ext"):
        name = x.split(":")[1]
        return name in ("Debug", "Clone", "PartialEq", "Eq", "Hash", "PartialOrd", "Ord", "Default", "Serialize", "Deserialize", "forward_to_deserialize_any")
    return False


def src_of(body, op, depth=0):
    """canonical source of an operand: looks through compiler temporaries to the place / constant / len() they copy"""
    if op["k"] == "const":
        return ("c", str(op.get("v")))
    pl = op["pl"]
    if not pl["p"] and not body.local_name(pl["l"]) and depth < 8:
        ds = [d for d in body.defs.get(pl["l"], []) if not d[2]]
        if len(ds) == 1:
            rv = ds[0][3]
            if rv["k"] == "use":
                return src_of(body, rv["op"], depth + 1)
            if rv["k"] == "ref":
                return ("p", pl_str(rv["pl"]))
            if rv["k"] == "call":
                t = rv["t"]
                if callee_def(t).endswith("::len") and t["args"]:
                    return ("len", src_of(body, t["args"][0], depth + 1))
    return ("p", pl_str(pl))


def cmp_of(body, op, depth=0):
    """(op, lhs, rhs, negated) when a switch operand is a comparison (possibly negated / copied)"""
    if op["k"] == "const" or op["pl"]["p"] or depth > 6:
        return None
    ds = [d for d in body.defs.get(op["pl"]["l"], []) if not d[2]]
    if len(ds) != 1:
        return None
    rv = ds[0][3]
    if rv["k"] == "bin" and rv["op"] in ("Lt", "Le", "Gt", "Ge"):
        return (rv["op"], src_of(body, rv["l"]), src_of(body, rv["r"]), False)
    if rv["k"] == "un" and rv["op"] == "Not":
        c = cmp_of(body, rv["a"], depth + 1)
        return (c[0], c[1], c[2], not c[3]) if c else None
    if rv["k"] == "use":
        return cmp_of(body, rv["op"], depth + 1)
    return None


# (op, operands in (L,R) order?, truth) combinations that establish L >= R
_GE = {("Gt", True, True), ("Ge", True, True), ("Lt", False, True), ("Le", False, True),
       ("Le", True, False), ("Lt", True, False), ("Gt", False, False), ("Ge", False, False)}


def sub_guarded(body, bb, t):
    """the checked subtraction l - r at bb is dominated by the edge of a comparison that establishes l >= r (same source places)"""
    L, R = src_of(body, t["l"]), src_of(body, t["r"])
    if L[0] == "c" and R[0] == "c":
        return False
    for sb in sorted(body.reachable):
        st = body.term(sb)
        if st["k"] != "switch" or sb == bb or not body.dominates(sb, bb):
            continue
        c = cmp_of(body, st["op"])
        if not c:
            continue
        op, a, b, neg = c
        if (a, b) == (L, R):
            fwd = True
        elif (a, b) == (R, L):
            fwd = False
        else:
            continue
        edges = [(v != "0", tgt) for v, tgt in st["targets"]]
        if len(st["targets"]) == 1:
            edges.append((st["targets"][0][0] == "0", st["otherwise"]))
        for truth, tgt in edges:
            if tgt == sb or not body.dominates(tgt, bb):
                continue
            # an edge target with other predecessors is not implied by the edge
            if len(body.pred[tgt]) != 1:
                continue
            if (op, fwd, truth != neg) in _GE:
                return True
    return False


# ---- unwrap() of a Value accessor under a kind test ------------------------------------------------------------------------

_KIND_CACHE = {}


def kind_tables(crate):
    """(inner->kind, {is_x: set of kinds}, {accessor: set of inner variants for which it is definitely Some}) read off the MIR"""
    key = id(crate)
    if key in _KIND_CACHE:
        return _KIND_CACHE[key]
    from engine import VariantWalk, option_table
    vi = crate.adts.get("value::ValueInner")
    res = ({}, {}, {})
    if vi is not None:
        kb = crate.bodies.get("value::Value::kind")
        inner2kind = {}
        if kb is not None:
            vw = VariantWalk(kb, vi, 1, lambda l: 0 if l.kind == "param" and l.detail == 1 else None)
            st = vw.run()
            for bb, idx, s_ in kb.stmts():
                if idx != "t" and s_["k"] == "assign" and s_["pl"]["l"] == 0 and not s_["pl"]["p"] and s_["rv"]["k"] == "agg" and str(s_["rv"].get("adt", "")).endswith("ValueKind"):
                    for (v,) in st.get(bb, ()):
                        inner2kind.setdefault(v, set()).add(s_["rv"]["variant"])
            inner2kind = {k: next(iter(v)) for k, v in inner2kind.items() if len(v) == 1}
        is_tab = {}
        acc_tab = {}
        for p_, b in crate.bodies.items():
            if not p_.startswith("value::Value::") or b.kind not in ("fn", "assoc_fn") or p_.count("::") != 2:
                continue
            name = p_.rsplit("::", 1)[-1]
            rty = b.local_ty(0)
            if name.startswith("is_") and rty == "bool" and b.arg_count == 1:
                # matches!(self.kind(), A | B): kinds on whose edge the constant true is returned
                ef = EdgeFacts(b, crate)
                kinds = set()
                okshape = False
                for sb in sorted(b.reachable):
                    if b.term(sb)["k"] != "switch":
                        continue
                    for tgt, fl in ef.facts_for_switch(sb).items():
                        for f in fl:
                            if f[0] == "variant" and f[1].endswith("ValueKind") and f[4]:
                                okshape = True
                                vals = set()
                                for bb, idx, s_ in b.stmts(sorted(x for x in b.reach_from(tgt) if b.dominates(tgt, x))):
                                    if idx != "t" and s_["k"] == "assign" and s_["pl"]["l"] == 0 and s_["rv"]["k"] == "use" and s_["rv"]["op"]["k"] == "const":
                                        vals.add(str(s_["rv"]["op"].get("v")))
                                if vals == {"1"}:
                                    kinds |= set(f[3])
                if okshape and len([1 for bb, t in b.calls()]) == 1:
                    is_tab[p_] = kinds
            elif rty.startswith("std::option::Option<") and b.arg_count == 1:
                try:
                    t = option_table(b, vi)
                    acc_tab[p_] = {k for k, v in t.items() if v == "some"}
                except Exception:
                    pass
        res = (inner2kind, is_tab, acc_tab)
    _KIND_CACHE[key] = res
    return res


def unwrap_kind_guarded(crate, body, bb, t):
    """the unwrap/expect at bb takes the result of a Value accessor that is definitely Some for every kind the value can have here:
    the site is dominated by an edge of `match v.kind()` / `if v.is_x()` on the same value that leaves only such kinds"""
    a = t["args"][0] if t["args"] else None
    if not a or a["k"] not in ("copy", "move") or a["pl"]["p"]:
        return False
    ds = [d for d in body.defs.get(a["pl"]["l"], []) if not d[2]]
    if len(ds) != 1 or ds[0][3]["k"] != "call":
        return False
    at = ds[0][3]["t"]
    inner2kind, is_tab, acc_tab = kind_tables(crate)
    some_for = acc_tab.get(callee_def(at))
    if not some_for or not at["args"]:
        return False
    some_kinds = {inner2kind[v] for v in some_for if v in inner2kind}
    V = src_of(body, at["args"][0])
    ef = EdgeFacts(body, crate)
    for sb in sorted(body.reachable):
        st = body.term(sb)
        if st["k"] != "switch" or sb == bb or not body.dominates(sb, bb):
            continue
        for tgt, fl in ef.facts_for_switch(sb).items():
            if tgt == sb or not body.dominates(tgt, bb) or set(body.pred[tgt]) != {sb}:       # (merged arms `A | B =>` are two edges of sb)
                continue
            for f in fl:
                if f[0] == "variant" and f[1].endswith("ValueKind") and f[4]:
                    # the discriminant read is of the result of v.kind()
                    d = ef.single_def(st["op"]["pl"]["l"])
                    if d and d[3]["k"] == "discr" and not d[3]["pl"]["p"]:
                        kd = [x for x in body.defs.get(d[3]["pl"]["l"], []) if not x[2]]
                        if len(kd) == 1 and kd[0][3]["k"] == "call" and callee_def(kd[0][3]["t"]) == "value::Value::kind" \
                                and src_of(body, kd[0][3]["t"]["args"][0]) == V and set(f[3]) <= some_kinds:
                            return True
                if f[0] == "call" and f[3] is True and f[1] in is_tab:
                    ct = body.term(f[4])
                    if ct["args"] and src_of(body, ct["args"][0]) == V and is_tab[f[1]] and is_tab[f[1]] <= some_kinds:
                        return True
                if f[0] == "call" and f[3] is False and f[1] in is_tab:
                    # `if !v.is_map() { return Err }` — on the false edge nothing is known; on the edge where is_x is FALSE we learn nothing useful
                    pass
    return False


def sites_of(crate, body):
    """yield (kind, detail, bb) for every panic-capable site of one body"""
    if body.kind == "const":
        return
    for bb in sorted(body.reachable):
        blk = body.blocks[bb]
        t = blk["t"]
        if t["k"] == "assert":
            ak = t.get("ak")
            if generated(t.get("sp")):
                continue
            if ak == "BoundsCheck":
                yield ("K1", "bounds", bb)
            elif ak in ("DivisionByZero", "RemainderByZero"):
                yield ("K3", "%s %s" % (ak, t.get("lty")), bb)
            elif ak in ("Overflow", "OverflowNeg"):
                lty = t.get("lty", "")
                bop = t.get("bop", "Neg")
                signed_or_wide = lty.startswith("i") or lty in ("u128",)
                const_rhs = t.get("r", {}).get("k") == "const"
                if signed_or_wide or bop in ("Sub", "Mul", "Shl", "Shr") or (bop == "Add" and not const_rhs):
                    g = " [dominated by l>=r]" if (bop == "Sub" and not signed_or_wide and sub_guarded(body, bb, t)) else ""
                    yield ("K4", "%s %s%s" % (bop, lty, g), bb)
        elif t["k"] == "call":
            if generated(t.get("sp")):
                continue
            cd = callee_def(t)
            names = callee_names(t)
            if cd in ("std::ops::Index::index", "std::ops::IndexMut::index_mut"):
                rty = t["atys"][0] if t["atys"] else ""
                st = t["f"].get("self_ty", "")
                if st.startswith(INDEXABLE) or rty.startswith(INDEXABLE):
                    ity = t["atys"][1] if len(t["atys"]) > 1 else ""
                    kind = "K5" if (st in ("str", "std::string::String") and "Range" in ity) else "K1"
                    yield (kind, "index %s [%s]" % (short_ty(st or rty), short_ty(ity)), bb)
                continue
            if any(UNWRAPS.search(n) for n in names):
                g = "[Some under the dominating kind test]" if unwrap_kind_guarded(crate, body, bb, t) else ""
                yield ("K2", " ".join(x for x in (cd.rsplit("::", 1)[-1], first_str_const(body, t).strip(), g) if x), bb)
                continue
            if any(PANICS.search(n) for n in names):
                msg = first_str_const(body, t)
                x = (t.get("sp") or {}).get("x", "")
                mac = x.split(":")[1] if x.startswith("macro:") else ""
                yield ("K2", "panic %s %s" % (mac, msg), bb)
                continue
            if any(K6.search(n) for n in names):
                if cd.endswith("::with_capacity") and t["args"] and t["args"][0]["k"] == "const":
                    continue
                # capacity = len() of a value already in memory: cannot exceed the address space (same reason as the reviewed rows)
                if cd.endswith("::with_capacity") and t["args"] and src_of(body, t["args"][-1])[0] == "len":
                    continue
                yield ("K6", cd.rsplit("::", 2)[-2][-30:] + "::" + cd.rsplit("::", 1)[-1], bb)


def enumerate_sites(crate, files):
    out = []
    for b in crate.in_files(*files):
        root = crate.root_of(b).path
        for kind, detail, bb in sites_of(crate, b):
            out.append({"key": "%s|%s|%s" % (root, kind, detail.strip()), "where": b.where(bb), "body": b, "bb": bb, "kind": kind})
    return out


def load_table():
    with open(TABLE) as f:
        return json.load(f)


ALL_FILES = ("parsing/lexer.rs", "parsing/parser.rs", "parsing/compiler.rs", "parsing/instructions.rs", "parsing/ast.rs", "template.rs", "tera.rs", "delimiters.rs",
             "vm/interpreter.rs", "vm/state.rs", "vm/for_loop.rs", "vm/stack.rs", "value/mod.rs", "value/number.rs", "value/key.rs", "value/ser.rs", "value/de.rs",
             "value/utils.rs", "errors.rs", "reporting.rs", "utils.rs", "filters.rs", "tests.rs", "functions.rs", "args.rs", "context.rs", "components.rs", "globbing.rs", "lib.rs")
_MOVE_CACHE = {}


def kd_of(key):
    return key.split("|", 1)[1]


def move_budget(crate, cfg, table):
    """per (kind, detail): how many reviewed sites of that description are no longer where the table has them in this configuration
    (the function lost them or no longer exists) — these can pay for the same description showing up in another function (a site that a
    refactoring moved); and how many sites exceed their row over the whole crate"""
    ck = (id(crate), cfg)
    if ck in _MOVE_CACHE:
        return _MOVE_CACHE[ck]
    allc = Counter(s["key"] for s in enumerate_sites(crate, ALL_FILES))
    deficit, excess = Counter(), Counter()
    for key, row in table.items():
        if "configs" in row and cfg not in row["configs"]:
            continue
        d = row["count"] - allc.get(key, 0)
        if d > 0:
            deficit[kd_of(key)] += d
    for key, n in allc.items():
        row = table.get(key)
        e = n - (row["count"] if row else 0)
        if e > 0:
            excess[kd_of(key)] += e
    _MOVE_CACHE[ck] = (deficit, excess)
    return deficit, excess


def check(crate, rep, rule, files, cfg, floor):
    table = load_table()
    sites = enumerate_sites(crate, files)
    cnt = Counter(s["key"] for s in sites)
    first = {}
    for s in sites:
        first.setdefault(s["key"], s)
    deficit, excess = move_budget(crate, cfg, table)
    n_ok = 0
    for key, n in sorted(cnt.items()):
        row = table.get(key)
        s = first[key]
        k = "%s:%s" % (rule, key)
        have = row["count"] if row else 0
        if n > have and excess[kd_of(key)] <= deficit[kd_of(key)]:
            # every extra site of this description over the crate is matched by a reviewed site of the same description that is gone from
            # its old function: a move (helper extracted / inlined), not a new site
            n_ok += 1
            rep.ok(rule, k, s["where"], "reviewed site(s) of this description moved here from another function (%d extra over the crate, %d reviewed ones gone elsewhere)"
                   % (excess[kd_of(key)], deficit[kd_of(key)]))
        elif row is None:
            rep.bad(rule, k, s["where"], "panic-capable site is not in the reviewed table (new %s site `%s`): every place where the 'never panics' clause can fail "
                    "must be reviewed — add a row with its reason after review" % (s["kind"], key.split("|", 2)[2]))
        elif n > row["count"]:
            rep.bad(rule, k, s["where"], "%d site(s) with this key, only %d reviewed [%s]" % (n, row["count"], row["reason"]))
        else:
            n_ok += 1
            rep.ok(rule, k, s["where"], "reviewed (%dx): %s" % (n, row["reason"]))
    rep.floor(rule, "panic-capable site keys in scope [%s]" % cfg, len(cnt), floor)
    return sites
