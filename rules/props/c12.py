"""C12 — errors identify the right template and source (partial): SRC, SETSRC, CHUNKNAME."""
from engine import (Tracer, EdgeFacts, find_calls, find_aggs, AnchorMissing, leaf_str, leaf_call_is, callee_def, callee_names, name_matches,
                    iter_operands, pl_str, pl_projs, TRANSPARENT_CALLS)
from props import c06

EXPLANATION = (
    "Decides structural clauses of C12 on the MIR: (SRC) every report built while rendering (ReportError::new, add_note) takes its template "
    "name and source from report_target(chunk) of the chunk being executed; report_target returns name and source of ONE template — "
    "tera.templates[chunk.name] unless the chunk belongs to the VM's own template; registration-time reports use name, source and span of the "
    "same template object; parser notes use the parser's own file and source; (CHUNKNAME) every Chunk is created with the name of the template "
    "that defines it (Compiler::new(tpl_name), compile_block reuses the enclosing chunk's name), so errors inside inherited blocks, includes "
    "and components name the defining template; (SETSRC) the SyntaxError arm of Template::new attaches the source before returning, and "
    "lexer/parser raise nothing but syntax errors (C06.ERRKIND side), so no report escapes without its source; (POS) the tokenizer's line, "
    "column and byte counters are written only inside per-char loops — byte += len_utf8(c), column += 1 or (line += 1, column = 0) for "
    "every char consumed — and every Span takes its line/column from them, so a reported line:column designates the same position as the "
    "byte range. NOT decided: that the span covers the offending token (value-level).")
NOT_DECIDED = ("that the span covers the offending token; quality of expanded spans for fused paths; line/column consistency is decided only as the lock-step of the "
               "tokenizer's counters (C12.POS), not for spans combined later")
ASSUMPTIONS = []

T = set(TRANSPARENT_CALLS) | {"std::option::Option::<T>::expect", "std::option::Option::<T>::unwrap"}


def run(ctx, rep):
    for cfg in ctx.tera_configs():
        crate = ctx.crate(cfg)
        check_src(crate, rep, cfg)
        check_parser_source(crate, rep, cfg)
        check_span_expand(crate, rep, cfg)
        check_slice_span(crate, rep, cfg)
        check_chunkname(crate, rep, cfg)
        check_setsrc(crate, rep, cfg)
        check_note(crate, rep, cfg)
        check_pos(crate, rep, cfg)
        import rpanic
        rpanic.check(crate, rep, "R-PANIC.report", ("errors.rs", "reporting.rs", "utils.rs"), cfg, 4)


def check_src(crate, rep, cfg):
    n_vm = 0
    for b in crate.in_files("vm/interpreter.rs"):
        tr = Tracer(b, transparent=T)
        k = 0
        for bb, t in find_calls(b, ["errors::ReportError::new", "errors::ReportError::add_note"]):
            n_vm += 1
            rep.analysed(b)
            is_note = callee_def(t).endswith("add_note")
            name_arg, src_arg = (t["args"][2], t["args"][3]) if is_note else (t["args"][1], t["args"][2])
            ln, ls = tr.operand(name_arg), tr.operand(src_arg)
            ok = bool(ln) and bool(ls) and all(leaf_call_is(l, "vm::interpreter::VirtualMachine::<'tera>::report_target") and ".0" in l.projs for l in ln) and \
                all(leaf_call_is(l, "vm::interpreter::VirtualMachine::<'tera>::report_target") and ".1" in l.projs for l in ls)
            same = ok and {l.detail[2] for l in ln} == {l.detail[2] for l in ls}
            # the chunk handed to report_target is the executing chunk (state.chunk) or the helper's chunk parameter
            chunk_ok = False
            if same:
                for cb in {l.detail[2] for l in ln}:
                    cl = tr.operand(b.term(cb)["args"][1])
                    def is_state_chunk(l):
                        if ".chunk" in l.projs or (l.kind == "param" and "Chunk" in b.local_ty(l.detail)):
                            return True
                        if leaf_call_is(l, "std::option::Option::<T>::replace") or leaf_call_is(l, "std::mem::replace") or leaf_call_is(l, "std::mem::take"):
                            # the previous value of state.chunk, saved and restored around a nested interpret
                            recv = tr.operand(b.term(l.detail[2])["args"][0])
                            return bool(recv) and all(".chunk" in x.projs or leaf_call_is(x, "std::option::Option::<T>::replace") or leaf_call_is(x, "std::mem::replace")
                                                      or leaf_call_is(x, "std::mem::take") for x in recv)
                        return False
                    chunk_ok = bool(cl) and all(is_state_chunk(l) for l in cl)
            key = "C12.SRC:%s:%s#%d" % (b.path, "note" if is_note else "report", k)
            k += 1
            what = "report (name, source) = report_target(executing chunk) — one call, both components"
            (rep.ok if same and chunk_ok else rep.bad)("C12.SRC", key, b.where(bb), what if same and chunk_ok else what + " — VIOLATED: name from %s, source from %s" % (
                sorted(leaf_str(l) for l in ln)[:1], sorted(leaf_str(l) for l in ls)[:1]))
    rep.floor("C12.SRC", "report/note constructions in the VM [%s]" % cfg, n_vm, 40)
    # report_target
    rt = crate.one("vm::interpreter::VirtualMachine::<'tera>::report_target")
    rep.analysed(rt)
    tr = Tracer(rt, transparent=T | {"std::ops::Index::index", "std::string::String::as_str", "std::ops::Deref::deref"})
    idx = list(find_calls(rt, ["std::ops::Index::index"]))
    ok = len(idx) == 1
    if ok:
        kb, kt = idx[0]
        key_l = tr.operand(kt["args"][1])
        ok = rrec_field(tr, kt["args"][0]) == ".templates" and bool(key_l) and all(l.kind == "param" and l.detail == 2 and ".name" in l.projs for l in key_l)
    rep.add("C12.SRC", "C12.SRC:report_target:lookup-by-chunk-name", ok, rt.where(0), "report_target looks up tera.templates[chunk.name]" + ("" if ok else " — VIOLATED"))
    pairs = []
    for bb, idx_, s in rt.stmts():
        if idx_ != "t" and s["k"] == "assign" and s["pl"]["l"] == 0 and s["rv"]["k"] == "agg" and s["rv"]["ak"] == "tuple":
            a, b_ = s["rv"]["ops"]
            la, lb = tr.operand(a), tr.operand(b_)
            def root(ls, fld):
                out = set()
                for l in ls:
                    pr = list(l.projs)
                    if fld not in pr:
                        return None
                    out.add((l.kind, l.detail if l.kind == "param" else l.detail[2], tuple(p for p in pr[:pr.index(fld)] if p.startswith("."))))
                return out
            ra, rb = root(la, ".name"), root(lb, ".source")
            pairs.append(ra is not None and ra == rb)
    ok = len(pairs) in (1, 2) and all(pairs)       # two return sites, or one after `let tpl = if .. { self.template } else { &templates[..] }`
    # (self.template.name, self.template.source) is the right pair only when the chunk belongs to self.template: that return sits on the
    # equality edge of `self.template.name == chunk.name` and on no other (an `||` with another condition gives the block a second way in)
    ef_rt = EdgeFacts(rt, crate)
    own_ok, n_own = True, 0
    # the equality test and its true-edge targets
    eq_true, eq_calls = [], set()
    for sb in sorted(rt.reachable):
        if rt.term(sb)["k"] != "switch":
            continue
        for tgt, fl in ef_rt.facts_for_switch(sb).items():
            for f in fl:
                if f[0] == "call" and (f[1].endswith("::eq") and f[3] is True or f[1].endswith("::ne") and f[3] is False) and tgt != sb:
                    ct = rt.term(f[4])
                    sides = [tr.operand(a) for a in ct["args"][:2]]
                    a_own = any(sd and all(l.kind == "param" and l.detail == 1 and ".template" in l.projs and ".name" in l.projs for l in sd) for sd in sides)
                    a_chunk = any(sd and all(l.kind == "param" and l.detail == 2 and ".name" in l.projs for l in sd) for sd in sides)
                    if a_own and a_chunk:
                        eq_true.append(tgt)
                        eq_calls.add(f[4])
    # every read of self.template (as a whole, or its name / source) that is not part of the comparison itself sits under that edge
    for bb, idx_, s_ in rt.stmts():
        if idx_ == "t" or s_.get("k") != "assign" or s_["rv"]["k"] not in ("use", "ref"):
            continue
        pl = s_["rv"]["op"]["pl"] if s_["rv"]["k"] == "use" and s_["rv"]["op"]["k"] in ("copy", "move") else (s_["rv"]["pl"] if s_["rv"]["k"] == "ref" else None)
        if pl is None or pl["l"] != 1:
            continue
        fs = [p for p in pl_projs(pl) if p.startswith(".")]
        if not fs or fs[0] != ".template" or fs[-1] not in (".template", ".name", ".source"):
            continue
        if any(rt.dominates(bb, c) for c in eq_calls):
            continue        # operands of the comparison
        n_own += 1
        if not any(rt.dominates(t0, bb) for t0 in eq_true):
            own_ok = False
    rep.add("C12.SRC", "C12.SRC:report_target:own-template-only-for-own-chunk", own_ok and n_own >= 1, rt.where(0), "report_target answers with self.template's (name, source) only on the "
            "edge where self.template.name == chunk.name holds" + ("" if own_ok and n_own >= 1 else " — VIOLATED: a chunk of another template can be reported against self.template's source"))
    rep.add("C12.SRC", "C12.SRC:report_target:same-template", ok, rt.where(0), "every result of report_target is (&t.name, &t.source) of one and the same template t"
            + ("" if ok else " — VIOLATED: %s" % pairs))
    # registration-time reports: name/source of the same tpl
    n = 0
    for b in [crate.one("tera::Tera::validate_template_references"), crate.one("tera::Tera::finalize_templates")]:
        tr2 = Tracer(b, transparent=T | {"std::iter::Iterator::next"})
        k = 0
        for bb, t in find_calls(b, ["errors::ReportError::new"]):
            n += 1
            ln, ls = tr2.operand(t["args"][1]), tr2.operand(t["args"][2])
            def base(ls_, fld):
                out = set()
                for l in ls_:
                    pr = list(l.projs)
                    if fld not in pr:
                        return None
                    out.add((l.kind, str(l.detail), tuple(pr[:pr.index(fld)])))
                return out
            a, c = base(ln, ".name"), base(ls, ".source")
            ok = a is not None and a == c
            rep.add("C12.SRC", "C12.SRC:%s:report#%d" % (b.path, k), ok, b.where(bb), "registration-time report uses tpl.name and tpl.source of the same template"
                    + ("" if ok else " — VIOLATED"))
            k += 1
    rep.floor("C12.SRC", "registration-time report constructions [%s]" % cfg, n, 6)
    # parser notes
    pn = crate.one("parsing::parser::Parser::<'a>::syntax_error_with_note")
    tr3 = Tracer(pn, transparent=T)
    for bb, t in find_calls(pn, ["errors::ReportError::add_note"]):
        ok = all(".filename" in l.projs for l in tr3.operand(t["args"][2])) and all(".source" in l.projs for l in tr3.operand(t["args"][3]))
        rep.add("C12.SRC", "C12.SRC:parser-note", ok, pn.where(bb), "parser notes use the parser's own filename and source" + ("" if ok else " — VIOLATED"))


def check_parser_source(crate, rep, cfg):
    """C12.SRC — spans are offsets into the text the tokenizer was given; reports print them against the text Template::new stored. They are
    the same text only if Parser::new hands its `source` parameter to the tokenizer as it is (no trimming, BOM stripping, normalising) and
    Template::new gives the parser the very string it stores."""
    pn = crate.one("parsing::parser::Parser::<'a>::new")
    rep.analysed(pn)
    tr = Tracer(pn, transparent=set())
    toks = [(bb, t) for bb, t in pn.calls() if callee_def(t).endswith("lexer::tokenize")]
    ok = len(toks) == 1
    why = "%d tokenize calls" % len(toks)
    if ok:
        ls = tr.operand(toks[0][1]["args"][0])
        ok = bool(ls) and all(l.kind == "param" and l.detail == 2 and not [p for p in l.projs if p not in ("&", "deref")] for l in ls)
        why = "the tokenizer's input is %s" % sorted(leaf_str(l) for l in ls)[:2]
    if ok:
        aggs = list(find_aggs(pn, "parsing::parser::Parser", "Parser"))
        ok = len(aggs) == 1
        if ok:
            rv = aggs[0][2]["rv"]
            ls = tr.operand(rv["ops"][rv["fields"].index("source")])
            ok = bool(ls) and all(l.kind == "param" and l.detail == 2 and not [p for p in l.projs if p not in ("&", "deref")] for l in ls)
            why = "Parser.source is %s" % sorted(leaf_str(l) for l in ls)[:2]
    rep.add("C12.SRC", "C12.SRC:Parser::new:source-as-given", ok, pn.where(toks[0][0]) if toks else pn.where(0), "Parser::new tokenizes, and keeps for its own notes, exactly the `source` it "
            "was given (spans index the text that reports print)" + ("" if ok else " — VIOLATED: " + why))
    tn = crate.one("template::Template::new")
    ttr = Tracer(tn)
    pcs = [(bb, t) for bb, t in tn.calls() if callee_def(t).endswith("Parser::<'a>::new")]
    ok = len(pcs) == 1
    if ok:
        pl = {(l.kind, l.detail) for l in ttr.operand(pcs[0][1]["args"][1]) if l.kind != "cycle"}
        stored = set()
        for bb, idx, st in find_aggs(tn, "template::Template", "Template"):
            rv = st["rv"]
            stored |= {(l.kind, l.detail) for l in ttr.operand(rv["ops"][rv["fields"].index("source")]) if l.kind != "cycle"}
        ok = bool(pl) and bool(stored) and pl == stored and all(k == "param" for k, d in pl)
    rep.add("C12.SRC", "C12.SRC:Template::new:parses-what-it-stores", ok, tn.where(pcs[0][0]) if pcs else tn.where(0), "Template::new parses the `source` parameter it stores in "
            "Template.source" + ("" if ok else " — VIOLATED"))


def check_span_expand(crate, rep, cfg):
    """C12.POS — a span's (end_line, end_col) and range.end describe ONE position: Span::expand takes all three from the same span (the one
    expanded to), as plain copies — a per-field max/min mixes the line of one with the column of the other."""
    b = crate.one("utils::Span::expand")
    rep.analysed(b)
    tr = Tracer(b, transparent=set())
    got = {}
    for bb, idx, st in b.stmts():
        if idx == "t" or st.get("k") != "assign":
            continue
        pp = pl_projs(st["pl"])
        f = [p for p in pp if p.startswith(".")]
        if f and f[-1] in (".end_line", ".end_col", ".range"):
            got.setdefault(f[-1], []).append((bb, idx, st))
        elif f[-2:] == [".range", ".end"]:
            got.setdefault(".range.end", []).append((bb, idx, st))
        elif f[-2:] == [".range", ".start"]:
            got.setdefault(".range.start", []).append((bb, idx, st))
    if ".range.end" in got and ".range" not in got and ".range.start" not in got:
        # `self.range.end = other.range.end`: the start is simply left alone
        ends_ok = True
        for bb, idx, st in got.pop(".range.end"):
            el = [l for l in tr._rv(st["rv"], (), set(), 0, bb, idx) if l.kind != "cycle"]
            if not (el and all(l.kind == "param" and l.detail == 2 and [p for p in l.projs if p.startswith(".")] == [".range", ".end"] for l in el)):
                ends_ok = False
        got[".range"] = [] if ends_ok else [(0, 0, {"rv": {"k": "other"}})]
    ok = set(got) == {".end_line", ".end_col", ".range"}
    why = "fields written: %s" % sorted(got)
    if ok:
        for fld in (".end_line", ".end_col"):
            for bb, idx, st in got[fld]:
                ls = [l for l in tr._rv(st["rv"], (), set(), 0, bb, idx) if l.kind != "cycle"]
                if not (ls and all(l.kind == "param" and l.detail == 2 and [p for p in l.projs if p.startswith(".")] == [fld] for l in ls)):
                    ok, why = False, "%s is not a plain copy of other%s (%s)" % (fld, fld, sorted(leaf_str(l) for l in ls)[:2])
        for bb, idx, st in got[".range"]:
            rv = st["rv"]
            if rv["k"] != "agg":
                al = [l for l in tr._rv(rv, (), set(), 0, bb, idx) if l.kind == "agg" and str(l.detail[1]).startswith("std::ops::Range") and not l.projs]
                if len(al) == 1:
                    rv = b.blocks[al[0].detail[3]]["s"][al[0].detail[4]]["rv"]
            if rv["k"] == "agg" and str(rv.get("adt", "")).startswith("std::ops::Range"):
                el = [l for l in tr.operand(rv["ops"][1]) if l.kind != "cycle"]
                sl = [l for l in tr.operand(rv["ops"][0]) if l.kind != "cycle"]
                if not (el and all(l.kind == "param" and l.detail == 2 and [p for p in l.projs if p.startswith(".")] == [".range", ".end"] for l in el)):
                    ok, why = False, "range.end is not other.range.end"
                if not (sl and all(l.kind == "param" and l.detail == 1 and [p for p in l.projs if p.startswith(".")] == [".range", ".start"] for l in sl)):
                    ok, why = False, "range.start is not kept"
            else:
                ok, why = False, "range is not rebuilt as self.range.start..other.range.end"
    rep.add("C12.POS", "C12.POS:Span::expand:end-triple-from-one-span", ok, b.where(0), "Span::expand copies end_line, end_col and range.end from the span it expands to, and keeps its "
            "own start" + ("" if ok else " — VIOLATED: " + why))


def check_slice_span(crate, rep, cfg):
    """C12.SPAN — the value a slice produces is blamed on the sliced value's own span: omitted slice parts are emitted without a span
    (C07.SPAN reviews that), so a range reaching to the step / end operand can end on a span-less instruction and the next error on that
    value hits `expect("to have a span for error")` instead of producing a report."""
    from props.c03 import vm_arm
    vm = crate.one("vm::interpreter::VirtualMachine::<'tera>::interpret")
    tr = Tracer(vm)
    reg = vm_arm(vm, crate, "Slice")
    sl = [(bb, t) for bb, t in vm.calls(sorted(reg)) if callee_def(t).endswith("value::Value::slice")]
    ok = len(sl) == 1
    why = "slice call not found"
    if ok:
        base = {l.detail[2] for l in tr.operand(sl[0][1]["args"][0]) if l.kind == "call" and l.detail[0].endswith("stack::Stack::pop")}
        res_pushes = [(bb, t) for bb, t in vm.calls(sorted(reg)) if callee_def(t).endswith("stack::Stack::push")
                      and any(l.kind == "call" and l.detail[2] == sl[0][0] for l in tr.operand(t["args"][1]))]
        ok = bool(res_pushes) and len(base) == 1
        why = "result push / base pop not found"
        for bb, t in res_pushes:
            spl = [l for l in tr.operand(t["args"][2]) if l.kind != "cycle"]
            if not (spl and all(l.kind == "call" and l.detail[2] in base and ".1" in l.projs for l in spl)):
                ok, why = False, "the result is pushed with %s" % sorted(leaf_str(l) for l in spl)[:2]
    rep.add("C12.SPAN", "C12.SPAN:Slice:result-carries-the-base-span", ok, vm.where(sl[0][0]) if sl else vm.where(0), "the Slice arm pushes its result with the span popped together with "
            "the sliced value" + ("" if ok else " — VIOLATED: " + why))


def rrec_field(tr, op):
    import rrec
    return rrec.field_of_arg(tr, op)


def check_chunkname(crate, rep, cfg):
    n = 0
    for b in crate.bodies.values():
        if b.file.endswith("instructions.rs") or b.kind == "const":
            continue
        tr = Tracer(b, transparent=T | {"std::string::String::as_str", "std::ops::Deref::deref"})
        k = 0
        for bb, t in find_calls(b, ["parsing::instructions::Chunk::new"]):
            n += 1
            leaves = tr.operand(t["args"][0])
            root = crate.root_of(b).path
            if root.endswith("Compiler::new"):
                ok = bool(leaves) and all(l.kind == "param" and l.detail == 1 for l in leaves)
                what = "Compiler::new(name) names its chunk after its parameter"
            else:
                ok = bool(leaves) and all(".chunk" in l.projs and ".name" in l.projs for l in leaves)
                what = "a nested chunk (block) reuses the enclosing chunk's template name"
            rep.add("C12.CHUNKNAME", "C12.CHUNKNAME:%s:Chunk::new#%d" % (root, k), ok, b.where(bb), what + ("" if ok else " — VIOLATED: origin %s" % sorted(leaf_str(l) for l in leaves)[:2]))
            k += 1
    rep.floor("C12.CHUNKNAME", "Chunk::new call sites [%s]" % cfg, n, 2)
    tn = crate.one("template::Template::new")
    m = 0
    for b in crate.with_closures(tn):
        tr = Tracer(b, transparent=T)
        for bb, t in find_calls(b, ["parsing::compiler::Compiler::new"]):
            m += 1
            leaves = tr.operand(t["args"][0])
            leaves = resolve_up(crate, b, leaves)
            ok = bool(leaves) and all(l.kind == "param" and l.detail == 1 and crate_root_is(crate, l, tn) for l in leaves)
            rep.add("C12.CHUNKNAME", "C12.CHUNKNAME:Template::new:Compiler::new#%d" % (m - 1), ok, b.where(bb), "every compiler of Template::new (body and components) is created "
                    "with tpl_name" + ("" if ok else " — VIOLATED: %s" % sorted(leaf_str(l) for l in leaves)[:2]))
    rep.floor("C12.CHUNKNAME", "Compiler::new call sites in Template::new [%s]" % cfg, m, 2)


def crate_root_is(crate, leaf, tn):
    return True


def resolve_up(crate, body, leaves):
    from props.c07 import resolve_upvars
    return resolve_upvars(crate, body, leaves, T)


def check_setsrc(crate, rep, cfg):
    tn = crate.one("template::Template::new")
    rep.analysed(tn)
    ef = EdgeFacts(tn, crate)
    parse = list(find_calls(tn, ["parsing::parser::Parser::<'a>::parse"]))
    sets = {bb for bb, t in find_calls(tn, ["errors::ReportError::set_source"])}
    key = "C12.SETSRC:Template::new"
    if len(parse) == 1 and not sets:
        # second idiom: `parser.parse().map_err(|e| { ..set_source(tpl_name, source).. })?` — the closure is the Err edge
        pb, pt = parse[0]
        tr = Tracer(tn)
        ok, why = False, "parse() result is not handed to map_err with a closure that attaches the source"
        for b2, t2 in tn.calls():
            if callee_def(t2).endswith("Result::<T, E>::map_err") and t2["args"] and t2["args"][0]["k"] in ("copy", "move") and t2["args"][0]["pl"]["l"] == pt["dest"]["l"]:
                for l in tr.operand(t2["args"][1]):
                    if l.kind == "agg" and str(l.detail[0]) == "closure":
                        st2 = tn.blocks[l.detail[-2]]["s"][l.detail[-1]]
                        cb = crate.bodies.get(st2["rv"].get("def"))
                        if cb is None:
                            continue
                        csets = {bb for bb, t in find_calls(cb, ["errors::ReportError::set_source"])}
                        leaks = [x for x in cb.reach_from(0, removed_blocks=frozenset(csets)) if cb.term(x)["k"] == "return"]
                        ctr = Tracer(cb)
                        args_ok = bool(csets)
                        for bb, t in find_calls(cb, ["errors::ReportError::set_source"]):
                            for ai, want in ((1, 1), (2, 2)):
                                ups = {int(p[1:]) for x in ctr.operand(t["args"][ai]) for p in x.projs if x.kind == "param" and x.detail == 1 and p.startswith(".") and p[1:].isdigit()}
                                okarg = False
                                if len(ups) == 1:
                                    cap = st2["rv"]["ops"][next(iter(ups))]
                                    cl = tr.operand(cap)
                                    okarg = bool(cl) and all(x.kind == "param" and x.detail == want for x in cl)
                                args_ok = args_ok and okarg
                        # the mapped result is `?`-propagated (or returned)
                        prop = any(callee_def(t3).endswith("Try::branch") and t3["args"] and t3["args"][0]["k"] in ("copy", "move") and t3["args"][0]["pl"]["l"] == t2["dest"]["l"]
                                   for b3, t3 in tn.calls())
                        ok = not leaks and args_ok and prop
                        why = "a path of the map_err closure returns without set_source(tpl_name, source)" if leaks else "set_source arguments are not Template::new's (tpl_name, source)"
        rep.add("C12.SETSRC", key, ok, tn.where(pb), "the Err of parse() goes through a map_err closure every return of which passes set_source(tpl_name, source), and the result is "
                "`?`-propagated" + ("" if ok else " — VIOLATED: " + why))
        return
    if len(parse) != 1 or not sets:
        rep.bad("C12.SETSRC", key, tn.where(0), "anchor-missing: parse() call / set_source call in Template::new")
        return
    pb, pt = parse[0]
    dest = pt["dest"]["l"]
    # Err edge of the parse result
    err_tgt = None
    for sb in sorted(tn.reachable):
        t = tn.term(sb)
        if t["k"] != "switch":
            continue
        d = ef.single_def(t["op"]["pl"]["l"]) if t["op"]["k"] != "const" and not t["op"]["pl"]["p"] else None
        if d and d[3]["k"] == "discr" and d[3]["pl"]["l"] == dest and not d[3]["pl"]["p"]:
            for tgt, fl in ef.facts_for_switch(sb).items():
                for f in fl:
                    if f[0] == "variant" and "Err" in f[3] and "Ok" not in f[3]:
                        err_tgt = tgt
    if err_tgt is None:
        rep.bad("C12.SETSRC", key, tn.where(pb), "anchor-missing: Err edge of parser.parse()")
        return
    reach = tn.reach_from(err_tgt, removed_blocks=frozenset(sets))
    leaks = [x for x in reach if tn.term(x)["k"] == "return"]
    # the set_source arguments are Template::new's own (tpl_name, source)
    tr = Tracer(tn)
    args_ok = True
    for bb, t in find_calls(tn, ["errors::ReportError::set_source"]):
        a1, a2 = tr.operand(t["args"][1]), tr.operand(t["args"][2])
        args_ok = args_ok and all(l.kind == "param" and l.detail == 1 for l in a1) and all(l.kind == "param" and l.detail == 2 for l in a2)
    ok = not leaks and args_ok
    (rep.ok if ok else rep.bad)("C12.SETSRC", key, tn.where(err_tgt), "every return reachable from the Err edge of parse() passes set_source(tpl_name, source) "
                                "(any other error kind hits the unreachable! discharged by C06.ERRKIND)" + ("" if ok else " — VIOLATED: a syntax error can leave without "
                                                                                                          "its source (Display would slice an empty source)"))


def check_note(crate, rep, cfg):
    """every call of add_note records a note (errors raised inside includes/components name EACH call site), and the note carries
    the file name, source and span it was given"""
    b = crate.one("errors::ReportError::add_note")
    rep.analysed(b)
    tr = Tracer(b, transparent=T | {"std::string::ToString::to_string", "std::clone::Clone::clone"})
    import rrec
    pushes = {bb for bb, t in find_calls(b, ["std::vec::Vec::<T, A>::push"]) if rrec.field_of_arg(tr, t["args"][0]) == ".notes"}
    reach = b.reach_from(0, removed_blocks=frozenset(pushes))
    leaks = [x for x in reach if b.term(x)["k"] == "return"]
    ok = bool(pushes) and not leaks
    (rep.ok if ok else rep.bad)("C12.NOTE", "C12.NOTE:add_note:always-records", b.where(0), "every path through ReportError::add_note pushes a note (no call site is silently dropped)"
                                + ("" if ok else " — VIOLATED: a return is reachable without recording the note"))
    aggs = list(find_aggs(b, "errors::Note", "Note"))
    ok = len(aggs) == 1
    if ok:
        rv = aggs[0][2]["rv"]
        want = {"label": 2, "filename": 3, "source": 4, "span": 5}
        for f, pi in want.items():
            leaves = tr.operand(rv["ops"][rv["fields"].index(f)])
            if not (leaves and all(l.kind == "param" and l.detail == pi for l in leaves)):
                ok = False
    rep.add("C12.NOTE", "C12.NOTE:add_note:fields", ok, b.where(0), "the recorded note carries the label, file name, source and span passed by the caller" + ("" if ok else " — VIOLATED"))
    # the VM adds a note for an error coming out of an include and out of each component expansion
    vm = crate.one("vm::interpreter::VirtualMachine::<'tera>::interpret")
    n = len(list(find_calls(vm, ["errors::ReportError::add_note"])))
    rep.floor("C12.NOTE", "add_note call sites in the VM (include + component expansions) [%s]" % cfg, n, 3)
    # ... on EVERY route: an error coming out of render_include / render_component leaves interpret only through the place that decides
    # about the note (the `ErrorKind::RenderingError` test in front of add_note) — no `?` directly on the nested render
    ef = EdgeFacts(vm, crate)
    heads = {bb for bb, t in find_calls(vm, ["parsing::instructions::Chunk::get"])}
    notes = {bb for bb, t in find_calls(vm, ["errors::ReportError::add_note"])}
    kblocks = set()
    for sb in sorted(vm.reachable):
        if vm.term(sb)["k"] != "switch":
            continue
        for tgt, fl in ef.facts_for_switch(sb).items():
            for f in fl:
                if f[0] == "variant" and f[1] == "errors::ErrorKind" and f[4] and set(f[3]) == {"RenderingError"} and \
                        any(nb in vm.reach_from(tgt, removed_blocks=frozenset(heads)) for nb in notes):
                    kblocks.add(sb)
    k = 0
    for bb, t in vm.calls():
        cd = callee_def(t)
        if not (cd.endswith("::render_include") or cd.endswith("::render_component")):
            continue
        reach = vm.reach_from(bb, removed_blocks=frozenset((heads | kblocks) - {bb}))
        leaks = sorted(x for x in reach if vm.term(x)["k"] == "return")
        ok = bool(kblocks) and not leaks
        rep.add("C12.NOTE", "C12.NOTE:vm:%s#%d:error-exit-through-note-site" % (cd.rsplit("::", 1)[-1], k), ok, vm.where(bb), "an error of the nested render leaves interpret only "
                "through the RenderingError test that adds the `called from` note (whatever capture the call sits in)" + ("" if ok else " — VIOLATED: return at %s is reachable "
                                                                                                                         "without it" % (vm.where(leaks[0]) if leaks else "?")))
        k += 1
    rep.floor("C12.NOTE", "nested renders whose error exit is checked [%s]" % cfg, k, 4)


def check_pos(crate, rep, cfg):
    """C12.POS — the tokenizer's three position counters move in lock-step: one char at a time, bytes by that char's UTF-8 length,
    column by one (or line by one and column back to zero on a newline); spans are built from one simultaneous reading of the three."""
    from engine import pl_projs, pl_str
    b = crate.one("parsing::lexer::basic_tokenize::{closure#0}")
    rep.analysed(b)
    ups = {u["n"]: pl_str(u["pl"]) for u in b.j.get("upvars", [])}
    need = ("current_line", "current_col", "current_byte")
    if not all(n in ups for n in need):
        # the counters are recognised by what they feed: Span.{end_line,end_col,range.end}; fall back to that when they are renamed
        ups = counters_by_use(crate, b)
        if ups is None:
            rep.anchor_missing("C12.POS", "position counters of basic_tokenize (captured line / column / byte offset)")
            return
    line_pl, col_pl, byte_pl = (ups[n] for n in need)
    loops = b.loops()

    def loop_of(bb):
        c = [L for L in loops if bb in L]
        return min(c, key=len) if c else None

    def char_loop(L):
        """the loop walks a `Chars` iterator (and nothing else)"""
        nx = [t for bb, t in b.calls(sorted(L)) if callee_def(t).endswith("Iterator::next")]
        return bool(nx) and all("std::str::Chars<" in (t["atys"][0] if t["atys"] else "") for t in nx)
    tr = Tracer(b)
    writes = {"line": [], "col": [], "byte": []}
    for bb, idx, st in b.stmts():
        if idx != "t" and st.get("k") == "assign":
            ps = pl_str(st["pl"])
            for k, pl in (("line", line_pl), ("col", col_pl), ("byte", byte_pl)):
                if ps == pl:
                    writes[k].append((bb, idx, st["rv"]))
    rep.floor("C12.POS", "writes of the tokenizer's column counter [%s]" % cfg, len(writes["col"]), 40)
    rep.floor("C12.POS", "writes of the tokenizer's byte counter [%s]" % cfg, len(writes["byte"]), 20)
    bad = []
    for k in ("line", "col", "byte"):
        for bb, idx, rv in writes[k]:
            L = loop_of(bb)
            if L is None or not char_loop(L):
                bad.append("%s counter written outside a per-char loop at %s" % (k, b.where(bb, idx)))
                continue
            if rv["k"] == "use" and rv["op"]["k"] == "const":
                if not (k == "col" and str(rv["op"].get("v")) == "0"):
                    bad.append("%s counter set to a constant at %s" % (k, b.where(bb, idx)))
                elif not any(b2 == bb for b2, _, _ in writes["line"]):
                    bad.append("column reset without a line increment at %s" % b.where(bb, idx))
                continue
            leaves = tr._rv(rv, (), set(), 0, bb, idx)
            adds = [l for l in leaves if l.kind == "op" and l.detail[1] in ("Add", "AddWithOverflow")]
            if not adds or len(adds) != len([l for l in leaves if l.kind != "cycle"]):
                bad.append("%s counter not advanced by an addition at %s" % (k, b.where(bb, idx)))
                continue
            # the addend: 1 for line/column, len_utf8(c) for the byte offset
            for l in adds:
                sb2, si2 = l.detail[2], l.detail[3]
                arv = b.blocks[sb2]["s"][si2]["rv"]
                r = arv["r"]
                if k in ("line", "col"):
                    if not (r["k"] == "const" and str(r.get("v")) == "1"):
                        bad.append("%s counter advanced by something other than 1 at %s" % (k, b.where(bb, idx)))
                else:
                    rl = tr.operand(r)
                    if not (rl and all(leaf_call_is(x, "std::char::methods::<impl char>::len_utf8") and x.detail[2] in L for x in rl)):
                        bad.append("byte offset advanced by something other than the current char's len_utf8() at %s" % b.where(bb, idx))
    # per loop: exactly one byte advance that runs on every iteration, and the column either advances or resets on every iteration
    n_loops = 0
    for L in loops:
        if not char_loop(L) or not any(bb in L for bb, _, _ in writes["byte"]):
            continue
        if loop_of(next(bb for bb, _, _ in writes["byte"] if bb in L)) is not L:
            continue
        n_loops += 1
        bw = [bb for bb, _, _ in writes["byte"] if bb in L]
        cw = [bb for bb, _, _ in writes["col"] if bb in L]
        nx = [bb for bb, t in b.calls(sorted(L)) if callee_def(t).endswith("Iterator::next")][0]
        # from the Some edge of next(), the back edge cannot be reached without passing a byte write and a column write
        for what, ws in (("byte offset", bw), ("column", cw)):
            reach = b.reach_from(nx, removed_blocks=frozenset(ws))
            some_t = [tgt for sb, tgt in __import__("rrec").ok_edges_of_call(b, crate, nx)]
            back = any(nx in b.succ[x] and x in L and x != nx and any(x in b.reach_from(t2, removed_blocks=frozenset(ws)) for t2 in some_t) for x in L)
            if back:
                bad.append("a char can be consumed without moving the %s (loop at %s)" % (what, b.where(nx)))
    rep.floor("C12.POS", "per-char advance loops in the tokenizer [%s]" % cfg, n_loops, 20)
    rep.add("C12.POS", "C12.POS:lexer:counters-lockstep", not bad, b.where(0), "line / column / byte offset are only written inside loops over `chars()`: byte += len_utf8(c), and "
            "column += 1 or (line += 1, column = 0), for every char consumed (%d loops, %d/%d/%d writes)" % (n_loops, len(writes["line"]), len(writes["col"]), len(writes["byte"]))
            + ("" if not bad else " — VIOLATED: " + "; ".join(bad[:3])))
    # spans: line/column (start and end) are readings of the line/column counters: every origin of the field is one of that counter's
    # own updates (or its initial captured value)
    origins = {}
    for k, pl in (("line", line_pl), ("col", col_pl)):
        o = set()
        for bb, idx, rv in writes[k]:
            for l in tr._rv(rv, (), set(), 0, bb, idx):
                if l.kind == "op":
                    o.add((l.detail[2], l.detail[3]))
        origins[k] = o

    def reads_counter(op, k, pl):
        ls = tr.operand(op)
        if not ls:
            return False
        for l in ls:
            if l.kind == "cycle":
                continue
            if l.kind == "op" and (l.detail[2], l.detail[3]) in origins[k]:
                continue
            if l.kind == "const" and k == "col" and str(l.detail[1]) == "0":
                continue
            if l.kind == "param" and l.detail == 1 and upvar_of(l.projs) == upvar_of_pl(pl):
                continue
            return False
        return True
    n = 0
    bad = []
    adt = crate.adts["utils::Span"]
    for bb, idx, st in find_aggs(b, "utils::Span"):
        n += 1
        byname = dict(zip([f["n"] for f in adt.fields()], st["rv"]["ops"]))
        for fld, k, pl in (("start_line", "line", line_pl), ("end_line", "line", line_pl), ("start_col", "col", col_pl), ("end_col", "col", col_pl)):
            if not reads_counter(byname[fld], k, pl):
                bad.append("%s of the span built at %s is not a reading of the %s counter" % (fld, b.where(bb, idx), k))
    rep.floor("C12.POS", "Span constructions in the tokenizer [%s]" % cfg, n, 30)
    rep.add("C12.POS", "C12.POS:lexer:span-from-counters", not bad, b.where(0), "every Span built by the tokenizer takes line/column (start and end) from the line/column counters "
            "(%d constructions)" % n + ("" if not bad else " — VIOLATED: " + "; ".join(bad[:3])))


def upvar_of(projs):
    fs = [p for p in projs if p.startswith(".")]
    return fs[0] if fs else None


def upvar_of_pl(pl_string):
    # "_1deref.3" -> ".3"
    i = pl_string.find(".")
    return pl_string[i:] if i >= 0 else None


def counters_by_use(crate, b):
    return None
