"""C05 — components: scope isolated, recursion bounded, one context builder (partial)."""
from engine import (Tracer, EdgeFacts, find_calls, find_aggs, field_accesses, AnchorMissing, leaf_str, leaf_call_is, pl_projs, callee_def)
import rrec
import re
from props import c07

EXPLANATION = (
    "Decides structural clauses of C05 on the MIR: (ISO) a component body can read nothing but its built context — "
    "State.global_context is assigned only by the top-level render, State.include_parent only by render_include, and in both "
    "component entry points (VM `component!` / Tera::render_component_to) the State is created from the Ok value of "
    "ComponentDefinition::build_context with only `filters` assigned afterwards; (REC) the component re-entry is dominated by the "
    "within-limit edge of the depth test, the child VM carries depth+1, and render_include hands the parent's depth on (so cycles "
    "through includes stay bounded); (SAME) both entry points obtain the context from the same builder and mint the result safe; (BIND) the "
    "shape of build_context: a fresh Context that receives only each declared parameter (the provided value on the Some edge of "
    "get_value, type-checked on that value first; the declared default only on the None edge and only when one exists; otherwise Err), the "
    "rest map under the declared rest name, and `body`; undeclared keys go to the rest map exactly when a rest name is declared and are "
    "otherwise recorded and rejected before anything is bound. NOT decided: what type_matches accepts, type inference, priority resolution.")
NOT_DECIDED = "the type relation itself (type_matches / inference of parameter types), priority resolution between fallback prefixes (value-level)"
ASSUMPTIONS = ["thread stack holds MAX_COMPONENT_RECURSION_DEPTH nested interpret frames"]


def run(ctx, rep):
    for cfg in ctx.tera_configs():
        crate = ctx.crate(cfg)
        check_iso(crate, rep, cfg)
        check_rec(crate, rep, cfg)
        check_same(crate, rep, cfg)
        check_child_vm(crate, rep, cfg)
        check_priority(crate, rep, cfg)
        check_types(crate, rep, cfg)
        check_bind(crate, rep, cfg)
        check_getter(crate, rep, cfg)


WRITERS = {
    "global_context": {"vm::interpreter::VirtualMachine::<'tera>::render_to"},
    "include_parent": {"vm::interpreter::VirtualMachine::<'tera>::render_include"},
}


def check_iso(crate, rep, cfg):
    n = 0
    for f, allowed in WRITERS.items():
        for a in field_accesses(crate, "vm::state::State", f):
            if a["kind"] in ("read",):
                continue
            if a["kind"] == "call" and not a["mut"]:
                continue
            b = a["body"]
            n += 1
            root = crate.root_of(b).path
            key = "C05.ISO:writer:%s:%s" % (f, root)
            what = "State.%s is written only by %s (and initialised to None in State::new)" % (f, sorted(x.rsplit("::", 1)[-1] for x in allowed))
            ok = root in allowed or (a["kind"] == "agg-init" and root.endswith("State::<'t>::new") and is_none(b, a.get("op")))
            (rep.ok if ok else rep.bad)("C05.ISO", key, b.where(a["bb"], a["idx"]), what if ok else what + " — VIOLATED: %s in %s gives a component "
                                        "(or include) access to a scope it must not see" % (a["kind"], root))
    rep.floor("C05.ISO", "writers of State.{global_context,include_parent} [%s]" % cfg, n, 4)
    # component entry points: state built from build_context's Ok value, then only `filters` assigned
    for path in ("vm::interpreter::VirtualMachine::<'tera>::render_component", "tera::Tera::render_component_to"):
        b = crate.one(path)
        rep.analysed(b)
        news = list(find_calls(b, ["vm::state::State::<'t>::new_with_chunk"]))
        key = "C05.ISO:%s:state-from-built-context" % path.rsplit("::", 1)[-1]
        what = "%s creates its State from the context returned by build_context" % path.rsplit("::", 1)[-1]
        if len(news) != 1:
            rep.bad("C05.ISO", key, b.where(0), what + " — anchor-missing: %d State::new_with_chunk calls" % len(news))
            continue
        bb, t = news[0]
        tr = Tracer(b, transparent=None)
        leaves = tr.operand(t["args"][0])
        if path.endswith("render_component"):
            # the context is the `context: Context` parameter, built by the caller (checked below at the call sites)
            ok = bool(leaves) and all(l.kind == "param" and l.detail == 3 for l in leaves)
        else:
            ok = bool(leaves) and all(l.kind == "call" and (leaf_call_is(l, "parsing::ast::ComponentDefinition::build_context") or
                                      leaf_call_is(l, "std::result::Result::<T, E>::map_err")) for l in leaves)
        (rep.ok if ok else rep.bad)("C05.ISO", key, b.where(bb), what if ok else what + " — VIOLATED: origin %s" % sorted(leaf_str(l) for l in leaves)[:3])
        # fields of the state assigned afterwards
        state_local = t["dest"]["l"]
        assigned = set()
        for b2, idx, s in b.stmts():
            if idx != "t" and s["k"] == "assign" and s["pl"]["l"] == state_local and s["pl"]["p"]:
                assigned.add(pl_projs(s["pl"])[0])
        key = "C05.ISO:%s:state-fields-assigned" % path.rsplit("::", 1)[-1]
        extra = assigned - {".filters"}
        what = "after creation only State.filters is assigned in %s" % path.rsplit("::", 1)[-1]
        (rep.ok if not extra else rep.bad)("C05.ISO", key, b.where(bb), what if not extra else what + " — VIOLATED: also %s" % sorted(extra))
    # VM call sites of render_component pass the Ok value of build_context
    interp = crate.one("vm::interpreter::VirtualMachine::<'tera>::interpret")
    tr = Tracer(interp)
    sites = list(find_calls(interp, ["vm::interpreter::VirtualMachine::<'tera>::render_component"]))
    rep.floor("C05.ISO", "VM call sites of render_component [%s]" % cfg, len(sites), 2)
    for n_, (bb, t) in enumerate(sites):
        leaves = tr.operand(t["args"][2])
        ok = bool(leaves) and all(l.kind == "call" and leaf_call_is(l, "parsing::ast::ComponentDefinition::build_context") and "as:Ok" in l.projs for l in leaves)
        key = "C05.ISO:interpret:render_component#%d:context" % n_
        what = "the context handed to render_component is the Ok value of build_context"
        (rep.ok if ok else rep.bad)("C05.ISO", key, interp.where(bb), what if ok else what + " — VIOLATED: origin %s" % sorted(leaf_str(l) for l in leaves)[:3])


def is_none(body, op):
    """operand is the constant None (an `Option::None {}` aggregate)"""
    if op is None:
        return False
    leaves = Tracer(body).operand(op)
    return bool(leaves) and all(l.kind == "agg" and l.detail[1] == "std::option::Option" and l.detail[2] == "None" for l in leaves)


def check_rec(crate, rep, cfg):
    rc = crate.one("vm::interpreter::VirtualMachine::<'tera>::render_component")
    ri = crate.one("vm::interpreter::VirtualMachine::<'tera>::render_include")
    rep.analysed(rc, ri)
    calls = list(find_calls(rc, ["vm::interpreter::VirtualMachine::<'tera>::interpret"]))
    key = "C05.REC:render_component:guard"
    what = "the component re-entry of interpret is dominated by the within-limit edge of `depth > MAX_COMPONENT_RECURSION_DEPTH`"
    if not calls:
        rep.bad("C05.REC", key, rc.where(0), what + " — anchor-missing")
        return
    g = rrec.find_guard(rc, calls[0][0], crate)
    (rep.ok if g else rep.bad)("C05.REC", key, rc.where(calls[0][0]), (what + " [limit %s]" % g["limit"]) if g else what + " — VIOLATED")
    # child VM carries the incremented depth
    for b, label in ((rc, "render_component"), (ri, "render_include")):
        tr = Tracer(b)
        aggs = list(find_aggs(b, "vm::interpreter::VirtualMachine", "VirtualMachine"))
        key = "C05.REC:%s:child-depth" % label
        if len(aggs) != 1:
            rep.bad("C05.REC", key, b.where(0), "anchor-missing: child VM construction in %s (%d)" % (label, len(aggs)))
            continue
        bb, idx, s = aggs[0]
        rv = s["rv"]
        op = rv["ops"][rv["fields"].index("component_recursion_depth")]
        leaves = tr.operand(op)
        if label == "render_component":
            ok = bool(leaves) and all(l.kind == "op" and l.detail[1] in ("Add", "AddWithOverflow") for l in leaves)
            for l in leaves:
                if l.kind == "op":
                    d_ = b.blocks[l.detail[2]]["s"][l.detail[3]]["rv"]
                    ok = ok and d_["r"]["k"] == "const" and str(d_["r"].get("v")) == "1"       # every nesting level counts, unconditionally
            what = "the child VM of render_component carries depth = parent depth + 1"
        else:
            ok = bool(leaves) and all(l.kind == "param" and l.detail == 1 and ".component_recursion_depth" in l.projs for l in leaves)
            what = "the child VM of render_include carries the parent's component depth (not a constant), so component cycles through includes stay bounded"
        (rep.ok if ok else rep.bad)("C05.REC", key, b.where(bb, idx), what if ok else what + " — VIOLATED: origin %s" % sorted(leaf_str(l) for l in leaves)[:3])


def check_same(crate, rep, cfg):
    interp = crate.one("vm::interpreter::VirtualMachine::<'tera>::interpret")
    api = crate.one("tera::Tera::render_component_to")
    n1 = len(list(find_calls(interp, ["parsing::ast::ComponentDefinition::build_context"])))
    n2 = len(list(find_calls(api, ["parsing::ast::ComponentDefinition::build_context"])))
    key = "C05.SAME:one-builder"
    ok = n1 >= 2 and n2 >= 1
    (rep.ok if ok else rep.bad)("C05.SAME", key, api.where(0), "the VM component call (%d sites) and Tera::render_component_to (%d) both obtain the component "
                                "context from ComponentDefinition::build_context" % (n1, n2) + ("" if ok else " — VIOLATED"))
    # lookup precedence: the VM consults the priority-resolved registry Tera.components first (as the API does) and falls back to the
    # rendering template's own definitions only when the name is not registered (one-off templates)
    from engine import TRANSPARENT_CALLS
    bodies = crate.with_closures(interp)
    primary, fallback = [], []
    for b in bodies:
        tr2 = Tracer(b, transparent=set(TRANSPARENT_CALLS))
        for bb, t in b.calls():
            cd = callee_def(t)
            if not (cd.endswith("::get") or cd == "std::ops::Index::index"):
                continue
            leaves = tr2.operand(t["args"][0])
            from props.c07 import resolve_upvars
            leaves = resolve_upvars(crate, b, leaves, set(TRANSPARENT_CALLS))
            for l in leaves:
                if ".components" in l.projs:
                    owner = "tera" if ".tera" in l.projs else ("template" if ".template" in l.projs else "?")
                    (primary if cd.endswith("::get") else fallback).append(owner)
    ok = bool(primary) and set(primary) == {"tera"} and set(fallback) <= {"template"}
    rep.add("C05.SAME", "C05.SAME:lookup-precedence", ok, interp.where(0), "component lookup in the VM: Option-returning get() on Tera.components (priority-resolved at finalize, "
            "what Tera::render_component uses) first, panicking index on Template.components only as fallback — found get on %s, index on %s" % (sorted(set(primary)), sorted(set(fallback)))
            + ("" if ok else " — VIOLATED: a lower-priority local definition can shadow the highest-priority one; API and template call disagree"))
    api_get = [1 for bb, t in api.calls() if callee_def(t).endswith("::get") and any(".components" in l.projs for l in Tracer(api).operand(t["args"][0]))]
    rep.add("C05.SAME", "C05.SAME:api-uses-registry", bool(api_get), api.where(0), "Tera::render_component_to resolves the name in Tera.components" + ("" if api_get else " — VIOLATED"))
    # result minted safe in the VM (inserted in the caller's output without being escaped again)
    tr = Tracer(interp)
    n = 0
    for bb, t in find_calls(interp, ["value::Value::safe_string"]):
        leaves = tr.operand(t["args"][0])
        if leaves and all(l.kind == "call" and leaf_call_is(l, "vm::interpreter::VirtualMachine::<'tera>::render_component") for l in leaves):
            n += 1
    key = "C05.SAME:result-safe"
    (rep.ok if n >= 2 else rep.bad)("C05.SAME", key, interp.where(0), "the rendered component text is pushed as a safe string at %d site(s) (not escaped a second time)" % n
                                    + ("" if n >= 2 else " — VIOLATED (floor 2)"))


KIND_PREDICATES = {"is_string", "is_bool", "is_number", "is_map", "is_array", "is_bytes", "is_none", "is_undefined", "kind"}
TYPE_KINDS = {"Integer": {"I64", "U64", "I128", "U128"}, "Float": {"F64"}}


def check_types(crate, rep, cfg):
    """C05.TYPE — "a value not matching a declared or inferred type is rejected": Type::matches_value decides by the value's KIND alone
    (kind predicates / a test of `kind()`), never through an accessor that converts (`as_f64` also answers for integers, `as_i128` for
    whole floats in some versions); `integer` is exactly the four integer kinds and `float` exactly F64."""
    b = crate.one("parsing::ast::Type::matches_value")
    rep.analysed(b)
    ef = EdgeFacts(b, crate)
    called = sorted({callee_def(t).rsplit("::", 1)[-1] for bb, t in b.calls() if "value::Value" in callee_def(t)})
    conv = [c for c in called if c not in KIND_PREDICATES]
    rep.add("C05.TYPE", "C05.TYPE:matches_value:by-kind-only", not conv and bool(called), b.where(0), "Type::matches_value asks the value only for its kind (%s)" % called
            + ("" if not conv and called else " — VIOLATED: converting accessors %s" % conv))
    # per declared type, the kinds accepted through a `kind()` test
    arms = {}
    for sb in sorted(b.reachable):
        if b.term(sb)["k"] != "switch":
            continue
        for tgt, fl in ef.facts_for_switch(sb).items():
            for f in fl:
                if f[0] == "variant" and f[1].endswith("ast::Type") and f[4] and len(f[3]) == 1 and tgt != sb:
                    arms[next(iter(f[3]))] = {x for x in b.reach_from(tgt) if b.dominates(tgt, x)}
    for ty, want in TYPE_KINDS.items():
        reg = arms.get(ty, set())
        acc = set()
        for sb in sorted(reg):
            if b.term(sb)["k"] != "switch":
                continue
            for tgt, fl in ef.facts_for_switch(sb).items():
                for f in fl:
                    if f[0] == "variant" and f[1].endswith("ValueKind") and f[4]:
                        vals = set()
                        for bb, idx, st in b.stmts(sorted(x for x in b.reach_from(tgt, removed_blocks=frozenset([sb])) if x in reg)):
                            if idx != "t" and st.get("k") == "assign" and st["pl"]["l"] == 0 and not st["pl"]["p"] and st["rv"]["k"] == "use" and st["rv"]["op"]["k"] == "const":
                                vals.add(str(st["rv"]["op"].get("v")))
                        if vals == {"1"}:
                            acc |= set(f[3])
        ok = acc == want
        rep.add("C05.TYPE", "C05.TYPE:matches_value:%s" % ty, ok, b.where(min(reg)) if reg else b.where(0), "type `%s` accepts exactly the kinds %s" % (ty.lower(), sorted(want))
                + ("" if ok else " — VIOLATED: accepts %s" % (sorted(acc) or "something not decided by a kind test")))


def check_priority(crate, rep, cfg):
    """C05.PRIO — which definition of a component wins under fallback prefixes is decided in finalize_templates' first loop by a table
    component -> (defining template, its priority). The table must stay a table of PAIRS: it is changed only by inserting a fresh pair
    (this template's name, this template's priority), for a name not seen yet or on the `current < existing` edge of the comparison of
    this template's priority with the stored one; equal priorities are the duplicate error. A slot updated in place (name without
    priority) compares later candidates against a stale number."""
    b = crate.one("tera::Tera::finalize_templates")
    tr = Tracer(b)
    ef = EdgeFacts(b, crate)
    tabs = [i for i, l in enumerate(b.locals) if re.match(r"^[\w:]*HashMap<&str,\(&str,usize\)", l["ty"].replace(" ", "")) and i > b.arg_count]
    if len(tabs) != 1:
        rep.anchor_missing("C05.PRIO", "the component -> (template, priority) table of finalize_templates (%d candidates)" % len(tabs))
        return
    tab = tabs[0]

    def on_table(op):
        ls = [l for l in tr.operand(op) if l.kind != "cycle"]
        return bool(ls) and all((l.kind == "call" and l.detail[0].endswith("HashMap::<K, V>::new")) or (l.kind == "call" and "HashMap" in l.detail[0] and l.detail[0].rsplit("::", 1)[-1] in ("new", "with_capacity", "default"))
                                for l in ls) and any(op["k"] in ("copy", "move") for _ in [0])
    uses = []
    for bb, t in b.calls():
        if not t["args"] or "HashMap" not in callee_def(t):
            continue
        a0 = t["args"][0]
        if a0["k"] not in ("copy", "move"):
            continue
        # the receiver is (a borrow of) the table local
        l0 = a0["pl"]["l"]
        src = {l0}
        for (b3, i3, dp, rv) in b.defs.get(l0, []):
            if rv["k"] == "ref" and not rv["pl"]["p"]:
                src.add(rv["pl"]["l"])
        if tab in src:
            uses.append((bb, t, callee_def(t).rsplit("::", 1)[-1]))
    muts = sorted({m for bb, t, m in uses if m not in ("get", "contains_key", "iter", "len", "is_empty", "keys", "values", "insert")})
    rep.add("C05.PRIO", "C05.PRIO:table:changed-by-insert-only", not muts and bool(uses), b.where(uses[0][0]) if uses else b.where(0), "the table is read (get/iter) and changed only through "
            "insert of a whole (template, priority) pair" + ("" if not muts and uses else " — VIOLATED: also %s" % muts))
    inserts = [(bb, t) for bb, t, m in uses if m == "insert"]
    gets = [(bb, t) for bb, t, m in uses if m == "get"]
    prios = [bb for bb, t in b.calls() if callee_def(t).endswith("Tera::get_template_priority")]
    ok = len(inserts) >= 1 and len(gets) == 1 and len(prios) >= 1
    why = "anchors: %d inserts, %d get, %d get_template_priority" % (len(inserts), len(gets), len(prios))
    if ok:
        some = rrec.ok_edges_of_call(b, crate, gets[0][0])
        for bb, t in inserts:
            v = t["args"][2]
            nm = tr.operand(v, [".0"]) if v["k"] in ("copy", "move") else set()
            pr = tr.operand(v, [".1"]) if v["k"] in ("copy", "move") else set()
            if not (pr and all(l.kind == "call" and l.detail[2] in prios for l in pr)):
                ok, why = False, "the priority stored at %s is not this template's get_template_priority(..)" % b.where(bb)
                continue
            pa = set()
            for l in pr:
                pa |= {(x.kind, x.detail) for x in tr.operand(b.term(l.detail[2])["args"][1]) if x.kind != "cycle"}
            na = {(x.kind, x.detail) for x in nm if x.kind != "cycle"}
            if not (na and na == pa and all(".name" in x.projs for x in nm if x.kind != "cycle")):
                ok, why = False, "the name stored at %s is not the name of the template whose priority is stored" % b.where(bb)
                continue
            under_some = any(b.dominates(tgt, bb) for sb, tgt in some)
            if under_some:
                # override: on the true edge of `current < existing` (or its mirror), current = the priority call, existing = the slot's .1
                good = False
                for sb in sorted(b.reachable):
                    if b.term(sb)["k"] != "switch" or not b.dominates(sb, bb) or sb == bb:
                        continue
                    for tgt, fl in ef.facts_for_switch(sb).items():
                        for f in fl:
                            if f[0] != "cmp" or not b.dominates(tgt, bb) or tgt == sb:
                                continue
                            d = ef.single_def(b.term(sb)["op"]["pl"]["l"])
                            if d is None or d[3]["k"] != "bin":
                                continue
                            ll, rl = tr.operand(d[3]["l"]), tr.operand(d[3]["r"])
                            cur_l = bool(ll) and all(l.kind == "call" and l.detail[2] in prios for l in ll)
                            cur_r = bool(rl) and all(l.kind == "call" and l.detail[2] in prios for l in rl)
                            ex_l = bool(ll) and all(l.kind == "call" and l.detail[2] == gets[0][0] for l in ll)
                            ex_r = bool(rl) and all(l.kind == "call" and l.detail[2] == gets[0][0] for l in rl)
                            op, truth = f[1], f[4]
                            if cur_l and ex_r and ((op == "Lt" and truth is True) or (op == "Ge" and truth is False)):
                                good = True
                            if ex_l and cur_r and ((op == "Gt" and truth is True) or (op == "Le" and truth is False)):
                                good = True
                        for f in fl:
                            # `match current.cmp(&existing) { Less => insert .. }`
                            if f[0] == "variant" and f[1] == "std::cmp::Ordering" and f[4] and set(f[3]) == {"Less"} and b.dominates(tgt, bb) and tgt != sb:
                                d = ef.single_def(b.term(sb)["op"]["pl"]["l"])
                                src = tr.place(d[3]["pl"]) if d and d[3]["k"] == "discr" else set()
                                for l in src:
                                    if l.kind == "call" and l.detail[0].endswith("::cmp"):
                                        ct = b.term(l.detail[2])
                                        a, c = tr.operand(ct["args"][0]), tr.operand(ct["args"][1])
                                        if a and c and all(x.kind == "call" and x.detail[2] in prios for x in a) and all(x.kind == "call" and x.detail[2] == gets[0][0] for x in c):
                                            good = True
                if not good:
                    ok, why = False, "the overriding insert at %s is not on the `this priority < stored priority` edge" % b.where(bb)
    rep.add("C05.PRIO", "C05.PRIO:table:pairs-of-one-template", ok, b.where(inserts[0][0]) if inserts else b.where(0), "every insert stores (tpl.name, get_template_priority(tpl.name)) of "
            "one template; an existing slot is replaced only when this template's priority is strictly lower (= higher precedence) than the stored one"
            + ("" if ok else " — VIOLATED: " + why))


def check_child_vm(crate, rep, cfg):
    """C05.SAME — the VM a component body runs in is the caller's VM one level deeper: same Tera, same template, same API-level escaping
    override (otherwise a component called under render(.., autoescape=..)/render_str escapes differently from its caller, and a call from a
    template no longer renders what the API renders)."""
    b = crate.one("vm::interpreter::VirtualMachine::<'tera>::render_component")
    tr = Tracer(b)
    aggs = list(find_aggs(b, "vm::interpreter::VirtualMachine", "VirtualMachine"))
    FIELDS = ("tera", "template", "autoescape_override", "include_depth")
    if len(aggs) != 1:
        for f in FIELDS:
            rep.bad("C05.SAME", "C05.SAME:render_component:child-vm-inherits:%s" % f, b.where(0), "the component's VM takes `%s` from the calling VM — VIOLATED: "
                    "%d constructions of the child VirtualMachine found in render_component" % (f, len(aggs)))
        return
    bb, idx, st = aggs[0]
    rv = st["rv"]
    for f in FIELDS:
        leaves = tr.operand(rv["ops"][rv["fields"].index(f)])
        ok = bool(leaves)
        for l in leaves:
            if l.kind == "param" and l.detail == 1 and "." + f in l.projs:
                continue
            # `..Self::new(self.tera, self.template)` style: the constructor argument that becomes this field is the parent's
            if f in ("tera", "template") and l.kind == "call" and l.detail[0].endswith("VirtualMachine::<'tera>::new") and "." + f in l.projs:
                al = tr.operand(b.term(l.detail[2])["args"][("tera", "template").index(f)])
                if al and all(x.kind == "param" and x.detail == 1 and "." + f in x.projs for x in al):
                    continue
            ok = False
        rep.add("C05.SAME", "C05.SAME:render_component:child-vm-inherits:%s" % f, ok, b.where(bb, idx), "the component's VM takes `%s` from the calling VM" % f
                + ("" if ok else " — VIOLATED: origin %s" % sorted(leaf_str(l) for l in leaves)[:2]))


def check_bind(crate, rep, cfg):
    """C05.BIND — the shape of ComponentDefinition::build_context: what gets into the component's context, under which edge."""
    import rrec
    from engine import EdgeFacts
    from props.c03 import through, last_field
    b = crate.one("parsing::ast::ComponentDefinition::build_context")
    rep.analysed(b)
    tr = Tracer(b)
    ef = EdgeFacts(b, crate)
    news = [bb for bb, t in b.calls() if callee_def(t).endswith("context::Context::new")]
    inserts = [(bb, t) for bb, t in b.calls() if callee_def(t).endswith("context::Context::insert_value") or callee_def(t).endswith("context::Context::insert")]
    getv = [(bb, t) for bb, t in b.calls() if callee_def(t) == "std::ops::Fn::call" and all(l.kind == "param" and l.detail == 3 for l in tr.operand(t["args"][0]))]
    oks = [(bb, idx, st) for bb, idx, st in find_aggs(b, "std::result::Result", "Ok")]
    # 1. a fresh context, returned as built
    ok = len(news) == 1 and len(oks) == 1
    if ok:
        ls = tr.operand(oks[0][2]["rv"]["ops"][0])
        ok = bool(ls) and all(l.kind == "call" and l.detail[2] == news[0] for l in ls)
        for bb, t in inserts:
            rl = tr.operand(t["args"][0])
            ok = ok and bool(rl) and all(l.kind == "call" and l.detail[2] == news[0] for l in rl)
    rep.add("C05.BIND", "C05.BIND:fresh-context", ok, b.where(news[0]) if news else b.where(0), "build_context returns the Context it created with Context::new(), and every insert goes "
            "into that context (nothing of the caller's is copied in)" + ("" if ok else " — VIOLATED"))

    def some_edges(call_bb):
        return rrec.ok_edges_of_call(b, crate, call_bb)

    def field_some_edge(field):
        """targets of switch edges on which self.<field> (an Option) is Some"""
        out = []
        for sb in sorted(b.reachable):
            if b.term(sb)["k"] != "switch":
                continue
            st_ = b.term(sb)
            d_ = ef.single_def(st_["op"]["pl"]["l"]) if st_["op"]["k"] != "const" and not st_["op"]["pl"]["p"] else None
            on_field = bool(d_) and d_[3]["k"] == "discr" and any(("." + field) in l.projs for l in tr.place(d_[3]["pl"]))
            for tgt, fl in ef.facts_for_switch(sb).items():
                for f in fl:
                    if f[0] == "variant" and f[1] == "std::option::Option" and f[3] == frozenset({"Some"}) and f[4] and (field in f[2] or on_field):
                        out.append((sb, tgt))
                    if f[0] == "call" and ((f[1].endswith("::is_some") and f[3] is True) or (f[1].endswith("::is_none") and f[3] is False)):
                        ct = b.term(f[4])
                        if any(last_field(l.projs) == "." + field for l in tr.operand(ct["args"][0])):
                            out.append((sb, tgt))
        return out
    # classify the inserts by their key
    kinds = {}
    for bb, t in inserts:
        kl = tr.operand(t["args"][1])
        k = None
        if t["args"][1]["k"] == "const" and t["args"][1].get("s") == "body" or any(l.kind == "const" and l.detail[1] == "body" for l in kl):
            k = "body"
        elif kl and all(l.kind == "param" and l.detail == 1 and ".rest_param_name" in l.projs for l in kl):
            k = "rest"
        elif kl and all(l.kind == "call" and l.detail[0].endswith("Iterator::next") for l in kl):
            k = "declared"
        kinds.setdefault(k, []).append((bb, t))
    extra = kinds.get(None, [])
    ok = not extra and len(kinds.get("declared", [])) == 2 and len(kinds.get("rest", [])) == 1 and len(kinds.get("body", [])) == 1
    rep.add("C05.BIND", "C05.BIND:only-declared-rest-body", ok, b.where(extra[0][0]) if extra else b.where(0), "the context receives only: each declared parameter (provided value / "
            "default), the rest map under the declared rest name, and `body` — %s" % {str(k): len(v) for k, v in kinds.items()} + ("" if ok else " — VIOLATED"))
    if not ok or len(getv) != 2:
        if len(getv) != 2:
            rep.anchor_missing("C05.BIND", "the two get_value(key) calls of build_context (found %d)" % len(getv))
        return
    # the get_value call of the second loop is the one whose key comes from the kwargs iteration that also feeds the declared inserts
    dec = kinds["declared"]
    gv2 = [x for x in getv if any(b.dominates(x[0], d[0]) for d in dec)]
    gv1 = [x for x in getv if x not in gv2]
    ok = len(gv2) == 1 and len(gv1) == 1
    if not ok:
        rep.anchor_missing("C05.BIND", "get_value call dominating the declared-parameter inserts")
        return
    g2 = gv2[0][0]
    se = some_edges(g2)
    prov = [d for d in dec if any(b.dominates(tgt, d[0]) for sb, tgt in se)]
    dflt = [d for d in dec if d not in prov]
    # 2. provided value wins, and is the value get_value returned
    ok = len(prov) == 1 and len(dflt) == 1
    if ok:
        vl = tr.operand(prov[0][1]["args"][2])
        ok = bool(vl) and all(l.kind == "call" and l.detail[2] == g2 for l in vl)
    rep.add("C05.BIND", "C05.BIND:provided-value-bound", ok, b.where(prov[0][0]) if prov else b.where(0), "on the Some edge of get_value(key) the declared parameter is bound to that "
            "very value" + ("" if ok else " — VIOLATED"))
    # 3. type check before binding a provided value, on the same value, mismatch -> Err
    tm = [(bb, t) for bb, t in b.calls() if callee_def(t).endswith("ComponentArgument::type_matches")]
    ok = len(tm) == 1 and bool(prov)
    if ok:
        tb = tm[0][0]
        ok = any(b.dominates(tgt, tb) for sb, tgt in se)
        vl = tr.operand(tm[0][1]["args"][1])
        ok = ok and bool(vl) and all(l.kind == "call" and l.detail[2] == g2 for l in vl)
        true_t = [tgt for sb in sorted(b.reachable) if b.term(sb)["k"] == "switch" for tgt, fl in ef.facts_for_switch(sb).items() for f in fl
                  if f[0] == "call" and f[4] == tb and f[3] is True]
        false_t = [tgt for sb in sorted(b.reachable) if b.term(sb)["k"] == "switch" for tgt, fl in ef.facts_for_switch(sb).items() for f in fl
                   if f[0] == "call" and f[4] == tb and f[3] is False]
        ok = ok and any(b.dominates(tt, prov[0][0]) for tt in true_t)
        # the mismatch edge cannot reach any insert nor the Ok
        for ft in false_t:
            r = b.reach_from(ft)
            if any(x[0] in r for x in inserts) or oks[0][0] in r:
                ok = False
    tm2 = [(bb, t) for bb, t in b.calls() if callee_def(t).endswith("ast::Type::matches_value")]
    if not tm and len(tm2) == 1 and prov:
        # the same test spelled out: `if let Some(expected) = arg_def.typ && !expected.matches_value(&value) { return Err }` — an argument
        # without a declared type accepts anything (that is what ComponentArgument::type_matches answers too)
        tm = tm2
        tb = tm[0][0]
        ok = any(b.dominates(tgt, tb) for sb, tgt in se)
        vl = tr.operand(tm[0][1]["args"][1])
        ok = ok and bool(vl) and all(l.kind == "call" and l.detail[2] == g2 for l in vl)
        el = tr.operand(tm[0][1]["args"][0])
        ok = ok and bool(el) and all(".typ" in l.projs for l in el)
        false_t = [tgt for sb in sorted(b.reachable) if b.term(sb)["k"] == "switch" for tgt, fl in ef.facts_for_switch(sb).items() for f in fl
                   if f[0] == "call" and f[4] == tb and f[3] is False]
        ok = ok and bool(false_t)
        for ft in false_t:
            r = b.reach_from(ft)
            if any(x[0] in r for x in inserts) or oks[0][0] in r:
                ok = False
        # untyped: the None edge of the `typ` test; every path from "a value was provided" to the binding goes through the check or that edge
        none_t = set()
        for sb, tgt in field_some_edge("typ"):
            none_t |= {x for x in b.succ[sb] if x != tgt and b.term(x)["k"] != "unreachable"}
        for sb, tgt in se:
            if prov[0][0] in b.reach_from(tgt, removed_blocks=frozenset({tb} | none_t)):
                ok = False
    rep.add("C05.BIND", "C05.BIND:type-checked-before-bound", ok, b.where(tm[0][0]) if tm else b.where(0), "a provided value is bound only on the true edge of "
            "`arg_def.type_matches(&value)` evaluated on that value; the mismatch edge ends in Err" + ("" if ok else " — VIOLATED"))
    # 4. default only when nothing was provided; no default -> Err
    ok = bool(dflt)
    if ok:
        d = dflt[0]
        none_ok = not any(b.dominates(tgt, d[0]) for sb, tgt in se) and b.dominates(g2, d[0])
        vl = tr.operand(d[1]["args"][2])
        from_default = bool(vl) and all(".default" in l.projs for l in vl)
        ds = field_some_edge("default")
        under_some = any(b.dominates(tgt, d[0]) for sb, tgt in ds)
        ok = none_ok and from_default and under_some
        # the edge "nothing provided and no default" reaches neither an insert of this loop iteration's key nor Ok without an Err aggregate: it returns Err
        errs = {bb for bb, idx, st in find_aggs(b, "std::result::Result", "Err")}
        for sb, tgt in ds:
            others = [x for x in b.succ[sb] if x != tgt]
            for o in others:
                r = b.reach_from(o, removed_blocks=frozenset(errs))
                if oks[0][0] in r or any(x[0] in r for x in inserts):
                    ok = False
    rep.add("C05.BIND", "C05.BIND:default-only-when-missing", ok, b.where(dflt[0][0]) if dflt else b.where(0), "the declared default is bound only on the None edge of get_value(key), "
            "only when a default exists, and a missing argument without default can only end in Err" + ("" if ok else " — VIOLATED"))
    # 5. undeclared keys: collected into the rest map when a rest name is declared, else remembered and rejected before anything is bound
    ck = [(bb, t) for bb, t in b.calls() if callee_def(t).endswith("::contains_key") and any(".kwargs" in l.projs for l in tr.operand(t["args"][0]))]
    rest_ins = [(bb, t) for bb, t in b.calls() if callee_def(t).endswith("::insert") and "context::Context" not in callee_def(t)
                and any("Key" in a for a in t["atys"][1:2])]
    unk_ins = [(bb, t) for bb, t in b.calls() if callee_def(t).endswith("HashSet::<T, S, A>::insert")]
    ok = len(ck) == 1 and len(rest_ins) == 1 and len(unk_ins) == 1
    if ok:
        cb = ck[0][0]
        f_t = [tgt for sb in sorted(b.reachable) if b.term(sb)["k"] == "switch" for tgt, fl in ef.facts_for_switch(sb).items() for f in fl
               if f[0] == "call" and f[4] == cb and f[3] is False]
        ok = bool(f_t) and all(any(b.dominates(ft, x[0]) for ft in f_t) for x in (rest_ins[0], unk_ins[0]))
        rs = field_some_edge("rest_param_name")
        ok = ok and any(b.dominates(tgt, rest_ins[0][0]) for sb, tgt in rs) and not any(b.dominates(tgt, unk_ins[0][0]) for sb, tgt in rs)
        # the value collected is get_value(key) of the first loop
        vl = tr.operand(rest_ins[0][1]["args"][2])
        ok = ok and bool(vl) and all(l.kind == "call" and l.detail[2] == gv1[0][0] for l in vl)
        # the map bound under the rest name is the one collected into
        rl = {(l.kind, l.detail) for l in tr.operand(rest_ins[0][1]["args"][0])}
        bl = {(l.kind, l.detail) for l in through(tr, tr.operand(kinds["rest"][0][1]["args"][2]))}
        ok = ok and bool(rl) and rl <= bl | rl and bool(bl & rl)
    rep.add("C05.BIND", "C05.BIND:undeclared-to-rest-or-remembered", ok, b.where(ck[0][0]) if ck else b.where(0), "a provided key that is not declared is inserted into the rest map "
            "(with its value) exactly when a rest name is declared, and otherwise recorded as unknown; the rest map bound at the end is that map" + ("" if ok else " — VIOLATED"))
    ie = [(bb, t) for bb, t in b.calls() if callee_def(t).endswith("HashSet::<T, S, A>::is_empty")]
    ok = len(ie) == 1
    if ok:
        # on the edge "unknown keys not empty" neither an insert into the context nor the Ok is reachable; and that test dominates the second loop
        ne = [tgt for sb in sorted(b.reachable) if b.term(sb)["k"] == "switch" for tgt, fl in ef.facts_for_switch(sb).items() for f in fl
              if f[0] == "call" and f[4] == ie[0][0] and f[3] is False]
        ok = bool(ne) and b.dominates(ie[0][0], g2)
        for t0 in ne:
            r = b.reach_from(t0)
            if oks[0][0] in r or any(x[0] in r for x in inserts):
                ok = False
    rep.add("C05.BIND", "C05.BIND:unknown-rejected", ok, b.where(ie[0][0]) if ie else b.where(0), "when undeclared arguments were recorded the function can only return Err, and that "
            "test comes before any parameter is bound" + ("" if ok else " — VIOLATED"))
    # 6. rest / body under their Some edges
    rs = field_some_edge("rest_param_name")
    ok = any(b.dominates(tgt, kinds["rest"][0][0]) for sb, tgt in rs)
    bodyp = [sb_t for sb_t in [(sb, tgt) for sb in sorted(b.reachable) if b.term(sb)["k"] == "switch" for tgt, fl in ef.facts_for_switch(sb).items() for f in fl
                               if f[0] == "variant" and f[1] == "std::option::Option" and f[3] == frozenset({"Some"}) and f[4] and f[2].startswith("_4")]]
    ok = ok and any(b.dominates(tgt, kinds["body"][0][0]) for sb, tgt in bodyp)
    vl = tr.operand(kinds["body"][0][1]["args"][2])
    ok = ok and bool(vl) and all(l.kind == "param" and l.detail == 4 for l in vl)
    rep.add("C05.BIND", "C05.BIND:rest-and-body-when-present", ok, b.where(kinds["rest"][0][0]), "the rest map is bound only when a rest name is declared; `body` is bound only when a "
            "body was passed and is that body" + ("" if ok else " — VIOLATED"))


def check_getter(crate, rep, cfg):
    """C05.BIND (caller side) — build_context assumes that every key it is given has a value (`unreachable!` otherwise) and decides
    provided/missing on get_value alone: at both call sites the getter is the plain `map.get(key).cloned()` of the very map whose keys are
    handed over — no filtering between the map and the Option it answers."""
    ALLOWED = ("::get", "::cloned", "::clone", "::as_str", "::as_ref", "::borrow", "::deref", "::into", "::from")
    n = 0
    for b in crate.bodies.values():
        if b.kind == "const":
            continue
        for bb, t in b.calls():
            if not callee_def(t).endswith("ComponentDefinition::build_context"):
                continue
            n += 1
            rep.analysed(b)
            tr = Tracer(b)
            root = crate.root_of(b)
            # the getter closure
            cls = [st["rv"]["def"] for b2, i2, st in b.stmts() if i2 != "t" and st.get("k") == "assign" and st["rv"]["k"] == "agg" and st["rv"].get("ak") == "closure"
                   and any(l.kind == "agg" and l.detail[-2:] == (b2, i2) for l in tr.operand(t["args"][2]))]
            ok = len(cls) == 1 and cls[0] in crate.bodies
            why = "getter closure not found"
            if ok:
                cb = crate.bodies[cls[0]]
                calls = [callee_def(t2) for b2, t2 in cb.calls()]
                bad = [c for c in calls if not c.endswith(ALLOWED)]
                gets = [c for c in calls if c.endswith("::get")]
                ok = not bad and len(gets) == 1 and not any(cb.term(x)["k"] == "switch" for x in cb.reachable)
                why = "the getter does more than `map.get(key).cloned()`: calls %s%s" % (sorted(set(bad))[:3], ", branches" if any(cb.term(x)["k"] == "switch" for x in cb.reachable) else "")
            key = "C05.BIND:getter-is-plain-lookup:%s" % root.path.rsplit("::", 1)[-1]
            rep.add("C05.BIND", key, ok, b.where(bb), "the get_value closure handed to build_context is a plain lookup in the argument map (Some for every key the map has)"
                    + ("" if ok else " — VIOLATED: " + why + " — a key that is listed but answered None hits build_context's `unreachable!` / is treated as missing"))
            # the keys handed over come from `.keys()` of a map
            kl = tr.operand(t["args"][1])
            ok = bool(kl) and all(l.kind == "call" and (l.detail[0].endswith("::keys") or l.detail[0].endswith("Iterator::map") or l.detail[0].endswith("Iterator::filter_map")) for l in kl)
            rep.add("C05.BIND", "C05.BIND:keys-from-the-map:%s" % root.path.rsplit("::", 1)[-1], ok, b.where(bb), "provided_keys is the key iterator of the argument map"
                    + ("" if ok else " — VIOLATED: %s" % sorted(leaf_str(l) for l in kl)[:2]))
    rep.floor("C05.BIND", "build_context call sites [%s]" % cfg, n, 2)
