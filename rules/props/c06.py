"""C06 — registering any source text ends in Ok or Err: no panic, hang or stack overflow."""
import re
from engine import (Tracer, EdgeFacts, find_aggs, find_calls, pl_str, pl_projs, callee_names, callee_def, name_matches,
                    AnchorMissing, leaf_call_is, leaf_str, iter_operands)
import rrec

EXPLANATION = (
    "Decides, on the type-checked MIR of the add path (parsing::*, template, tera, delimiters): (R-REC.parse) every call site "
    "that closes a recursion cycle is dominated by the within-limit edge of a depth counter tested against a constant, or is a "
    "structural recursion with a machine-checked witness (strict descent on the AST; visited-set graph walk); (R-DEPTH.ast) every "
    "loop that nests the expression built so far one level deeper per iteration charges a bounded depth budget on the wrapping path; "
    "(LEXPROG) every path around the tokenizer loop consumes input; (ERRKIND) lexer/parser only raise syntax errors, discharging "
    "Template::new's unreachable!; (DELIM) only validated 2-byte delimiters reach the lexer; (PATCH/JT) every placeholder jump is "
    "patched and every jump target comes from the chunk's own length/indices; (PANIC) the set of panic-capable sites is the reviewed "
    "set. NOT decided: that limit x frame size fits the thread's stack; the reasons behind the reviewed panic-site rows beyond the "
    "guards named; termination of std iterators.")
NOT_DECIDED = "stack sufficiency (limit x frame size); value-level reasons of reviewed panic sites"
ASSUMPTIONS = ["the thread's stack holds MAX_RECURSION_DEPTH + MAX_EXPRESSION_DEPTH + MAX_ELIF_DEPTH nested frames of the parser/compiler",
               "std iterator adaptors (take_while, position, windows, chars) terminate on finite input"]

PARSE_FILES = ("parsing/parser.rs", "parsing/lexer.rs", "parsing/compiler.rs", "parsing/ast.rs", "parsing/instructions.rs",
               "template.rs", "tera.rs", "delimiters.rs")
AST_MARKERS = ("parsing::ast::",)

STRUCTURAL = {
    "template::check_include_cycles::walk->template::check_include_cycles::walk":
        ("include-graph walk over registered templates", "membership"),
    "template::find_parents->template::find_parents":
        ("extends-chain walk over registered templates", "membership"),
    re.compile(r"^parsing::compiler::Compiler::compile_(expr|node|block|kwargs|map_entries)->parsing::compiler::Compiler::compile_(expr|node|block|kwargs|map_entries)$"):
        ("bytecode compiler recursion over the AST, whose depth the parser bounds (R-DEPTH.ast, R-REC.parse guards)", "descent"),
    re.compile(r"^<parsing::ast::\w+ as std::fmt::(Display|Debug)>::fmt-><parsing::ast::\w+ as std::fmt::(Display|Debug)>::fmt$"):
        ("AST pretty-printer recursion over the AST", "descent"),
}


def run(ctx, rep):
    for cfg in ctx.tera_configs():
        crate = ctx.crate(cfg)
        check_rec(crate, rep, cfg)
        check_counter_writers(crate, rep, cfg)
        check_depth_ast(crate, rep, cfg)
        check_lexprog(crate, rep, cfg)
        check_lexoff(crate, rep, cfg)
        check_parseprog(crate, rep, cfg)
        check_errkind(crate, rep, cfg)
        check_delim(crate, rep, cfg)
        check_patch_jt(crate, rep, cfg)
        import rpanic
        rpanic.check(crate, rep, "R-PANIC.parse", ("parsing/lexer.rs", "parsing/parser.rs", "parsing/compiler.rs", "parsing/instructions.rs", "template.rs", "tera.rs", "delimiters.rs"), cfg, 39)
        # finalize_templates builds the error report eagerly (validate_template_references -> generate_report), so the report builder runs
        # on the add path: its panic-capable sites belong to this property as much as to C12
        rpanic.check(crate, rep, "R-PANIC.report", ("errors.rs", "reporting.rs", "utils.rs"), cfg, 4)
    pos = ctx.posctl()
    # positive controls: unguarded self-recursion and an uncharged loop-carried wrap must be flagged
    from engine import Report
    r2 = Report("posctl")
    cg = rrec.CallGraph(pos)
    scope = {pos.root_of(b).path for b in pos.in_files("recctl.rs")}
    rrec.analyse(pos, cg, scope, r2, "R-REC.ctl", {}, "posctl", ("recctl::Tree",))
    fired_rec = any((not i.ok) and "P::unguarded->" in i.key for i in r2.instances) and \
        not any((not i.ok) and "P::guarded" in i.key for i in r2.instances) and \
        any((not i.ok) and "P::leaky_gated->" in i.key for i in r2.instances) and \
        not any((not i.ok) and "P::gated->" in i.key for i in r2.instances)
    wraps = []
    for b in pos.in_files("recctl.rs"):
        wraps += [(b, w) for w in uncharged_wraps(b, pos, ("recctl::Tree",), set())]
    fired_depth = any(b.path.endswith("P::wrap_loop") for b, w in wraps)
    ok1 = ctx.control("R-REC", fired_rec)
    ok2 = ctx.control("R-DEPTH.ast", fired_depth)
    if not (ok1 and ok2):
        raise AnchorMissing("positive control did not fire: R-REC=%s R-DEPTH.ast=%s" % (fired_rec, fired_depth))


def check_rec(crate, rep, cfg):
    cg = rrec.CallGraph(crate)
    scope = {crate.root_of(b).path for b in crate.in_files(*PARSE_FILES)}
    for p in scope:
        rep.analysed(p)
    before = len(rep.instances)
    rrec.analyse(crate, cg, scope, rep, "R-REC.parse", STRUCTURAL, cfg, AST_MARKERS)
    guarded = [i for i in rep.instances[before:] if i.key.endswith(":guarded")]
    rep.floor("R-REC.parse", "guard-dominated recursive call sites on the add path [%s]" % cfg, len(guarded), 5)
    rep.floor("R-REC.parse", "functions in scope [%s]" % cfg, len(scope), 150)


def guard_fields_of(body, crate):
    """fields of self compared against a constant on a switch whose exceeding edge builds an Err (depth-guard shape)"""
    ef = EdgeFacts(body, crate)
    tr = Tracer(body)
    out = set()
    for sb in sorted(body.reachable):
        t = body.term(sb)
        if t["k"] != "switch" or t["op"]["k"] == "const" or t["op"]["pl"]["p"]:
            continue
        d = ef.single_def(t["op"]["pl"]["l"])
        if not (d and d[3]["k"] == "bin" and d[3]["op"] in ("Gt", "Ge", "Lt", "Le")):
            continue
        rv = d[3]
        if (rv["l"]["k"] == "const") == (rv["r"]["k"] == "const"):
            continue
        var = rv["r"] if rv["l"]["k"] == "const" else rv["l"]
        for l in tr.operand(var):
            if l.kind == "param" and l.detail == 1:
                fl = [p for p in l.projs if p.startswith(".")]
                if fl:
                    out.add(fl[-1][1:])
    return out


def check_counter_writers(crate, rep, cfg):
    """A depth counter only bounds recursion if nobody else resets it: every writer of a guard/charge counter field is a
    function that itself tests that counter, or (for a charge counter) a recognised depth-guard function."""
    pbodies = [b for b in crate.in_files("parsing/parser.rs") if b.kind != "closure" and b.kind != "const" and "Parser" in b.path]
    guards = {}
    for b in pbodies:
        for f in guard_fields_of(b, crate):
            guards.setdefault(f, set()).add(b.path)
    counters = {f for f in guards if f.endswith(("_depth", "_dimension", "_brackets")) or f in ("recursion_depth",)}
    guard_fns = set().union(*[guards[f] for f in counters]) if counters else set()
    rep.floor("R-REC.parse", "depth counter fields of the parser [%s]" % cfg, len(counters), 5)
    for f in sorted(counters):
        for a in field_accesses(crate, "parsing::parser::Parser", f):
            if a["kind"] == "read" or (a["kind"] == "call" and not a["mut"]) or a["kind"] == "agg-init":
                continue
            root = crate.root_of(a["body"]).path
            own = root in guards[f]
            # a charge counter (only incremented by a charge function) may be saved/restored by a depth-guard function of another counter
            via_guard = root in guard_fns
            ok = own or via_guard
            key = "R-REC.parse:counter-writer:%s:%s" % (f, root)
            what = "depth counter Parser.%s is written only by the function(s) that test it (%s) or by another depth-guard function" % (
                f, sorted(x.rsplit("::", 1)[-1] for x in guards[f]))
            (rep.ok if ok else rep.bad)("R-REC.parse", key, a["body"].where(a["bb"], a["idx"]), what if ok else what + " — VIOLATED: %s writes/resets it (%s%s): the bound "
                                        "it enforces no longer holds along recursion paths through %s" % (root.rsplit("::", 1)[-1], a["kind"], ":" + a["callee"].rsplit("::", 1)[-1]
                                                                                                       if a.get("callee") else "", root.rsplit("::", 1)[-1]))


def uncharged_wraps(body, crate, markers, charge_fns):
    """wrap sites that lie on a CFG cycle avoiding every charge call"""
    out = []
    for loop, cyc, wraps in rrec.loop_carried_wraps(body, markers):
        charge_blocks = {bb for bb, t in find_calls(body, list(charge_fns))} if charge_fns else set()
        rest = set(loop) - charge_blocks
        # nontrivial SCCs of the loop minus the charge blocks
        comps = [set(c) for c in body.sccs(within=rest) if len(c) > 1 or c[0] in [s for s in body.succ[c[0]] if s in rest]]
        for (bb, i, k) in wraps:
            if any(bb in c for c in comps):
                out.append((bb, i, k))
    return out


def check_depth_ast(crate, rep, cfg):
    charge = {}
    for b in crate.in_files("parsing/parser.rs"):
        if b.kind == "closure":
            continue
        info = rrec.is_charge_fn(b, crate)
        if info:
            charge[b.path] = info
    rep.floor("R-DEPTH.ast", "depth-charge functions (increment a field, Err beyond a constant) [%s]" % cfg, len(charge), 1)
    for p, info in charge.items():
        rep.ok("R-DEPTH.ast", "R-DEPTH.ast:charge-fn:%s" % p, crate.bodies[p].where(0),
               "charge function: increments %s and returns Err beyond %s; never decrements" % (info["fields"], info["limit"]))
        # the counter is only reset by guard functions (mem::take / assignment) — list the writers
    n_loops = 0
    for b in crate.in_files("parsing/parser.rs"):
        lw = rrec.loop_carried_wraps(b, AST_MARKERS)
        if not lw:
            continue
        rep.analysed(b)
        bad = uncharged_wraps(b, crate, AST_MARKERS, set(charge))
        allw = set()
        for loop, cyc, wraps in lw:
            n_loops += 1
            for w in wraps:
                allw.add(w)
        badset = set(bad)
        ordn = 0
        for (bb, i, k) in sorted(allw, key=lambda w: (w[0], str(w[1]))):
            # key by what is wrapped (aggregate variant or callee), not by position
            if k == "agg":
                rv = b.blocks[bb]["s"][i]["rv"]
                sig = "agg:%s::%s" % (rv.get("adt", rv.get("ak")), rv.get("variant", ""))
            else:
                sig = k
            key = "R-DEPTH.ast:%s:%s" % (b.path, sig)
            what = ("loop-carried wrap (each iteration nests the expression built so far one level deeper) is on no loop cycle that "
                    "avoids a depth-charge call")
            if (bb, i, k) in badset:
                rep.bad("R-DEPTH.ast", key, b.where(bb, i), what + " — VIOLATED: a chain of this construct deepens the AST without bound; "
                        "the AST is later walked recursively (compile, drop) => stack overflow at add time")
            else:
                rep.ok("R-DEPTH.ast", key, b.where(bb, i), what)
    rep.floor("R-DEPTH.ast", "loops with a loop-carried AST wrap in the parser [%s]" % cfg, n_loops, 2)


# ----------------------------------------------------------------------------------------------------------------
# C06.LEXPROG / C06.PARSEPROG — every loop makes progress

ITER_NEXT = ["std::iter::Iterator::next"]


def option_exit_calls(body, loop):
    """calls inside `loop` whose Option result is discriminated by a switch in `loop` with an edge leaving the loop.
    Returns list of (call bb, call term, receiver operand)."""
    ef = EdgeFacts(body, body.crate)
    tr = Tracer(body)
    out = []
    for sb in loop:
        t = body.term(sb)
        if t["k"] != "switch" or t["op"]["k"] == "const" or t["op"]["pl"]["p"]:
            continue
        if all(s in loop for s in body.succ[sb]):
            continue
        d = ef.single_def(t["op"]["pl"]["l"])
        if d is None or d[3]["k"] != "discr" or d[3]["adt"] not in ("std::option::Option", "std::ops::ControlFlow"):
            continue
        for l in tr.place(d[3]["pl"]):
            if l.kind == "call" and l.detail[2] in loop and not [p for p in l.projs if not p.startswith("via:")]:
                out.append((l.detail[2], body.term(l.detail[2])))
    return out


def classify_loop(body, loop, progress_blocks=frozenset()):
    """returns (kind, detail) with kind in iterator|strip_prefix|scan|None"""
    tr = Tracer(body)
    exits = option_exit_calls(body, loop)
    for cb, ct in exits:
        names = callee_names(ct)
        if any(name_matches(n, ITER_NEXT) for n in names):
            # the iterator must be created outside the loop
            recv = tr.operand(ct["args"][0])
            created_in = [l for l in recv if l.kind == "call" and l.detail[2] in loop]
            if not created_in:
                return ("iterator", "exit on None of %s over an iterator created outside the loop" % ct["f"].get("inst", callee_def(ct))[:90])
        if any("strip_prefix" in n for n in names):
            # receiver local re-assigned from the Some payload inside the loop
            dest = ct["dest"]["l"]
            recv_locals = {l.detail for l in tr.operand(ct["args"][0]) if l.kind in ("param",)}
            for bb in loop:
                for s in body.blocks[bb]["s"]:
                    if s["k"] == "assign" and not s["pl"]["p"]:
                        src = tr._rv(s["rv"], (), set(), 0, bb, 0) if s["rv"]["k"] in ("use", "ref") else set()
                        if any(l.kind == "call" and l.detail[2] == cb and "as:Some" in l.projs for l in src):
                            return ("strip_prefix", "receiver re-assigned from the Some payload of strip_prefix: strictly shorter each iteration")
        if any(n.endswith("lexer::memstr") for n in names):
            # scan offset strictly increases: offset = offset + (found + 2)
            for bb in loop:
                for s in body.blocks[bb]["s"]:
                    if s["k"] == "assign" and s["rv"]["k"] == "bin" and s["rv"]["op"] in ("AddWithOverflow", "Add"):
                        rv = s["rv"]
                        if rv["r"]["k"] == "const" and rv["r"].get("v") not in (None, "0"):
                            ll = tr.operand(rv["l"])
                            if any(l.kind == "call" and l.detail[2] == cb and "as:Some" in l.projs for l in ll):
                                return ("scan", "offset advances by found + %s each iteration (memstr over a shrinking suffix)" % rv["r"].get("v"))
    return (None, "")


def split_progress_blocks(body, upvar_place):
    """blocks that assign the captured `rest` from the second component of a split_at result"""
    tr = Tracer(body)
    out = set()
    for bb, idx, s in body.stmts():
        if idx == "t" or s["k"] != "assign" or pl_str(s["pl"]) != upvar_place:
            continue
        src = tr._rv(s["rv"], (), set(), 0, bb, idx)
        if src and all(l.kind == "call" and leaf_call_is(l, "core::str::<impl str>::split_at") and ".1" in l.projs for l in src):
            out.add(bb)
    return out


def check_lexprog(crate, rep, cfg):
    n_loops = 0
    for b in crate.in_files("parsing/lexer.rs"):
        loops = b.loops()
        if not loops:
            continue
        rep.analysed(b)
        rest_place = None
        if b.kind == "closure":
            for u in b.j.get("upvars", []):
                if u["n"] == "rest" or (rest_place is None and isinstance(u["pl"]["p"][-1], dict) and u["pl"]["p"][-1].get("t") == "&str"):
                    rest_place = pl_str(u["pl"])
        prog = split_progress_blocks(b, rest_place) if rest_place else set()
        counts = {}
        for loop in loops:
            n_loops += 1
            kind, detail = classify_loop(b, loop)
            head = min(loop)
            if kind is None and prog & loop:
                # tokenizer main loop: without the consuming blocks no cycle may remain except recognised inner loops
                rest = loop - prog
                inner = [set(c) for c in b.sccs(within=rest) if len(c) > 1 or c[0] in b.succ[c[0]]]
                bad_inner = [c for c in inner if classify_loop(b, c)[0] is None]
                kind = "consume" if not bad_inner else None
                detail = ("every cycle through the loop assigns the captured input `rest` from split_at(..).1 (%d consuming block(s); "
                          "%d inner iterator loop(s))" % (len(prog & loop), len(inner)))
                if bad_inner:
                    detail = "a cycle at %s avoids every `rest = split_at(..).1` assignment" % b.where(min(bad_inner[0]))
            n = counts.get(kind, 0)
            counts[kind] = n + 1
            key = "C06.LEXPROG:%s:%s#%d" % (b.path, kind or "unrecognised", n)
            what = "loop makes progress on every iteration"
            if kind is None:
                rep.bad("C06.LEXPROG", key, b.where(head), what + " — VIOLATED: no recognised progress (iterator exhaustion, strip_prefix shrink, "
                        "scan offset increase, or input consumption on every cycle): the tokenizer can hang. " + detail)
            else:
                rep.ok("C06.LEXPROG", key, b.where(head), what + " [%s: %s]" % (kind, detail))
        # non-zero consumption on the two pure-skip paths of the main loop
    rep.floor("C06.LEXPROG", "loops in parsing::lexer [%s]" % cfg, n_loops, 20)


def consuming_functions(crate):
    """fixpoint: parser functions that consume at least one token on every non-error path to return"""
    bodies = [b for b in crate.in_files("parsing/parser.rs") if b.kind != "closure" and "Parser" in b.path]
    base = [b.path for b in bodies if b.path.endswith("::next")]
    consuming = set(base)
    changed = True
    while changed:
        changed = False
        for b in bodies:
            if b.path in consuming:
                continue
            if must_consume(b, consuming):
                consuming.add(b.path)
                changed = True
    return consuming, base


def error_exit_blocks(body):
    out = set()
    for bb, idx, s in body.stmts():
        if idx == "t":
            if s["k"] == "call" and s["dest"]["l"] == 0 and any(name_matches(n, ["std::ops::FromResidual::from_residual"]) for n in callee_names(s)):
                out.add(bb)
        elif s["k"] == "assign" and s["pl"]["l"] == 0 and not s["pl"]["p"]:
            rv = s["rv"]
            if rv["k"] == "agg" and rv.get("adt") == "std::result::Result" and rv.get("variant") == "Err":
                out.add(bb)
    return out


def consuming_call_blocks(body, consuming):
    out = set()
    for bb, t in body.calls():
        f = t["f"]
        if f.get("indirect"):
            continue
        tgt = f.get("res") or f["def"]
        if tgt in consuming or f["def"] in consuming:
            out.add(bb)
    return out


def must_consume(body, consuming):
    removed = consuming_call_blocks(body, consuming) | error_exit_blocks(body)
    if 0 in removed:
        return 0 in consuming_call_blocks(body, consuming)
    reach = body.reach_from(0, removed_blocks=frozenset(removed))
    return not any(body.term(bb)["k"] == "return" for bb in reach)


def check_parseprog(crate, rep, cfg):
    consuming, base = consuming_functions(crate)
    if not base:
        rep.anchor_missing("C06.PARSEPROG", "Parser::next")
        return
    rep.floor("C06.PARSEPROG", "token-consuming parser functions (fixpoint from Parser::next) [%s]" % cfg, len(consuming), 15)
    n_loops = 0
    for b in crate.in_files("parsing/parser.rs"):
        loops = b.loops()
        if not loops:
            continue
        rep.analysed(b)
        cblocks = consuming_call_blocks(b, consuming)
        counts = {}
        for loop in loops:
            n_loops += 1
            head = min(loop)
            rest = loop - cblocks
            inner = [set(c) for c in b.sccs(within=rest) if len(c) > 1 or c[0] in b.succ[c[0]]]
            bad_inner = [c for c in inner if classify_loop(b, c)[0] is None]
            kind, detail = (None, "")
            if cblocks & loop and not bad_inner:
                kind, detail = "consume", "every cycle passes a call that consumes a token (%d consuming call block(s))" % len(cblocks & loop)
            elif not (cblocks & loop):
                kind, detail = classify_loop(b, loop)
            n = counts.get(kind, 0)
            counts[kind] = n + 1
            key = "C06.PARSEPROG:%s:%s#%d" % (b.path, kind or "unrecognised", n)
            what = "parser loop makes progress on every iteration"
            if kind is None:
                where = b.where(min(bad_inner[0])) if bad_inner else b.where(head)
                rep.bad("C06.PARSEPROG", key, where, what + " — VIOLATED: a cycle consumes no token and is not an iterator loop: the parser can hang on some input")
            else:
                rep.ok("C06.PARSEPROG", key, b.where(head), what + " [%s: %s]" % (kind, detail))
    rep.floor("C06.PARSEPROG", "loops in parsing::parser [%s]" % cfg, n_loops, 12)


# ----------------------------------------------------------------------------------------------------------------
# C06.ERRKIND / C06.DELIM / C06.PATCH / C06.JT

from engine import field_accesses, TRANSPARENT_CALLS

ERR_CTORS_OK = {"syntax_error", "new"}
JUMPS = ("Jump", "PopJumpIfFalse", "JumpIfFalseOrPop", "JumpIfTrueOrPop", "Iterate")


def check_errkind(crate, rep, cfg):
    n_ctor = 0
    n_foreign = 0
    for b in crate.in_files("parsing/lexer.rs", "parsing/parser.rs"):
        if b.kind == "const":
            continue
        tr = Tracer(b)
        root = crate.root_of(b).path
        k = 0
        for bb, t in b.calls():
            cd = callee_def(t)
            if cd.startswith("errors::Error::") and "Error" in b.local_ty(t["dest"]["l"]):
                n_ctor += 1
                meth = cd.rsplit("::", 1)[-1]
                ok = meth in ERR_CTORS_OK
                if meth == "new":
                    leaves = tr.operand(t["args"][0])
                    ok = bool(leaves) and all(l.kind == "agg" and l.detail[2] == "SyntaxError" for l in leaves)
                key = "C06.ERRKIND:%s:Error::%s#%d" % (root, meth, k)
                k += 1
                if not ok:
                    rep.bad("C06.ERRKIND", key, b.where(bb), "lexer/parser construct only syntax errors — VIOLATED: Error::%s; Template::new's "
                            "`unreachable!(\"Parser got something other than a SyntaxError\")` would fire" % meth)
                continue
            # calls to fallible functions defined outside lexer/parser
            tgt = crate.bodies.get(t["f"].get("res") or cd)
            dty = b.local_ty(t["dest"]["l"])
            if tgt is not None and not tgt.file.endswith(("parsing/lexer.rs", "parsing/parser.rs")) and dty.startswith("std::result::Result<") and "errors::Error" in dty:
                n_foreign += 1
                dest = t["dest"]["l"]
                mapped = False
                for b2, t2 in find_calls(b, ["std::result::Result::<T, E>::map_err"]):
                    a0 = t2["args"][0]
                    if a0["k"] in ("copy", "move") and a0["pl"]["l"] == dest:
                        mapped = True
                key = "C06.ERRKIND:%s:foreign:%s" % (root, cd)
                what = "the Err of %s (defined outside the lexer/parser) is rewritten with map_err into a syntax error before any `?`" % cd
                (rep.ok if mapped else rep.bad)("C06.ERRKIND", key, b.where(bb), what if mapped else what + " — VIOLATED: a non-syntax error would reach "
                                                "Template::new's unreachable!")
        for bb, idx, s in find_aggs(b, "errors::ErrorKind"):
            if s["rv"]["variant"] != "SyntaxError":
                rep.bad("C06.ERRKIND", "C06.ERRKIND:%s:ErrorKind::%s" % (root, s["rv"]["variant"]), b.where(bb, idx), "lexer/parser build ErrorKind::%s" % s["rv"]["variant"])
        for bb, idx, s in find_aggs(b, "errors::Error", "Error"):
            rv = s["rv"]
            op = rv["ops"][rv["fields"].index("kind")]
            leaves = tr.operand(op)
            ok = bool(leaves) and all(".kind" in l.projs and any(p.startswith("via:std::clone::Clone") for p in l.projs) for l in leaves)
            key = "C06.ERRKIND:%s:Error-literal#%d" % (root, k)
            k += 1
            n_ctor += 1
            (rep.ok if ok else rep.bad)("C06.ERRKIND", key, b.where(bb, idx), "an Error struct literal in the parser re-wraps the clone of a lexer error's kind" +
                                        ("" if ok else " — VIOLATED: kind origin %s" % sorted(leaf_str(l) for l in leaves)[:2]))
    rep.ok("C06.ERRKIND", "C06.ERRKIND:constructors", "tera/src/parsing", "all %d error constructions in the lexer/parser are Error::syntax_error / Error::new(SyntaxError) / re-wrapped "
           "lexer kinds (violations listed separately)" % n_ctor)
    rep.floor("C06.ERRKIND", "error constructions in lexer/parser [%s]" % cfg, n_ctor, 60)
    rep.floor("C06.ERRKIND", "calls to foreign fallible functions [%s]" % cfg, n_foreign, 1)
    # the unreachable! it discharges exists in Template::new's non-SyntaxError arm (informational anchor)


def check_delim(crate, rep, cfg):
    n = 0
    for a in field_accesses(crate, "tera::Tera", "delimiters"):
        if a["kind"] not in ("assign", "agg-init"):
            continue
        b = a["body"]
        root = crate.root_of(b).path
        if rrec.derive_generated(crate, root):
            continue
        n += 1
        key = "C06.DELIM:writer:%s" % root
        if root.endswith("::default"):
            tr = Tracer(b)
            ok = all(leaf_call_is(l, "std::default::Default::default") for l in tr.operand(a["op"]))
            rep.add("C06.DELIM", key, ok, b.where(a["bb"], a["idx"]), "Tera::default uses Delimiters::default() (2-byte literals)" + ("" if ok else " — VIOLATED"))
        elif root == "tera::Tera::set_delimiters":
            ef = EdgeFacts(b, crate)
            # dominated by the Ok (Continue) edge of validate()?
            vcalls = [(bb, t) for bb, t in find_calls(b, ["delimiters::Delimiters::validate"])]
            ok = False
            tr = Tracer(b)
            for vb, vt in vcalls:
                # the Continue edge of `validate()?`
                for sb in sorted(b.reachable):
                    tt = b.term(sb)
                    if tt["k"] != "switch" or tt["op"]["k"] == "const" or tt["op"]["pl"]["p"]:
                        continue
                    d = ef.single_def(tt["op"]["pl"]["l"])
                    if d and d[3]["k"] == "discr":
                        leaves = tr.place(d[3]["pl"])
                        if leaves and all(l.kind == "call" and l.detail[2] == vb for l in leaves):
                            for tgt, fl in ef.facts_for_switch(sb).items():
                                for f in fl:
                                    if f[0] == "variant" and ("Continue" in f[3] or "Ok" in f[3]) and len(f[3]) == 1 and b.dominates(tgt, a["bb"]) and tgt != sb:
                                        ok = True
            # the error exit of validate()? must not reach the assignment
            rep.add("C06.DELIM", key, ok, b.where(a["bb"], a["idx"]), "set_delimiters assigns the field only after `delimiters.validate()?` succeeded" + ("" if ok else " — VIOLATED"))
        else:
            rep.bad("C06.DELIM", key, b.where(a["bb"], a["idx"]), "Tera.delimiters is written only by Default and set_delimiters — VIOLATED: %s (unvalidated delimiters reach the "
                    "lexer: windows(0) panics, 2-byte arithmetic breaks)" % root)
    rep.floor("C06.DELIM", "writers of Tera.delimiters [%s]" % cfg, n, 2)
    # Template::new call sites pass a clone of self.delimiters
    k = 0
    for b in crate.bodies.values():
        if b.kind == "const":
            continue
        tr = Tracer(b)
        for bb, t in find_calls(b, ["template::Template::new"]):
            leaves = tr.operand(t["args"][3])
            leaves = resolve_up(crate, b, leaves)
            ok = bool(leaves) and all(".delimiters" in l.projs and l.kind == "param" for l in leaves)
            rep.add("C06.DELIM", "C06.DELIM:Template::new#%d:%s" % (k, crate.root_of(b).path), ok, b.where(bb), "Template::new receives a clone of self.delimiters"
                    + ("" if ok else " — VIOLATED: origin %s" % sorted(leaf_str(l) for l in leaves)[:2]))
            k += 1
    rep.floor("C06.DELIM", "Template::new call sites [%s]" % cfg, k, 3)
    # validate(): six length tests against 2
    v = crate.one("delimiters::Delimiters::validate")
    tr = Tracer(v)
    fields = set()
    for bb, idx, s in v.stmts():
        if idx != "t" and s["k"] == "assign" and s["rv"]["k"] == "bin" and s["rv"]["op"] in ("Ne", "Eq") and s["rv"]["r"]["k"] == "const" and s["rv"]["r"].get("v") == "2":
            for l in tr.operand(s["rv"]["l"]):
                if l.kind == "call" and l.detail[1].endswith("::len"):
                    recv = tr.operand(v.term(l.detail[2])["args"][0])
                    for r in recv:
                        for p in r.projs:
                            if p.startswith(".") and ("start" in p or "end" in p):
                                fields.add(p)
                        if r.kind == "call" and r.detail[0].endswith("Iterator::next") and r.projs[:2] == ("as:Some", ".0"):
                            # table form: `for (name, d) in [(.., self.a), (.., self.b), ..] { if d.len() != 2 .. }` — the fields tested are the
                            # ones listed at that tuple position of the iterated array, all of them (the loop only leaves early with the error)
                            pos = r.projs[2:3]
                            for x in tr.operand(v.term(r.detail[2])["args"][0]):
                                if x.kind == "agg" and x.detail[0] == "array":
                                    for eop in v.blocks[x.detail[3]]["s"][x.detail[4]]["rv"]["ops"]:
                                        for e in tr.operand(eop, list(pos)):
                                            for p in e.projs:
                                                if p.startswith(".") and ("start" in p or "end" in p):
                                                    fields.add(p)
    ok = len(fields) == 6
    rep.add("C06.DELIM", "C06.DELIM:validate:six-length-tests", ok, v.where(0), "Delimiters::validate compares the byte length of all six delimiters with 2 (%s)" % sorted(fields)
            + ("" if ok else " — VIOLATED"))


def resolve_up(crate, body, leaves):
    from props.c07 import resolve_upvars
    return resolve_upvars(crate, body, leaves, None)


def derived_locals(body, start_local):
    """locals that hold (a cast/copy of) the value first stored in start_local"""
    out = {start_local}
    changed = True
    while changed:
        changed = False
        for bb, idx, s in body.stmts():
            if idx != "t" and s["k"] == "assign" and not s["pl"]["p"] and s["pl"]["l"] not in out:
                rv = s["rv"]
                if rv["k"] in ("use", "cast") and rv["op"]["k"] in ("copy", "move") and rv["op"]["pl"]["l"] in out:
                    out.add(s["pl"]["l"])
                    changed = True
                elif rv["k"] == "agg" and any(op["k"] in ("copy", "move") and op["pl"]["l"] in out for op in rv["ops"]):
                    out.add(s["pl"]["l"])
                    changed = True
    return out


def check_patch_jt(crate, rep, cfg):
    comp = [b for b in crate.in_files("parsing/compiler.rs") if b.kind != "const"]
    counts = {}
    for b in comp:
        tr = Tracer(b)
        root = crate.root_of(b).path
        for bb, idx, s in find_aggs(b, "parsing::instructions::Instruction"):
            v = s["rv"]["variant"]
            if v not in JUMPS:
                continue
            payload = s["rv"]["ops"][0]
            placeholder = payload["k"] == "const" and payload.get("v") == "0"
            agg_local = s["pl"]["l"]
            # the Chunk::add call that takes this aggregate
            add = None
            for b2, t2 in find_calls(b, ["parsing::instructions::Chunk::add"]):
                if any(l.kind == "agg" and l.detail[3] == bb and l.detail[4] == idx for l in tr.operand(t2["args"][1])):
                    add = (b2, t2)
            n = counts.get(v, 0)
            counts[v] = n + 1
            if not placeholder:
                # JT: non-placeholder payload provenance
                leaves = tr.operand(payload)
                ok = bool(leaves) and all(jt_leaf_ok(l) for l in leaves)
                key = "C06.JT:%s:%s#%d:emit" % (root, v, n)
                (rep.ok if ok else rep.bad)("C06.JT", key, b.where(bb, idx), "jump payload emitted for %s comes from Chunk::add / Chunk::len / a recorded loop start" % v
                                            + ("" if ok else " — VIOLATED: origin %s (target may lie outside the chunk)" % sorted(leaf_str(l) for l in leaves)[:2]))
                continue
            key = "C06.PATCH:%s:%s#%d" % (root, v, n)
            what = "the index of the placeholder %s(0) is recorded for patching (ProcessingBody / ShortCircuit list / get_mut)" % v
            if add is None:
                rep.bad("C06.PATCH", key, b.where(bb, idx), what + " — anchor-missing: Chunk::add call for this aggregate")
                continue
            idx_locals = derived_locals(b, add[1]["dest"]["l"])
            recorded = False
            for b3, i3, s3 in b.stmts():
                if i3 == "t":
                    if s3["k"] == "call":
                        cd = callee_def(s3)
                        if cd.endswith("Chunk::get_mut") or cd.endswith("::push"):
                            for a in s3["args"][1:]:
                                if a["k"] in ("copy", "move") and a["pl"]["l"] in idx_locals:
                                    recorded = True
                        h = crate.bodies.get(cd)
                        if h is not None and h is not b and h.kind != "closure" and "parsing/compiler.rs" in (h.j.get("file") or ""):
                            # a private patching helper: the index is handed to a function whose parameter goes to Chunk::get_mut
                            for ai, a in enumerate(s3["args"]):
                                if a["k"] in ("copy", "move") and a["pl"]["l"] in idx_locals:
                                    pl_ = ai + 1
                                    hl = derived_locals(h, pl_) | {pl_}
                                    for b4, t4 in find_calls(h, ["parsing::instructions::Chunk::get_mut"]):
                                        if any(x["k"] in ("copy", "move") and x["pl"]["l"] in hl for x in t4["args"][1:]):
                                            recorded = True
                elif s3["k"] == "assign" and s3["rv"]["k"] == "agg" and (s3["rv"].get("adt") or "").endswith("ProcessingBody"):
                    for op in s3["rv"]["ops"]:
                        if op["k"] in ("copy", "move") and op["pl"]["l"] in idx_locals:
                            recorded = True
            (rep.ok if recorded else rep.bad)("C06.PATCH", key, b.where(bb, idx), what if recorded else what + " — VIOLATED: the jump keeps target 0: an endless loop "
                                              "or a jump to the chunk start at render time")
        # JT: patch assignments `*target = X`
        k = 0
        for bb, idx, s in b.stmts():
            if idx == "t" or s["k"] != "assign" or pl_projs(s["pl"]) != ["deref"]:
                continue
            is_patch = False
            for (b2, i2, dp, rv) in b.defs.get(s["pl"]["l"], []):
                if rv["k"] == "ref" and any(p[3:] in JUMPS for p in pl_projs(rv["pl"]) if p.startswith("as:")):
                    is_patch = True
            if not is_patch:
                continue
            leaves = tr._rv(s["rv"], (), set(), 0, bb, idx)
            ok = bool(leaves) and all(jt_leaf_ok(l) for l in leaves)
            key = "C06.JT:%s:patch#%d" % (root, k)
            k += 1
            counts["patch"] = counts.get("patch", 0) + 1
            (rep.ok if ok else rep.bad)("C06.JT", key, b.where(bb, idx), "a patched jump target comes from Chunk::len() / a recorded index (<= chunk length, so index_map[target] and the VM's "
                                        "ip stay in range)" + ("" if ok else " — VIOLATED: origin %s" % sorted(leaf_str(l) for l in leaves)[:2]))
    for v, fl in (("PopJumpIfFalse", 4), ("Jump", 3), ("Iterate", 2), ("JumpIfFalseOrPop", 1), ("JumpIfTrueOrPop", 1), ("patch", 3)):
        rep.floor("C06.PATCH", "compiler sites: %s [%s]" % (v, cfg), counts.get(v, 0), fl)
    # R-PAIR on processing_bodies: pushes == pops per function, and every pop site assigns payloads
    for b in comp:
        pushes = [bb for bb, t in find_calls(b, ["std::vec::Vec::<T, A>::push"]) if "ProcessingBody" in t["atys"][0]]
        pops = [bb for bb, t in find_calls(b, ["std::vec::Vec::<T, A>::pop"]) if "ProcessingBody" in t["atys"][0]]
        ends = [bb for bb, t in find_calls(b, ["parsing::compiler::Compiler::end_branch"])]
        if not pushes and not pops:
            continue
        root = crate.root_of(b).path
        key = "C06.PATCH:%s:push-pop-balance" % root
        if root.endswith("end_branch"):
            continue
        ok = len(pushes) == len(pops) + len(ends)
        (rep.ok if ok else rep.bad)("C06.PATCH", key, b.where(0), "processing_bodies: %d pushes == %d pops + %d end_branch calls in %s" % (len(pushes), len(pops), len(ends), root.rsplit("::", 1)[-1])
                                    + ("" if ok else " — VIOLATED: an unpaired placeholder record"))


def jt_leaf_ok(l):
    if l.kind == "const":
        return True
    if any(p in ("as:Loop", "as:Branch", "as:ShortCircuit") for p in l.projs):
        return True       # an index recorded in a ProcessingBody entry (itself a Chunk::add result, checked at the push site)
    if l.kind == "call":
        return l.detail[1].endswith("Chunk::len") or l.detail[1].endswith("Chunk::add") or l.detail[0].endswith("Chunk::len") or l.detail[0].endswith("Chunk::add")
    if l.kind == "param":
        return True       # end_branch(idx): callers pass self.chunk.len() (checked at their sites by the same rule)
    if l.kind in ("agg",):
        return False
    if l.kind == "cycle":
        return True
    # payload of a ProcessingBody::Loop / ShortCircuit entry popped from processing_bodies
    return any(p in ("as:Loop", "as:Branch", "as:ShortCircuit") for p in l.projs)


def check_lexoff(crate, rep, cfg):
    """C06.LEXOFF — every byte offset at which the lexer splits or slices the source is a *byte* quantity: a constant (the ASCII delimiter
    widths), a str/slice len(), the result of the byte-level marker search, a position()/count() over a byte iterator, or a sum of such.
    A character count (chars().position / chars().count) used as a byte offset lands inside a multi-byte character: split_at panics."""
    from props.c14 import OFFSET_TRANSPARENT
    n = 0
    memo = {}

    def helper_returns_bytes(crate_, h, factory):
        if h.path in memo:
            return memo[h.path]
        memo[h.path] = True          # recursion: assume ok
        htr = Tracer(h, transparent=OFFSET_TRANSPARENT)
        hok = factory(h, htr)
        leaves = set()
        work = [(0, ())]
        # the return place, looking into Some(..) / tuple aggregates
        from props.c03 import through
        for l in htr.place({"l": 0, "p": []}):
            if l.kind == "agg":
                st = h.blocks[l.detail[-2]]["s"][l.detail[-1]]
                for op in st["rv"]["ops"]:
                    for l2 in htr.operand(op):
                        if l2.kind == "agg":
                            st2 = h.blocks[l2.detail[-2]]["s"][l2.detail[-1]]
                            for op2 in st2["rv"]["ops"]:
                                leaves |= htr.operand(op2)
                        else:
                            leaves.add(l2)
            else:
                leaves.add(l)
        res = all(hok(l, set()) or l.kind in ("agg",) or (l.kind == "const") or (l.kind == "call" and h.local_ty(0) and not is_usize_like(h, l)) for l in leaves)
        memo[h.path] = res
        return res

    def is_usize_like(h, l):
        ct = h.term(l.detail[2])
        return "usize" in h.local_ty(ct["dest"]["l"])

    def leaf_ok_factory(b, tr):
        def leaf_ok(leaf, seen):
            k, d, projs = leaf
            if k == "const":
                return True
            if k == "cycle":
                return True
            if k == "call":
                n0 = d[0]
                if n0.endswith("::len") and ("str" in n0 or "String" in n0 or "[T]" in n0 or "Vec" in n0):
                    return True
                if n0.startswith("parsing::lexer::") and n0 in crate.bodies:
                    return helper_returns_bytes(crate, crate.bodies[n0], leaf_ok_factory)
                if n0.endswith("str::<impl str>::find") or n0.endswith("::char_indices") or n0.endswith("char::methods::<impl char>::len_utf8") or "memchr" in n0:
                    return True
                if n0.rsplit("::", 1)[-1] in ("position", "count", "rposition"):
                    ct = b.term(d[2])
                    rty = ct["atys"][0] if ct["atys"] else ""
                    return ("u8" in rty or "Bytes" in rty) and "Chars" not in rty and "CharIndices" not in rty
                return False
            if k == "op" and d[0] == "bin" and d[1] in ("Add", "AddWithOverflow", "Sub", "SubWithOverflow"):
                if (d[2], d[3]) in seen:
                    return True
                st = b.blocks[d[2]]["s"][d[3]]
                return all(leaf_ok(l, seen | {(d[2], d[3])}) for op in (st["rv"]["l"], st["rv"]["r"]) for l in tr.operand(op))
            if k == "param":
                return True
            return False
        return leaf_ok
    for b in crate.in_files("parsing/lexer.rs"):
        if b.kind == "const":
            continue
        tr = Tracer(b, transparent=OFFSET_TRANSPARENT)
        leaf_ok = leaf_ok_factory(b, tr)
        k2 = 0
        for bb, t in b.calls():
            cd = callee_def(t)
            st = t["f"].get("self_ty", "")
            is_idx = cd in ("std::ops::Index::index", "std::ops::IndexMut::index_mut") and st in ("str", "std::string::String") and "Range" in (t["atys"][1] if len(t["atys"]) > 1 else "")
            is_split = "str" in cd and cd.endswith(("::split_at", "::split_at_mut", "::split_at_checked"))
            if not (is_idx or is_split):
                continue
            n += 1
            rep.analysed(b)
            a = t["args"][1]
            leaves = set()
            if is_idx and a["k"] in ("copy", "move"):
                for f in (".start", ".end"):
                    leaves |= {l for l in tr.place(a["pl"], [f]) if l.kind != "agg"}
                if not leaves:
                    leaves = tr.operand(a)
            else:
                leaves = tr.operand(a)
            bad = [l for l in leaves if not leaf_ok(l, set())]
            key = "C06.LEXOFF:%s:offset#%d" % (crate.root_of(b).path, k2)
            k2 += 1
            rep.add("C06.LEXOFF", key, not bad, b.where(bb), "the byte offset of this split/slice of the source is a byte quantity (constant, len(), byte-level search, position/count "
                    "over bytes, sums of such)" + ("" if not bad else " — VIOLATED: origin %s: a count of characters used as a byte offset panics inside a multi-byte character"
                                                   % sorted(leaf_str(l) for l in bad)[:2]))
    rep.floor("C06.LEXOFF", "str split/slice sites in the lexer [%s]" % cfg, n, 20)
