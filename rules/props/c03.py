"""C03 — control flow, scoping, captures, includes: the structural clauses (partial)."""
from engine import (Tracer, EdgeFacts, find_calls, find_aggs, field_accesses, AnchorMissing, leaf_str, leaf_call_is, pl_projs, pl_str, callee_def,
                    callee_names, iter_operands, name_matches, TRANSPARENT_CALLS)
import rrec
from props.c02 import const_of

EXPLANATION = (
    "Decides the clauses of C03 whose truth is in the shape of the code, on the type-checked MIR: (SCOPE) State::get_value consults "
    "its five scopes in the documented order — loops innermost-first (a reversed walk), assignments, the includer, the render context, "
    "the global context — every hit returns at once and no later scope can be reached from a hit; inside one loop frame the per-iteration "
    "assignments come before the loop variables; (STORE) `set` goes to the innermost loop frame when there is one and to the render-wide "
    "map otherwise, `set_global` always to the render-wide map, and compiler and VM agree on which opcode means which; (ITER) every "
    "advance to a further element clears the per-iteration assignments, and the loop counters are updated by the expressions the "
    "documentation gives (index = index0 + 1, first = false after the first, last = (index == length)), every answer of the loop iterator's "
    "size_hint is an exact `(n, Some(n))` (ForLoop::new reads it as the length) and a string's n counts characters / graphemes; (STATE) the "
    "render-time State consists of the reviewed fields only (no place for a memo); (LOOPVAR) the parser's "
    "`loop.X` -> internal name table and ForLoop::get's internal name -> counter table agree and each name reads the counter of "
    "that name; (INCL) an include gets a fresh State whose only link to the includer is a shared (`&`) reference to a State type "
    "without interior mutability, so nothing the included template assigns can reach the includer, and the include writes into the "
    "innermost capture buffer when one is open; (JUMP) `continue` jumps to the Iterate of the innermost loop being compiled, `break` "
    "to the end recorded for the innermost loop at run time, the for-else flag is the negation of 'iterated', and an if/else compiles "
    "to test, conditional jump over the body, body, jump over the else. NOT decided: the rendered text itself, i.e. that these pieces "
    "compose to the documented output for every nesting (value-level; the jump targets' numeric values are C06.PATCH / C09).")
NOT_DECIDED = ("the rendered output of arbitrary statement trees (value-level composition of the clauses above); numeric correctness of "
               "back-patched jump targets beyond 'every placeholder is patched' (C06.PATCH) and 'fusion preserves targets' (C09)")
ASSUMPTIONS = ["std collections and iterators behave as documented (Rev walks back to front, BTreeMap/HashMap::get finds what insert stored)"]

STATE = "vm::state::State"
GET_VALUE = "vm::state::State::<'t>::get_value"


def run(ctx, rep):
    for cfg in ctx.tera_configs():
        crate = ctx.crate(cfg)
        check_scope(crate, rep, cfg)
        check_store(crate, rep, cfg)
        check_iter(crate, rep, cfg)
        check_exact_len(crate, rep, cfg)
        check_loopvar(crate, rep, cfg)
        check_load_name(crate, rep, cfg)
        check_in_loop(crate, rep, cfg)
        check_incl(crate, rep, cfg)
        # if/elif/for skeletons are emitted by the compiler and must reach the VM as emitted: the fusion pass rebuilds no jump (C09.ONLY, shared)
        from props import c09 as _c09
        _c09.check_only(crate, crate.one("parsing::instructions::Chunk::optimize"), rep, cfg)
        check_state_fields(crate, rep, cfg)
        check_jump(crate, rep, cfg)


# --------------------------------------------------------------------------------------------------------------- helpers

def self_fields(tr, op):
    """set of field-name tuples (e.g. ('.context', '.data')) through which an operand derives from parameter 1 (self)"""
    out = set()
    for l in tr.operand(op):
        if l.kind == "param" and l.detail == 1:
            out.add(tuple(p for p in l.projs if p.startswith(".")))
        else:
            out.add(None)
    return out


def is_self_field(tr, op, field, depth=0):
    """the operand reads self.<field> (directly, or through a compiler temporary that copies it)"""
    if op["k"] not in ("copy", "move"):
        return False
    pp = pl_projs(op["pl"])
    if pp and pp[-1] == field and tr.b.is_param(op["pl"]["l"]) and op["pl"]["l"] == 1:
        return True
    if not pp and depth < 4 and not tr.b.local_name(op["pl"]["l"]):
        ds = [d for d in tr.b.defs.get(op["pl"]["l"], []) if not d[2]]
        return len(ds) == 1 and ds[0][3]["k"] == "use" and is_self_field(tr, ds[0][3]["op"], field, depth + 1)
    return False


def through(tr, leaves, depth=0):
    """replace `Some(x)` aggregates by the origins of x and `o.unwrap()` / `o.expect(..)` results by the origins of o"""
    out = set()
    for l in leaves:
        if depth < 4 and l.kind == "agg" and l.detail[0] == "adt" and l.detail[2] == "Some":
            st = tr.b.blocks[l.detail[3]]["s"][l.detail[4]]
            out |= through(tr, tr.operand(st["rv"]["ops"][0]), depth + 1)
        elif depth < 4 and l.kind == "call" and l.detail[0].rsplit("::", 1)[-1] in ("unwrap", "expect", "unwrap_or_else", "unwrap_or", "unwrap_or_default", "cloned", "copied", "filter"):
            t = tr.b.term(l.detail[2])
            for x in through(tr, tr.operand(t["args"][0]), depth + 1):
                out.add(type(x)((x.kind, x.detail, tuple(x.projs) + tuple(l.projs))))
        else:
            out.add(l)
    return out


def last_field(projs):
    fs = [p for p in projs if p.startswith(".")]
    return fs[-1] if fs else None


def is_whole_self(tr, op):
    """the operand is (a reborrow of) self itself, not one of its fields"""
    ps = [l for l in tr.operand(op) if l.kind == "param"]
    return bool(ps) and all(l.detail == 1 and not [p for p in l.projs if p.startswith(".")] for l in ps)


def is_map_get(t):
    cd = callee_def(t)
    return cd.endswith("::get") and any(x in cd for x in ("BTreeMap", "HashMap", "IndexMap", "AHashMap")) or \
        (cd.endswith("::get") and t["atys"] and any(x in t["atys"][0] for x in ("BTreeMap<", "HashMap<", "IndexMap<")))


def some_edges(body, crate, call_bb):
    return rrec.ok_edges_of_call(body, crate, call_bb)


def str_tests(body):
    """[(call bb, literal, true target, false target)] for `x == "literal"` tests on strings"""
    out = []
    for bb, t in body.calls():
        if not callee_def(t).endswith("PartialEq::eq"):
            continue
        lits = [c.get("s") for c in (const_of(body, a) for a in t["args"]) if c and isinstance(c.get("s"), str)]
        if len(lits) != 1:
            continue
        dest = t["dest"]["l"]
        for sb in sorted(body.reachable):
            st = body.term(sb)
            if st["k"] == "switch" and st["op"]["k"] in ("copy", "move") and not st["op"]["pl"]["p"] and st["op"]["pl"]["l"] == dest:
                tt = [tgt for v, tgt in st["targets"] if v != "0"] or [st["otherwise"]]
                ff = [tgt for v, tgt in st["targets"] if v == "0"] or [st["otherwise"]]
                out.append((bb, lits[0], tt[0], ff[0]))
    return out


def vm_arm(vm, crate, variant):
    """blocks of the interpreter's arm for one opcode: from the variant edge up to the next fetch"""
    from props.c09 import variant_switches
    heads = {bb for bb, t in find_calls(vm, ["parsing::instructions::Chunk::get"])}
    regions = []
    for sb, listed in variant_switches(vm, crate, "instructions::Instruction"):
        if variant in listed and len(listed) > 8:
            tgt = listed[variant]
            regions.append({x for x in vm.reach_from(tgt, removed_blocks=frozenset(heads | {sb})) if vm.dominates(tgt, x)})
    if not regions:
        raise AnchorMissing("interpreter arm for Instruction::%s" % variant)
    return set().union(*regions)


def node_arm(cn, crate, variant):
    from props.c09 import variant_switches
    for sb, listed in variant_switches(cn, crate, "ast::Node"):
        if variant in listed and len(listed) > 4:
            tgt = listed[variant]
            return {x for x in cn.reach_from(tgt, removed_blocks=frozenset([sb])) if cn.dominates(tgt, x)}
    raise AnchorMissing("compile_node arm for Node::%s" % variant)


# --------------------------------------------------------------------------------------------------------------- SCOPE

ADAPTERS = ("and_then", "map", "is_some_and", "map_or", "map_or_else", "or_else", "find_map", "filter_map")
SCOPE_OF_FIELD = {".set_variables": "assignments", ".context": "context", ".global_context": "global", ".include_parent": "includer", ".for_loops": "loops"}


def _closures_passed(body, tr, t):
    out = []
    for a in t["args"][1:]:
        for l in tr.operand(a):
            if l.kind == "agg" and l.detail[0] == "closure":
                st = body.blocks[l.detail[3]]["s"][l.detail[4]]
                out.append(st["rv"]["def"])
    return out


def _scope_field(crate, body, leaves):
    """the scope field of State (on the root function's self) that the leaves derive from, resolving closure captures"""
    from props.c07 import resolve_upvars
    ls = resolve_upvars(crate, body, leaves, set(TRANSPARENT_CALLS) | {"core::slice::<impl [T]>::iter", "std::iter::Iterator::rev"})
    fs = set()
    for l in ls:
        if l.kind != "param":
            continue
        f = [p for p in l.projs if p in SCOPE_OF_FIELD]
        fs.add(f[0] if l.detail == 1 and f else None)
    return next(iter(fs)) if len(fs) == 1 else None


def closure_scopes(crate, cb, depth=0):
    """scope lookups performed inside closure cb: a set of scope names; 'arg' stands for "a lookup on the closure's own argument" (its
    scope is that of the receiver the adapter was applied to). None when the closure does something the rule does not understand."""
    tr = Tracer(cb, transparent=set(TRANSPARENT_CALLS) | {"core::slice::<impl [T]>::iter", "std::iter::Iterator::rev"})
    out = set()
    for bb, t in cb.calls():
        cd = callee_def(t)
        if cd.endswith("for_loop::ForLoop::get"):
            out.add("loops")
        elif GET_VALUE in callee_names(t) or cd.endswith("::get_value"):
            out.add("arg:get_value")
        elif is_map_get(t):
            f = _scope_field(crate, cb, tr.operand(t["args"][0]))
            ls = tr.operand(t["args"][0])
            if f:
                out.add(SCOPE_OF_FIELD[f])
            elif ls and all(l.kind == "param" and l.detail >= 2 for l in ls):
                out.add("arg")
            else:
                return None
        elif cd.rsplit("::", 1)[-1] in ADAPTERS and len(t["args"]) >= 2 and depth < 3:
            f = _scope_field(crate, cb, tr.operand(t["args"][0]))
            for c in _closures_passed(cb, tr, t):
                sub = closure_scopes(crate, crate.bodies[c], depth + 1) if c in crate.bodies else None
                if sub is None:
                    return None
                for k in sub:
                    if k == "arg":
                        if not f:
                            return None
                        out.add(SCOPE_OF_FIELD[f])
                    elif k == "arg:get_value":
                        if f != ".include_parent":
                            return None
                        out.add("includer")
                    else:
                        out.add(k)
    return out


def closure_scopes_at(crate, b, tr, bb, t):
    """scopes looked up by the closure(s) of the adapter call t in the root body b; None if there is none / not understood"""
    cls = [c for c in _closures_passed(b, tr, t) if c in crate.bodies]
    if not cls:
        return None
    ltr = Tracer(b, transparent=set(TRANSPARENT_CALLS) | {"core::slice::<impl [T]>::iter", "std::iter::Iterator::rev"})
    f = _scope_field(crate, b, ltr.operand(t["args"][0]))
    out = set()
    for c in cls:
        sub = closure_scopes(crate, crate.bodies[c])
        if sub is None:
            return None
        for k in sub:
            if k == "arg":
                if not f:
                    return None
                out.add(SCOPE_OF_FIELD[f])
            elif k == "arg:get_value":
                if f != ".include_parent":
                    return None
                out.add("includer")
            elif k == "loops":
                if f != ".for_loops":
                    return None
                out.add("loops")
            else:
                out.add(k)
    return out or None

def check_scope(crate, rep, cfg):
    b = crate.one(GET_VALUE)
    rep.analysed(b)
    tr = Tracer(b)
    sites = {}
    helper_bodies = []
    lazy_fallbacks = {}
    for bb, t in b.calls():
        cd = callee_def(t)
        if cd.endswith("for_loop::ForLoop::get"):
            sites.setdefault("loops", []).append(bb)
        elif GET_VALUE in callee_names(t) or cd.endswith("State::<'_>::get_value") or cd.endswith("State::<'t>::get_value"):
            f = self_fields(tr, t["args"][0])
            if f and all(x and ".include_parent" in x for x in f):
                sites.setdefault("includer", []).append(bb)
            else:
                sites.setdefault("other-recursion", []).append(bb)
        elif is_map_get(t):
            f = self_fields(tr, t["args"][0])
            if f == {(".set_variables",)}:
                sites.setdefault("assignments", []).append(bb)
            elif f and all(x and x[:1] == (".context",) for x in f):
                sites.setdefault("context", []).append(bb)
            elif f and all(x and x[:1] == (".global_context",) for x in f):
                sites.setdefault("global", []).append(bb)
            else:
                sites.setdefault("other-map", []).append(bb)
        elif cd in crate.bodies and crate.bodies[cd].kind in ("fn", "assoc_fn") and t["args"] and is_whole_self(tr, t["args"][0]):
            # a private helper on self: the lookups it performs (itself or in its closures) count as performed here
            h = crate.bodies[cd]
            for hb in crate.with_closures(h):
                htr = Tracer(hb)
                for b2, t2 in hb.calls():
                    c2 = callee_def(t2)
                    if c2.endswith("for_loop::ForLoop::get"):
                        sites.setdefault("loops", []).append(bb)
                        helper_bodies.append(hb)
                    elif is_map_get(t2) and hb is h:
                        f = self_fields(htr, t2["args"][0])
                        k2 = "assignments" if f == {(".set_variables",)} else "context" if f and all(x and x[:1] == (".context",) for x in f) else \
                            "global" if f and all(x and x[:1] == (".global_context",) for x in f) else "other-map"
                        sites.setdefault(k2, []).append(bb)
            helper_bodies.append(h)
        elif cd.rsplit("::", 1)[-1] in ADAPTERS and len(t["args"]) >= 2 and closure_scopes_at(crate, b, tr, bb, t) is not None:
            # lookups performed by the closure handed to an Option / iterator adapter count as performed at the adapter call:
            # `for_loops.iter().rev().find_map(|fl| fl.get(name))`, `include_parent.map(|p| p.get_value(name))`,
            # `<context lookup>.or_else(|| self.global_context.and_then(|g| g.data.get(name)))`
            for k2 in closure_scopes_at(crate, b, tr, bb, t):
                sites.setdefault(k2, []).append(bb)
                if k2 == "global" and cd.endswith("::or_else"):
                    lazy_fallbacks[bb] = t
        elif cd.rsplit("::", 1)[-1] in ("and_then", "map", "is_some_and", "map_or", "map_or_else") and "Option" in cd and len(t["args"]) >= 2:
            # `self.global_context.and_then(|g| g.data.get(name))`: a map lookup inside the closure belongs to the scope of the receiver field
            f = self_fields(tr, t["args"][0])
            scope = "global" if f and all(x and x[:1] == (".global_context",) for x in f) else "context" if f and all(x and x[:1] == (".context",) for x in f) else None
            cls = [st["rv"]["def"] for b2, i2, st in b.stmts() if i2 != "t" and st.get("k") == "assign" and st["rv"]["k"] == "agg" and st["rv"].get("ak") == "closure"
                   and any(l.kind == "agg" and l.detail[-2:] == (b2, i2) for a in t["args"][1:] for l in tr.operand(a))]
            for c in cls:
                cb = crate.bodies.get(c)
                if cb is not None and any(is_map_get(t2) for b2, t2 in cb.calls()):
                    sites.setdefault(scope or "other-map", []).append(bb)
    order = ["loops", "assignments", "includer", "context", "global"]
    missing = [k for k in order if len(sites.get(k, [])) != 1]
    extra = [k for k in sites if k not in order]
    key = "C03.SCOPE:get_value:sites"
    rep.add("C03.SCOPE", key, not missing and not extra, b.where(0), "get_value has exactly one lookup per scope (loops, assignments, includer, context, global) and no other "
            "source" + ("" if not missing and not extra else " — VIOLATED: missing/duplicated %s, unexpected %s" % (missing, extra)))
    if missing:
        return
    s = {k: sites[k][0] for k in order}
    # topological order of the lookups in the CFG
    for i in range(len(order)):
        for j in range(i + 1, len(order)):
            a, c = s[order[i]], s[order[j]]
            fwd = c in b.reach_from(a)
            back = a in b.reach_from(c, removed_blocks=frozenset()) and a != c and a in b.reach_from(c)
            ok = fwd and not (a in b.reach_from(c) if a != c else False)
            rep.add("C03.SCOPE", "C03.SCOPE:get_value:order:%s<%s" % (order[i], order[j]), ok, b.where(c), "the %s lookup comes before the %s lookup on every path (never after it)"
                    % (order[i], order[j]) + ("" if ok else " — VIOLATED: name resolution order changed"))
    walk_heads = [bb for bb, t in b.calls() if callee_def(t).endswith("Iterator::next") and s["loops"] in b.reach_from(bb)] or \
        ([s["loops"]] if helper_bodies or callee_def(b.term(s["loops"])).rsplit("::", 1)[-1] in ADAPTERS else [])
    for a, c in (("loops", "assignments"), ("assignments", "context"), ("context", "global")):
        ok = b.dominates(s[a], s[c]) if a != "loops" else (bool(walk_heads) and all(b.dominates(h, s[c]) for h in walk_heads))
        rep.add("C03.SCOPE", "C03.SCOPE:get_value:dominates:%s<%s" % (a, c), ok, b.where(s[c]), "the %s lookup is always tried before the %s lookup is reached" % (a, c)
                + ("" if ok else " — VIOLATED: a path reaches the %s lookup without trying %s" % (c, a)))
    # a hit returns at once: from the block that assigns the return value out of scope i, no lookup of a later scope is reachable
    ret_assigns = []
    for bb, idx, st in b.stmts():
        dest = st["dest"] if idx == "t" and st["k"] == "call" else (st["pl"] if idx != "t" and st.get("k") == "assign" else None)
        if dest and dest["l"] == 0 and not dest["p"]:
            ret_assigns.append((bb, idx, st))
    seen_from = set()
    undefined_tail = []
    for bb, idx, st in ret_assigns:
        if idx == "t":
            leaves = set().union(*[tr.operand(a) for a in st["args"]]) if st["args"] else set()
            if callee_def(st).endswith("Value::undefined"):
                ok = b.dominates(s["context"], bb) and not any(x in b.reach_from(bb) for x in s.values())
                rep.add("C03.SCOPE", "C03.SCOPE:get_value:fallback-undefined", ok, b.where(bb), "Undefined is answered only after the context lookup missed, and ends the search"
                        + ("" if ok else " — VIOLATED"))
                continue
        else:
            leaves = tr._rv(st["rv"], (), set(), 0, bb, idx)
        if idx == "t" and callee_def(st).rsplit("::", 1)[-1] in ("unwrap_or_else", "unwrap_or", "unwrap_or_default") and st["args"]:
            # `<lookup>.cloned().unwrap_or_else(Value::undefined)`: the answer of the lookup, Undefined otherwise
            leaves = tr.operand(st["args"][0])
            if any(a["k"] == "const" and str(a.get("fn", "")).endswith("Value::undefined") for a in st["args"][1:]):
                undefined_tail.append(bb)
        leaves = through(tr, leaves)
        # `<lookup>.or_else(|| <next scope's lookup>)`: the receiver's hit is the answer, the closure runs only on a miss (lazy)
        for _ in range(3):
            more = set()
            for l in leaves:
                if l.kind == "call" and l.detail[2] in lazy_fallbacks:
                    more |= through(tr, tr.operand(lazy_fallbacks[l.detail[2]]["args"][0]))
            if more <= leaves:
                break
            leaves = leaves | more
        srcs = {k for k in order for l in leaves if l.kind == "call" and l.detail[2] == s[k]}
        if len(srcs) == 2 and any(l.kind == "call" and l.detail[2] in lazy_fallbacks for l in leaves):
            first, second = sorted(srcs, key=order.index)
            chained = s[second] in lazy_fallbacks and any(l.kind == "call" and l.detail[2] == s[first]
                                                          for l in through(tr, tr.operand(lazy_fallbacks[s[second]]["args"][0])))
            if chained and order.index(second) == order.index(first) + 1:
                seen_from |= {first, second}
                rep.ok("C03.SCOPE", "C03.SCOPE:get_value:hit-returns:%s" % first, b.where(bb), "a hit in the %s scope is the receiver of or_else: the %s lookup "
                       "runs only on a miss" % (first, second))
                rep.ok("C03.SCOPE", "C03.SCOPE:get_value:hit-returns:%s" % second, b.where(bb), "a hit in the %s scope is returned without consulting another scope" % second)
                continue
        if len(srcs) != 1:
            rep.bad("C03.SCOPE", "C03.SCOPE:get_value:return-source", b.where(bb), "a return value of get_value does not come from exactly one scope lookup: %s"
                    % sorted(leaf_str(l) for l in leaves)[:3])
            continue
        k = next(iter(srcs))
        seen_from.add(k)
        later = [o for o in order if o != k and s[o] in b.reach_from(bb)]
        rep.add("C03.SCOPE", "C03.SCOPE:get_value:hit-returns:%s" % k, not later, b.where(bb), "a hit in the %s scope is returned without consulting another scope" % k
                + ("" if not later else " — VIOLATED: %s still reachable" % later))
    rep.add("C03.SCOPE", "C03.SCOPE:get_value:every-scope-can-answer", seen_from == set(order), b.where(0), "each of the five scopes has a return of its own hit"
            + ("" if seen_from == set(order) else " — VIOLATED: no return from %s" % sorted(set(order) - seen_from)))
    # innermost loop first
    walkers = [t for hb in [b] + helper_bodies for bb, t in hb.calls()
               if callee_def(t).rsplit("::", 1)[-1] in ("next", "find_map", "find", "rfind", "try_fold", "fold", "for_each") and "vm::for_loop::ForLoop" in (t["atys"][0] if t["atys"] else "")]
    ok = bool(walkers) and all(("Rev<" in t["atys"][0]) != callee_def(t).endswith("rfind") for t in walkers)
    rep.add("C03.SCOPE", "C03.SCOPE:get_value:innermost-loop-first", ok, b.where(s["loops"]), "the loop frames are walked in reverse (innermost first)" + ("" if ok else " — VIOLATED"))
    # inside one frame: per-iteration assignments, then the value name, then the key name
    g = crate.one("vm::for_loop::ForLoop::get")
    rep.analysed(g)
    gtr = Tracer(g)
    ctx_get = [bb for bb, t in g.calls() if is_map_get(t) and self_fields(gtr, t["args"][0]) == {(".context",)}]
    val_eq = [bb for bb, t in g.calls() if callee_def(t).endswith("::eq") and any(self_fields(gtr, a) == {(".value_name",)} for a in t["args"])]
    key_eq = [bb for bb, t in g.calls() if callee_def(t).endswith("::eq") and any(x and x[:1] == (".key_name",) for a in t["args"] for x in self_fields(gtr, a))]
    ok = len(ctx_get) == 1 and len(val_eq) == 1 and len(key_eq) == 1
    if ok:
        c, v, k2 = ctx_get[0], val_eq[0], key_eq[0]
        ok = v in g.reach_from(c) and c not in g.reach_from(v) and k2 in g.reach_from(v) and v not in g.reach_from(k2) and g.dominates(v, k2)
        # a hit among the per-iteration assignments returns without looking at the loop variables
        for sb, tgt in some_edges(g, crate, c):
            if v in g.reach_from(tgt) or k2 in g.reach_from(tgt):
                ok = False
    rep.add("C03.SCOPE", "C03.SCOPE:frame:assignments-before-loop-variables", ok, g.where(ctx_get[0]) if ctx_get else g.where(0), "within a loop frame the per-iteration assignments "
            "are consulted before the value name, the value name before the key name, and a hit returns" + ("" if ok else " — VIOLATED"))


# --------------------------------------------------------------------------------------------------------------- STORE

def check_store(crate, rep, cfg):
    sl = crate.one("vm::state::State::<'t>::store_local")
    sg = crate.one("vm::state::State::<'t>::store_global")
    rep.analysed(sl, sg)
    tr = Tracer(sl)
    lasts = [bb for bb, t in sl.calls() if callee_def(t).endswith("::last_mut") and self_fields(tr, t["args"][0]) == {(".for_loops",)}]
    stores = [bb for bb, t in sl.calls() if callee_def(t).endswith("for_loop::ForLoop::store")]
    globs = [bb for bb, t in sl.calls() if callee_def(t).endswith("::store_global")]
    ok = len(lasts) == 1 and len(stores) == 1 and len(globs) == 1
    if ok:
        se = some_edges(sl, crate, lasts[0])
        ok = bool(se) and any(sl.dominates(tgt, stores[0]) for sb, tgt in se) and not any(globs[0] in sl.reach_from(tgt) for sb, tgt in se) \
            and sl.dominates(lasts[0], globs[0])
        # the frame written is the one last_mut() returned
        recv = tr.operand(sl.term(stores[0])["args"][0])
        ok = ok and bool(recv) and all(l.kind == "call" and l.detail[2] == lasts[0] for l in recv)
    rep.add("C03.STORE", "C03.STORE:store_local:innermost-frame-else-render-wide", ok, sl.where(0), "store_local writes into `for_loops.last_mut()` when a loop is active and "
            "calls store_global only when there is none" + ("" if ok else " — VIOLATED"))
    gtr = Tracer(sg)
    ins = [(bb, t) for bb, t in sg.calls() if callee_def(t).endswith("::insert")]
    ok = len(ins) == 1 and self_fields(gtr, ins[0][1]["args"][0]) == {(".set_variables",)}
    if ok:
        t = ins[0][1]
        kl, vl = gtr.operand(t["args"][1]), gtr.operand(t["args"][2])
        ok = all(l.kind == "param" and l.detail == 2 for l in kl) and all(l.kind == "param" and l.detail == 3 for l in vl)
    rep.add("C03.STORE", "C03.STORE:store_global:set_variables", ok, sg.where(0), "store_global inserts (name, value) — its own parameters — into State.set_variables"
            + ("" if ok else " — VIOLATED"))
    writers = [a for a in field_accesses(crate, STATE, "set_variables") if a["kind"] not in ("read",) and not (a["kind"] == "call" and not a["mut"])]
    roots = sorted({crate.root_of(a["body"]).path for a in writers})
    allowed = {"vm::state::State::<'t>::store_global", "vm::state::State::<'t>::new"}
    ok = all(r in allowed or rrec.only_called_from(crate, r, allowed) for r in roots)
    rep.add("C03.STORE", "C03.STORE:set_variables:writers", ok, sg.where(0), "State.set_variables is written only by store_global (and created empty by State::new): %s" % roots
            + ("" if ok else " — VIOLATED"))
    rep.floor("C03.STORE", "writers of State.set_variables [%s]" % cfg, len(writers), 2)
    # per-iteration map: written by ForLoop::store, cleared by advance, created empty
    writers = [a for a in field_accesses(crate, "vm::for_loop::ForLoop", "context") if a["kind"] not in ("read",) and not (a["kind"] == "call" and not a["mut"])]
    roots = sorted({crate.root_of(a["body"]).path for a in writers})
    allowed = {"vm::for_loop::ForLoop::store", "vm::for_loop::ForLoop::advance", "vm::for_loop::ForLoop::new"}
    ok = all(r in allowed or rrec.only_called_from(crate, r, allowed) for r in roots)
    rep.add("C03.STORE", "C03.STORE:frame-context:writers", ok, sg.where(0), "ForLoop.context is written only by store / advance (clear) / new: %s" % roots + ("" if ok else " — VIOLATED"))
    # VM: Set -> store_local, SetGlobal -> store_global, both with the popped value
    vm = crate.one("vm::interpreter::VirtualMachine::<'tera>::interpret")
    vtr = Tracer(vm)
    for variant, callee, other in (("Set", "::store_local", "::store_global"), ("SetGlobal", "::store_global", "::store_local")):
        region = vm_arm(vm, crate, variant)
        calls = [(bb, t) for bb, t in vm.calls(sorted(region)) if callee_def(t).endswith(callee)]
        wrong = [(bb, t) for bb, t in vm.calls(sorted(region)) if callee_def(t).endswith(other)]
        ok = len(calls) == 1 and not wrong
        if ok:
            t = calls[0][1]
            nl = vtr.operand(t["args"][1])
            vl = vtr.operand(t["args"][2])
            ok = all(any(p == "as:" + variant for p in l.projs) for l in nl) and bool(vl) and all(leaf_call_is(l, "vm::stack::Stack::pop") for l in vl)
        rep.add("C03.STORE", "C03.STORE:vm:%s" % variant, ok, vm.where(calls[0][0]) if calls else vm.where(0), "the %s arm calls %s with the opcode's name and the popped value"
                % (variant, callee.strip(":")) + ("" if ok else " — VIOLATED"))
    # compiler: `global` flag -> SetGlobal, else Set (both for `set` and for set-blocks); the emission may sit in compile_node or in a
    # private helper that receives the flag as a parameter fed from the node's `global` field at every call
    n = 0
    for cn in crate.in_files("parsing/compiler.rs"):
        if cn.kind == "const":
            continue
        emis = [(v, w, x) for v, w in (("SetGlobal", True), ("Set", False)) for x in find_aggs(cn, "parsing::instructions::Instruction", v)]
        if not emis:
            continue
        rep.analysed(cn)
        ef = EdgeFacts(cn, crate)
        ctr = Tracer(cn)

        def is_global_flag(place_str):
            if place_str.endswith(".global"):
                return True
            # a bare parameter: every caller passes a `.global` field
            if place_str.startswith("_") and place_str[1:].isdigit() and cn.is_param(int(place_str[1:])):
                pidx = int(place_str[1:])
                calls = [(b2, bb2, t2) for b2 in crate.bodies.values() if b2.kind != "const" for bb2, t2 in b2.calls() if callee_def(t2) == cn.path]
                if not calls:
                    return False
                for b2, bb2, t2 in calls:
                    ls = Tracer(b2).operand(t2["args"][pidx - 1])
                    if not (ls and all(last_field(l.projs) == ".global" for l in ls)):
                        return False
                return True
            return False
        for variant, want, (bb, idx, st) in emis:
            n += 1
            truth = None
            for sb in sorted(cn.reachable):
                t = cn.term(sb)
                if t["k"] != "switch" or not cn.dominates(sb, bb) or sb == bb:
                    continue
                for tgt, fl in ef.facts_for_switch(sb).items():
                    for f in fl:
                        if f[0] == "bool" and is_global_flag(f[1]) and cn.dominates(tgt, bb) and tgt != sb and len(cn.pred[tgt]) == 1:
                            truth = f[2]
            ok = truth is want
            rep.add("C03.STORE", "C03.STORE:compiler:%s#%d" % (variant, n), ok, cn.where(bb, idx), "Instruction::%s is emitted on the `global == %s` edge" % (variant, str(want).lower())
                    + ("" if ok else " — VIOLATED (edge: %s)" % truth))
    rep.floor("C03.STORE", "Set/SetGlobal emissions in the compiler [%s]" % cfg, n, 2)


# --------------------------------------------------------------------------------------------------------------- ITER

def field_assigns(body, field):
    """[(bb, idx, rvalue)] of assignments to self.<field>"""
    out = []
    for bb, idx, st in body.stmts():
        if idx != "t" and st.get("k") == "assign" and pl_projs(st["pl"]) and pl_projs(st["pl"])[-1] == field:
            out.append((bb, idx, st["rv"]))
    return out


def clears_context(crate, h):
    """every path of helper h(&mut self) to return calls clear() on self.context or has just seen it empty"""
    tr = Tracer(h)
    cl = {bb for bb, t in h.calls() if callee_def(t).endswith("::clear") and self_fields(tr, t["args"][0]) == {(".context",)}}
    if not cl:
        return False
    ef = EdgeFacts(h, crate)
    empt = set()
    for sb in sorted(h.reachable):
        if h.term(sb)["k"] != "switch":
            continue
        for tgt, fl in ef.facts_for_switch(sb).items():
            for f in fl:
                if f[0] == "call" and f[1].endswith("::is_empty") and f[3] is True and self_fields(tr, h.term(f[4])["args"][0]) == {(".context",)}:
                    empt.add((sb, tgt))
    reach = h.reach_from(0, removed_blocks=frozenset(cl), removed_edges=frozenset(empt))
    return not any(h.term(x)["k"] == "return" for x in reach)


def check_iter(crate, rep, cfg):
    adv = crate.one("vm::for_loop::ForLoop::advance")
    rep.analysed(adv)
    tr = Tracer(adv)
    steps = [bb for bb, t in adv.calls() if callee_def(t).endswith("for_loop::Loop::advance")]
    clears = {bb for bb, t in adv.calls() if callee_def(t).endswith("::clear") and self_fields(tr, t["args"][0]) == {(".context",)}}
    # ... or a private helper on self that clears it (on every path, or after seeing it empty)
    for bb, t in adv.calls():
        h = crate.bodies.get(callee_def(t))
        if h is not None and h is not adv and t["args"] and is_whole_self(tr, t["args"][0]) and clears_context(crate, h):
            clears.add(bb)
    ef = EdgeFacts(adv, crate)
    empties = set()
    for sb in sorted(adv.reachable):
        if adv.term(sb)["k"] != "switch":
            continue
        for tgt, fl in ef.facts_for_switch(sb).items():
            for f in fl:
                if f[0] == "call" and f[1].endswith("::is_empty") and f[3] is True:
                    ct = adv.term(f[4])
                    if self_fields(tr, ct["args"][0]) == {(".context",)}:
                        # taking the `is_empty() == true` edge discharges the obligation: cut that edge
                        empties.add((sb, tgt))
    ok = len(steps) == 1
    if ok:
        reach = adv.reach_from(steps[0], removed_blocks=frozenset(clears), removed_edges=frozenset(empties))
        leaks = [x for x in reach if adv.term(x)["k"] == "return"]
        ok = not leaks and bool(clears)
    rep.add("C03.ITER", "C03.ITER:advance:clears-iteration-assignments", ok, adv.where(steps[0]) if steps else adv.where(0), "after the counters move to a further element every path "
            "to return clears ForLoop.context (or has just seen it empty): an assignment made in a loop body does not survive the iteration" + ("" if ok else " — VIOLATED"))
    # the counters move exactly when an element was taken and the loop has been entered before (end_ip recorded)
    nxt = [bb for bb, t in adv.calls() if callee_def(t).endswith("Iterator::next")]
    ok = len(nxt) == 1 and len(steps) == 1 and any(adv.dominates(tgt, steps[0]) for sb, tgt in some_edges(adv, crate, nxt[0]))
    rep.add("C03.ITER", "C03.ITER:advance:counts-only-taken-elements", ok, adv.where(0), "Loop::advance runs only on the Some edge of iterator.next()" + ("" if ok else " — VIOLATED"))
    its = field_assigns(adv, ".iterated")
    ok = len(its) == 1 and its[0][2]["k"] == "use" and its[0][2]["op"]["k"] == "const" and str(its[0][2]["op"].get("v")) == "1" and bool(nxt) \
        and any(adv.dominates(tgt, its[0][0]) for sb, tgt in some_edges(adv, crate, nxt[0]))
    rep.add("C03.ITER", "C03.ITER:advance:iterated-flag", ok, adv.where(0), "`iterated` becomes true exactly where an element is taken (for-else relies on it)" + ("" if ok else " — VIOLATED"))
    writers = sorted({crate.root_of(a["body"]).path for a in field_accesses(crate, "vm::for_loop::ForLoop", "iterated")
                      if a["kind"] not in ("read",) and not (a["kind"] == "call" and not a["mut"])})
    allowed = {"vm::for_loop::ForLoop::advance", "vm::for_loop::ForLoop::new"}
    ok = all(r in allowed or rrec.only_called_from(crate, r, allowed) for r in writers)
    rep.add("C03.ITER", "C03.ITER:iterated:writers", ok, adv.where(0), "ForLoop.iterated is written only by advance and new: %s" % writers + ("" if ok else " — VIOLATED"))
    # counter arithmetic
    la = crate.one("vm::for_loop::Loop::advance")
    li = crate.one("vm::for_loop::Loop::index")
    rep.analysed(la, li)
    ltr = Tracer(la)

    def one_rv(body, field):
        fa = field_assigns(body, field)
        return fa[0] if len(fa) == 1 else None
    a0 = one_rv(la, ".index0")
    ok = False
    if a0:
        leaves = Tracer(la)._rv(a0[2], (), set(), 0, a0[0], a0[1])
        ok = bool(leaves) and all(l.kind == "op" and l.detail[1] in ("Add", "AddWithOverflow") for l in leaves)
        # operands: self.index0 and the constant 1
        for (b2, i2, dp, rv) in [(bb, idx, None, st["rv"]) for bb, idx, st in la.stmts() if idx != "t" and st.get("k") == "assign" and st["rv"]["k"] == "bin"
                                 and st["rv"]["op"] in ("Add", "AddWithOverflow")]:
            ok = ok and is_self_field(ltr, rv["l"], ".index0") and rv["r"]["k"] == "const" and str(rv["r"].get("v")) == "1"
    rep.add("C03.ITER", "C03.ITER:counters:index0+=1", ok, la.where(0), "Loop::advance sets index0 = index0 + 1" + ("" if ok else " — VIOLATED"))
    a1 = one_rv(la, ".first")
    ok = bool(a1) and a1[2]["k"] == "use" and a1[2]["op"]["k"] == "const" and str(a1[2]["op"].get("v")) == "0"
    rep.add("C03.ITER", "C03.ITER:counters:first=false", ok, la.where(0), "Loop::advance sets first = false" + ("" if ok else " — VIOLATED"))
    a2 = one_rv(la, ".last")
    ok = False
    if a2:
        # last = (self.index() == self.length)
        src = a2[2]
        leaves = ltr._rv(src, (), set(), 0, a2[0], a2[1])
        ok = bool(leaves) and all(l.kind == "op" and l.detail[1] == "Eq" for l in leaves)
        eqs = [st["rv"] for bb, idx, st in la.stmts() if idx != "t" and st.get("k") == "assign" and st["rv"]["k"] == "bin" and st["rv"]["op"] == "Eq"]
        ok = ok and len(eqs) == 1
        if ok:
            sides = [ltr.operand(eqs[0]["l"]), ltr.operand(eqs[0]["r"])]
            is_index = lambda ls: bool(ls) and all(leaf_call_is(l, "vm::for_loop::Loop::index") for l in ls)
            is_len = lambda ls: bool(ls) and all(l.kind == "param" and last_field(l.projs) == ".length" for l in ls)
            ok = (is_index(sides[0]) and is_len(sides[1])) or (is_index(sides[1]) and is_len(sides[0]))
        # and it is evaluated after index0 moved
        if ok and a0:
            ok = la.dominates(a0[0], a2[0]) and (a0[0] != a2[0] or a0[1] < a2[1])
    rep.add("C03.ITER", "C03.ITER:counters:last=(index==length)", ok, la.where(0), "Loop::advance sets last = (index() == length) after moving index0" + ("" if ok else " — VIOLATED"))
    adds = [st["rv"] for bb, idx, st in li.stmts() if idx != "t" and st.get("k") == "assign" and st["rv"]["k"] == "bin"]
    itr = Tracer(li)
    ok = len(adds) == 1 and adds[0]["op"] in ("Add", "AddWithOverflow") and adds[0]["r"]["k"] == "const" and str(adds[0]["r"].get("v")) == "1" \
        and is_self_field(itr, adds[0]["l"], ".index0")
    rep.add("C03.ITER", "C03.ITER:counters:index=index0+1", ok, li.where(0), "Loop::index() is index0 + 1" + ("" if ok else " — VIOLATED"))
    # initial counters in ForLoop::new
    nw = crate.one("vm::for_loop::ForLoop::new")
    rep.analysed(nw)
    aggs = list(find_aggs(nw, "vm::for_loop::Loop"))
    ok = len(aggs) == 1
    if ok:
        bb, idx, st = aggs[0]
        ops = st["rv"]["ops"]
        adt = crate.adts["vm::for_loop::Loop"]
        names = [f["n"] for f in adt.fields()]
        byname = dict(zip(names, ops))
        ntr = Tracer(nw)
        c = lambda o, v: o["k"] == "const" and str(o.get("v")) == v
        ok = c(byname["index0"], "0") and c(byname["first"], "1")
        ll = ntr.operand(byname["last"])
        ok = ok and bool(ll) and all(l.kind == "op" and l.detail[1] == "Eq" for l in ll)
        eqs = [s2["rv"] for b2, i2, s2 in nw.stmts() if i2 != "t" and s2.get("k") == "assign" and s2["rv"]["k"] == "bin" and s2["rv"]["op"] == "Eq"]
        ok = ok and len(eqs) == 1 and ((eqs[0]["r"]["k"] == "const" and str(eqs[0]["r"].get("v")) == "1") or (eqs[0]["l"]["k"] == "const" and str(eqs[0]["l"].get("v")) == "1"))
        # length and the compared value are the same local
        if ok:
            other = eqs[0]["l"] if eqs[0]["r"]["k"] == "const" else eqs[0]["r"]
            ok = ntr.operand(other) == ntr.operand(byname["length"])
    rep.add("C03.ITER", "C03.ITER:counters:initial", ok, nw.where(0), "ForLoop::new starts with index0 = 0, first = true, last = (length == 1), the same length in both"
            + ("" if ok else " — VIOLATED"))


def check_exact_len(crate, rep, cfg):
    """C03.ITER — loop.length / loop.last rest on ForLoop::new reading the iterator's size_hint().1 as THE length: every answer of
    ForLoopIterator::size_hint (and of its private helper) is an exact pair `(n, Some(n))` with one and the same n, or is delegated to an
    exact std iterator (map / vec IntoIter); for strings n counts characters (or graphemes), not bytes."""
    sh = crate.one("<vm::for_loop::ForLoopIterator as std::iter::Iterator>::size_hint")
    rep.analysed(sh)
    n = 0

    def exact_pairs(b):
        nonlocal n
        tr = Tracer(b)
        out = []
        for bb, idx, st in b.stmts():
            if idx != "t" and st.get("k") == "assign" and st["pl"]["l"] == 0 and not st["pl"]["p"] and st["rv"]["k"] == "agg" and st["rv"].get("ak") == "tuple":
                n += 1
                lo = {(l.kind, l.detail, tuple(p for p in l.projs if p.startswith((".", "as:")))) for l in tr.operand(st["rv"]["ops"][0])}
                hi = {(l.kind, l.detail, tuple(p for p in l.projs if p.startswith((".", "as:")))) for l in through(tr, tr.operand(st["rv"]["ops"][1]))}
                out.append((bb, idx, bool(lo) and lo == hi))
        return out
    bad = [b_ for b_ in exact_pairs(sh) if not b_[2]]
    deleg = []
    for bb, t in sh.calls():
        if t["dest"]["l"] == 0:
            cd = callee_def(t)
            h = crate.bodies.get(cd)
            if h is not None:
                bad += [x for x in exact_pairs(h) if not x[2]]
                deleg.append(cd.rsplit("::", 1)[-1])
            elif cd.endswith("Iterator::size_hint") and any(x in (t["atys"][0] if t["atys"] else "") for x in ("IntoIter", "btree_map", "hash_map", "indexmap", "vec::")):
                deleg.append("std:" + (t["atys"][0] if t["atys"] else "")[:40])
            else:
                bad.append((bb, "t", False))
    rep.add("C03.ITER", "C03.ITER:size_hint:exact", not bad, sh.where(bad[0][0]) if bad else sh.where(0), "every answer of ForLoopIterator::size_hint is `(n, Some(n))` with the same n "
            "(%d pairs) or delegated to an exact std iterator / the private helper %s: ForLoop::new may read it as the length" % (n, sorted(set(deleg)))
            + ("" if not bad else " — VIOLATED: lower and upper bound differ: loop.length / loop.last are wrong"))
    # strings: the count is a count of characters / graphemes
    cs = crate.one("vm::for_loop::ForLoopIterator::create_string_iterator")
    rep.analysed(cs)
    ctr = Tracer(cs)
    ok = False
    shown = "no character count found"
    for bb, idx, st in find_aggs(cs, "vm::for_loop::ForLoopIterator"):
        v = st["rv"]["variant"]
        adt = crate.adts["vm::for_loop::ForLoopIterator"]
        byname = dict(zip([f["n"] for f in adt.fields(v)], st["rv"]["ops"]))
        if "remaining" in byname:
            ls = ctr.operand(byname["remaining"])
            ok = bool(ls) and all(l.kind == "call" and l.detail[0].endswith("Iterator::count") and "Chars" in (cs.term(l.detail[2])["atys"][0] if cs.term(l.detail[2])["atys"] else "")
                                  for l in ls)
            shown = "String.remaining = chars().count()"
        elif "ranges" in byname:
            ls = ctr.operand(byname["ranges"])
            ok = bool(ls) and all(l.kind == "call" and l.detail[0].endswith("Iterator::collect") for l in ls) and \
                any("grapheme_indices" in callee_def(t) for b2, t in cs.calls())
            shown = "Graphemes.ranges = grapheme_indices(..).collect() (one range per grapheme)"
    rep.add("C03.ITER", "C03.ITER:string-length-in-chars", ok, cs.where(0), "the length of a string loop counts characters / graphemes: %s" % shown + ("" if ok else " — VIOLATED"))


# --------------------------------------------------------------------------------------------------------------- LOOPVAR

LOOP_ATTRS = ("index", "index0", "first", "last", "length")


def check_loopvar(crate, rep, cfg):
    g = crate.one("vm::for_loop::ForLoop::get")
    gtr = Tracer(g)
    table = {}
    for bb, lit, tt, ff in str_tests(g):
        if not lit.startswith("__tera_loop_"):
            continue
        srcs = set()
        for b2, i2, st in find_aggs(g, "std::option::Option", "Some"):
            if g.dominates(tt, b2):
                for l in gtr.operand(st["rv"]["ops"][0]):
                    if l.kind == "call" and leaf_call_is(l, "vm::for_loop::Loop::index"):
                        srcs.add("index()")
                    elif l.kind == "param" and l.detail == 1 and ".loop_data" in l.projs:
                        srcs.add(last_field(l.projs).lstrip("."))
                    else:
                        srcs.add("?" + leaf_str(l))
        table[lit] = srcs
    want = {"__tera_loop_index": {"index()"}, "__tera_loop_index0": {"index0"}, "__tera_loop_first": {"first"}, "__tera_loop_last": {"last"}, "__tera_loop_length": {"length"}}
    for name, w in want.items():
        ok = table.get(name) == w
        rep.add("C03.LOOPVAR", "C03.LOOPVAR:vm:%s" % name, ok, g.where(0), "ForLoop::get answers `%s` with the loop counter %s" % (name, sorted(w)[0])
                + ("" if ok else " — VIOLATED: answers with %s" % sorted(table.get(name) or ["nothing"])))
    extra = sorted(set(table) - set(want))
    rep.add("C03.LOOPVAR", "C03.LOOPVAR:vm:no-other-internal-names", not extra, g.where(0), "no other `__tera_loop_*` name is answered" + ("" if not extra else " — VIOLATED: %s" % extra))
    # parser: loop.X -> __tera_loop_X
    found = {}
    for b in crate.in_files("parsing/parser.rs"):
        if b.kind == "const":
            continue
        tests = [(bb, lit, tt, ff) for bb, lit, tt, ff in str_tests(b) if lit in LOOP_ATTRS]
        if len({lit for _, lit, _, _ in tests}) < 5:
            continue
        for bb, lit, tt, ff in tests:
            outs = set()
            for b2, i2, st in b.stmts(sorted(b.reach_from(tt))):
                if i2 != "t" and st.get("k") == "assign":
                    for op in iter_operands(st):
                        c = const_of(b, op) if op["k"] != "const" else op
                        if c and isinstance(c.get("s"), str) and c["s"].startswith("__tera_loop_") and b.dominates(tt, b2):
                            outs.add(c["s"])
            found.setdefault(lit, set()).update(outs)
        rep.analysed(b)
    for a in LOOP_ATTRS:
        ok = found.get(a) == {"__tera_loop_" + a}
        rep.add("C03.LOOPVAR", "C03.LOOPVAR:parser:loop.%s" % a, ok, "tera/src/parsing/parser.rs", "the parser rewrites `loop.%s` to `__tera_loop_%s`" % (a, a)
                + ("" if ok else " — VIOLATED: %s" % sorted(found.get(a) or ["not found"])))
    rep.floor("C03.LOOPVAR", "loop attribute names rewritten by the parser [%s]" % cfg, len(found), 5)


def check_load_name(crate, rep, cfg):
    """C03.SCOPE — a plain variable read IS the scope chain: State::load_name pushes get_value(name) (or the context dump for the magic
    name) on every path — no shortcut that answers from one scope directly (it would skip the scopes before it: loops, assignments, the
    includer). The fused path instructions call get_value themselves (C09.FUSED), so the two agree."""
    b = crate.one("vm::state::State::<'t>::load_name")
    rep.analysed(b)
    tr = Tracer(b)
    pushes = [(bb, t) for bb, t in b.calls() if callee_def(t).endswith("stack::Stack::push")]
    ok = bool(pushes)
    why = "no push"
    for bb, t in pushes:
        ls = [l for l in tr.operand(t["args"][1]) if l.kind != "cycle"]
        if not (ls and all(l.kind == "call" and (l.detail[0].endswith("::get_value") or l.detail[0].endswith("::dump_context")) for l in ls)):
            ok, why = False, "a pushed value comes from %s" % sorted(leaf_str(l) for l in ls)[:2]
    gv = [(bb, t) for bb, t in b.calls() if callee_def(t).endswith("::get_value")]
    if ok and gv:
        al = [l for l in tr.operand(gv[0][1]["args"][1]) if l.kind != "cycle"]
        ok = bool(al) and all(l.kind == "param" and l.detail == 2 for l in al)
        why = "get_value is not asked for the name itself"
    ok = ok and len(gv) == 1
    rep.add("C03.SCOPE", "C03.SCOPE:load_name:always-the-scope-chain", ok, b.where(pushes[0][0]) if pushes else b.where(0), "State::load_name pushes get_value(name) / dump_context() and "
            "nothing else" + ("" if ok else " — VIOLATED: " + why))


def check_in_loop(crate, rep, cfg):
    """C03.LOOPVAR — `loop.*` means the innermost enclosing for loop wherever it is used inside that loop's body, including inside a
    set block / filter section / component body nested in it (those only stop break/continue). So the parser's `is_in_loop` is a pure
    membership test — is ANY enclosing body a for loop — and the rewrite of `loop.X` happens only under it."""
    import json as _json
    b = crate.one("parsing::parser::Parser::<'a>::is_in_loop")
    rep.analysed(b)
    bodies = crate.with_closures(b)
    tr = Tracer(b, transparent=set(TRANSPARENT_CALLS) | {"core::slice::<impl [T]>::iter", "std::iter::Iterator::rev", "std::iter::Iterator::copied", "std::iter::Iterator::cloned"})
    ret = tr.place({"l": 0, "p": []})
    ok = bool(ret)
    why = "no result"
    for l in ret:
        if not (l.kind == "call" and l.detail[0].endswith(("<impl [T]>::contains", "Iterator::any"))):
            ok = False
            why = "the answer is %s, not a membership test (contains / any) over the enclosing bodies" % leaf_str(l)
            continue
        rl = tr.operand(b.term(l.detail[2])["args"][0])
        if not rl or not all(x.kind == "param" and x.detail == 1 and ".body_contexts" in x.projs for x in rl):
            ok = False
            why = "the membership test is not over self.body_contexts"
    mentioned = set()

    def walk(o):
        if isinstance(o, dict):
            for v in o.get("pagg") or []:
                if "BodyContext::" in v:
                    mentioned.add(v.rsplit("::", 1)[-1])
            if o.get("k") == "agg" and str(o.get("adt", "")).endswith("BodyContext"):
                mentioned.add(o.get("variant"))
            for v in o.values():
                walk(v)
        elif isinstance(o, list):
            for v in o:
                walk(v)
    for x in bodies:
        for bb, idx, st in x.stmts():
            walk(st)
    if ok and mentioned != {"ForLoop"}:
        ok = False
        why = "the test looks at %s (only ForLoop decides)" % sorted(mentioned)
    rep.add("C03.LOOPVAR", "C03.LOOPVAR:parser:in-loop-is-any-enclosing-for", ok, b.where(0), "Parser::is_in_loop is `body_contexts` contains/any ForLoop — a capture between the loop and "
            "the use does not hide `loop.*`" + ("" if ok else " — VIOLATED: " + why))
    # the rewrite is under is_in_loop()
    n = 0
    for pb in crate.in_files("parsing/parser.rs"):
        if pb.kind == "const":
            continue
        tests = [(bb, lit, tt, ff) for bb, lit, tt, ff in str_tests(pb) if lit in LOOP_ATTRS]
        if len({lit for _, lit, _, _ in tests}) < 5:
            continue
        gates = [bb for bb, t in pb.calls() if callee_def(t).endswith("Parser::<'a>::is_in_loop")]
        for bb, lit, tt, ff in tests:
            n += 1
            g_ok = False
            for g in gates:
                nxt = pb.term(g).get("t")
                sw = nxt
                while sw is not None and pb.term(sw)["k"] == "goto":
                    sw = pb.term(sw)["t"]
                if sw is None or pb.term(sw)["k"] != "switch":
                    continue
                t = pb.term(sw)
                zero = [tgt for v, tgt in t["targets"] if str(v) == "0"]
                truthy = [x for x in pb.succ[sw] if x not in zero]
                if len(truthy) == 1 and pb.dominates(truthy[0], bb) and truthy[0] != sw:
                    g_ok = True
            rep.add("C03.LOOPVAR", "C03.LOOPVAR:parser:loop.%s:only-in-a-loop" % lit, g_ok, pb.where(bb), "`loop.%s` is rewritten only on the true edge of is_in_loop()" % lit
                    + ("" if g_ok else " — VIOLATED"))
    rep.floor("C03.LOOPVAR", "loop attribute rewrites gated by is_in_loop [%s]" % cfg, n, 5)


# --------------------------------------------------------------------------------------------------------------- INCL

STATE_FIELDS = {
    # field of vm::state::State -> what it holds (the render-time mutable state; a new field is new hidden state and must be reviewed)
    "stack": "operand stack of the VM", "chunk": "chunk being executed", "for_loops": "active loop frames (innermost last)",
    "set_variables": "render-wide assignments", "context": "the caller's context (shared ref)", "global_context": "engine globals (root state only)",
    "capture_buffers": "open capture buffers (innermost last)", "escape_buffer": "scratch for escaping, cleared before each use",
    "include_parent": "the includer's state (shared ref)", "capture_block": "block requested by render_block", "block_buffer": "text of that block",
    "blocks": "active block stack (name, lineage, level)", "current_block_name": "innermost active block", "filters": "registered filters (shared ref)",
}


def check_state_fields(crate, rep, cfg):
    adt = crate.adts.get(STATE)
    if adt is None:
        raise AnchorMissing("struct vm::state::State")
    have = {f["n"] for f in adt.fields()}
    extra, gone = sorted(have - set(STATE_FIELDS)), sorted(set(STATE_FIELDS) - have)
    rep.add("C03.STATE", "C03.STATE:fields-reviewed", not extra, "tera/src/vm/state.rs", "the render-time state consists of the reviewed fields (%d): nothing else can carry a value "
            "from one instruction, iteration, block or include to another" % len(have) + ("" if not extra else " — VIOLATED: unreviewed field(s) %s: new hidden state (a cache / memo "
                                                                                     "here makes the output depend on what was rendered before)" % extra))
    rep.add("C03.STATE", "C03.STATE:fields-present", len(gone) <= 2, "tera/src/vm/state.rs", "reviewed fields still present" + ("" if not gone else " (gone: %s)" % gone))


def check_incl(crate, rep, cfg):
    ri = crate.one("vm::interpreter::VirtualMachine::<'tera>::render_include")
    rep.analysed(ri)
    # the includer's state arrives as a shared reference
    ptys = [ri.local_ty(i) for i in range(1, ri.arg_count + 1)]
    st = [t for t in ptys if "vm::state::State" in t]
    ok = len(st) == 1 and st[0].startswith("&") and not st[0].startswith("&mut")
    rep.add("C03.INCL", "C03.INCL:render_include:includer-state-shared", ok, ri.where(0), "render_include receives the includer's State as `&State` (%s): the included template "
            "cannot assign into it" % (st[0][:60] if st else "missing") + ("" if ok else " — VIOLATED"))
    # ... and State has no interior mutability
    from props import c18
    cells = c18.unsafe_cell_paths(crate, STATE)
    if cells is None:
        raise AnchorMissing("type-graph root vm::state::State")
    rep.add("C03.INCL", "C03.INCL:State:no-interior-mutability", not cells, ri.where(0), "no Cell/RefCell/Mutex/atomic is reachable from vm::state::State through owned fields or "
            "shared references, so `&State` is read-only" + ("" if not cells else " — VIOLATED: %s" % cells[:3]))
    tr = Tracer(ri)
    news = list(find_calls(ri, ["vm::state::State::<'t>::new_with_chunk", "vm::state::State::<'t>::new"]))
    ok = len(news) == 1
    rep.add("C03.INCL", "C03.INCL:render_include:fresh-state", ok, ri.where(0), "the included template runs on a State created by State::new* (empty assignments, no loops)"
            + ("" if ok else " — VIOLATED: %d constructions" % len(news)))
    # include_parent = Some(includer's state)
    ws = [(bb, idx, rv) for bb, idx, rv in field_assigns(ri, ".include_parent")]
    ok = len(ws) == 1
    if ok:
        leaves = through(tr, tr._rv(ws[0][2], (), set(), 0, ws[0][0], ws[0][1]))
        sp = [i for i in range(1, ri.arg_count + 1) if "vm::state::State" in ri.local_ty(i)]
        ok = bool(leaves) and bool(sp) and all(l.kind == "param" and l.detail == sp[0] and last_field(l.projs) is None for l in leaves)
    rep.add("C03.INCL", "C03.INCL:render_include:parent-link", ok, ri.where(0), "the child's include_parent is the includer's own State (so the include reads the includer's "
            "current variables)" + ("" if ok else " — VIOLATED"))
    # the context handed to the child: the includer's context
    if news:
        bb, t = news[0]
        leaves = tr.operand(t["args"][0])
        sp = [i for i in range(1, ri.arg_count + 1) if "vm::state::State" in ri.local_ty(i)]
        ok = bool(leaves) and bool(sp) and all(l.kind == "param" and l.detail == sp[0] and ".context" in l.projs for l in leaves)
        rep.add("C03.INCL", "C03.INCL:render_include:context", ok, ri.where(bb), "the child State is created over the includer's render context" + ("" if ok else " — VIOLATED: %s"
                % sorted(leaf_str(l) for l in leaves)[:2]))
    # VM Include arm: writes into the innermost capture buffer when one is open
    vm = crate.one("vm::interpreter::VirtualMachine::<'tera>::interpret")
    region = vm_arm(vm, crate, "Include")
    vtr = Tracer(vm)
    calls = [(bb, t) for bb, t in vm.calls(sorted(region)) if callee_def(t).endswith("::render_include")]
    ef = EdgeFacts(vm, crate)
    n_direct = n_capt = 0
    ltr = Tracer(vm, transparent=set(TRANSPARENT_CALLS) | {"core::slice::<impl [T]>::last_mut", "core::slice::<impl [T]>::last", "std::option::Option::<T>::map"})
    for bb, t in calls:
        outl = vtr.operand(t["args"][-1])
        empty_truth = None
        for sb in sorted(region):
            if vm.term(sb)["k"] != "switch" or not vm.dominates(sb, bb):
                continue
            for tgt, fl in ef.facts_for_switch(sb).items():
                for f in fl:
                    if f[0] == "call" and f[1].endswith("::is_empty") and vm.dominates(tgt, bb) and tgt != sb:
                        ct = vm.term(f[4])
                        pl = [l for l in vtr.operand(ct["args"][0]) if l.kind == "param"]
                        if pl and all(last_field(l.projs) == ".capture_buffers" for l in pl):
                            empty_truth = f[3]
                    if f[0] == "variant" and f[1] == "std::option::Option" and f[4] and len(f[3]) == 1 and vm.dominates(tgt, bb) and tgt != sb:
                        # `match capture_buffers.last_mut().map(take) { None => .., Some(buf) => .. }`: None <=> no capture open
                        d = ef.single_def(vm.term(sb)["op"]["pl"]["l"]) if not vm.term(sb)["op"]["pl"]["p"] else None
                        if d and d[3]["k"] == "discr":
                            ll = [l for l in ltr.place(d[3]["pl"]) if l.kind == "param"]     # (flow-insensitive: take() results stored back)
                            if ll and all(".capture_buffers" in l.projs for l in ll):
                                empty_truth = (set(f[3]) == {"None"})
        to_output = bool(outl) and all(l.kind == "param" and "Write" in vm.local_ty(l.detail) for l in outl)
        if empty_truth is True and to_output:
            n_direct += 1
        elif empty_truth is False and not to_output:
            # the buffer handed over is taken from capture_buffers[len - 1] and stored back
            n_capt += 1
    ok = n_direct == 1 and n_capt == 1 and len(calls) == 2
    rep.add("C03.INCL", "C03.INCL:vm:include-target", ok, vm.where(calls[0][0]) if calls else vm.where(0), "the Include arm renders straight to the output only when no capture is "
            "open, and into a buffer otherwise (%d direct, %d captured, %d calls)" % (n_direct, n_capt, len(calls)) + ("" if ok else " — VIOLATED"))
    if n_capt:
        # the taken buffer is the LAST capture buffer and is put back at the same index
        idxs = [(bb, t) for bb, t in vm.calls(sorted(region)) if callee_def(t) in ("std::ops::IndexMut::index_mut", "std::ops::Index::index")
                and "Vec<std::vec::Vec<u8>>" in (t["atys"][0] if t["atys"] else "")]
        good = len(idxs) >= 2
        for bb, t in idxs:
            il = vtr.operand(t["args"][1])
            good = good and bool(il) and all(l.kind == "op" and l.detail[1] in ("Sub", "SubWithOverflow") for l in il)
        if not idxs:
            # the same through last_mut(): taken from and stored back through `capture_buffers.last_mut()` (at least twice: take, put back)
            lms = [(bb, t) for bb, t in vm.calls(sorted(region)) if callee_def(t).endswith("<impl [T]>::last_mut")
                   and (lambda ls: bool(ls) and all(".capture_buffers" in l.projs for l in ls))([l for l in ltr.operand(t["args"][0]) if l.kind == "param"])]
            firsts = [1 for bb, t in vm.calls(sorted(region)) if callee_def(t).rsplit("::", 1)[-1] in ("first_mut", "first", "get_mut", "get", "iter_mut")
                      and any(".capture_buffers" in l.projs for l in ltr.operand(t["args"][0]))]
            good = len(lms) >= 2 and not firsts
        rep.add("C03.INCL", "C03.INCL:vm:include-innermost-capture", good, vm.where(idxs[0][0]) if idxs else vm.where(0), "the buffer used for a captured include is "
                "capture_buffers[len - 1] (innermost), taken and stored back at the same index (%d accesses)" % len(idxs) + ("" if good else " — VIOLATED"))


# --------------------------------------------------------------------------------------------------------------- JUMP

def check_jump(crate, rep, cfg):
    cn = crate.one("parsing::compiler::Compiler::compile_node")
    ctr = Tracer(cn)
    # continue -> Jump(idx of the innermost Loop body being compiled)
    gcl = crate.one("parsing::compiler::Compiler::get_current_loop")
    rep.analysed(gcl)
    revs = [t for bb, t in gcl.calls() if callee_def(t).endswith("Iterator::rev")]
    finds = [t for bb, t in gcl.calls() if callee_def(t).endswith("Iterator::find") or callee_def(t).endswith("::rfind")]
    rfind = [t for t in finds if callee_def(t).endswith("::rfind")]
    ok = (bool(revs) and bool(finds)) or bool(rfind)
    ok = ok and all("Rev<" in (t["atys"][0] if t["atys"] else "") for t in finds if not callee_def(t).endswith("::rfind"))
    rep.add("C03.JUMP", "C03.JUMP:compiler:current-loop-is-innermost", ok, gcl.where(0), "get_current_loop searches processing_bodies from the back (innermost first)"
            + ("" if ok else " — VIOLATED"))
    region = node_arm(cn, crate, "Continue")
    jumps = [(bb, idx, st) for bb, idx, st in find_aggs(cn, "parsing::instructions::Instruction", "Jump") if bb in region]
    ok = len(jumps) == 1
    if ok:
        bb, idx, st = jumps[0]
        leaves = through(ctr, ctr.operand(st["rv"]["ops"][0]))
        ok = bool(leaves) and all(l.kind == "call" and leaf_call_is(l, "parsing::compiler::Compiler::get_current_loop") and "as:Loop" in l.projs for l in leaves)
    rep.add("C03.JUMP", "C03.JUMP:compiler:continue-target", ok, cn.where(jumps[0][0]) if jumps else cn.where(0), "`continue` compiles to Jump(start of the loop returned by "
            "get_current_loop())" + ("" if ok else " — VIOLATED"))
    region = node_arm(cn, crate, "Break")
    brs = [(bb, idx, st) for bb, idx, st in find_aggs(cn, "parsing::instructions::Instruction", "Break") if bb in region]
    others = [(bb, idx, st) for bb, idx, st in find_aggs(cn, "parsing::instructions::Instruction") if bb in region and st["rv"]["variant"] != "Break"
              and cn.dominates(min(region), bb)]
    rep.add("C03.JUMP", "C03.JUMP:compiler:break-opcode", len(brs) == 1, cn.where(brs[0][0]) if brs else cn.where(0), "`break` compiles to Instruction::Break"
            + ("" if len(brs) == 1 else " — VIOLATED"))
    # VM: Break -> ip = for_loops.last*.end_ip ; StoreDidNotIterate -> !iterated() of the innermost loop ; Iterate: over -> ip = payload
    vm = crate.one("vm::interpreter::VirtualMachine::<'tera>::interpret")
    vtr = Tracer(vm)
    from props.c02 import ip_locals
    ips = ip_locals(vm)

    def last_call_ok(l):
        return l.kind == "call" and (leaf_call_is(l, "core::slice::<impl [T]>::last_mut") or leaf_call_is(l, "core::slice::<impl [T]>::last")
                                     or l.detail[0].endswith("::last_mut") or l.detail[0].endswith("::last"))
    region = vm_arm(vm, crate, "Break")
    asg = [(bb, idx, st) for bb, idx, st in vm.stmts(sorted(region)) if idx != "t" and st.get("k") == "assign" and not st["pl"]["p"] and st["pl"]["l"] in ips]
    ok = len(asg) == 1
    if ok:
        leaves = vtr._rv(asg[0][2]["rv"], (), set(), 0, asg[0][0], asg[0][1])
        ok = bool(leaves) and all(last_call_ok(l) and l.projs and l.projs[-1] == ".end_ip" for l in leaves)
        for l in leaves:
            if l.kind == "call":
                recv = vtr.operand(vm.term(l.detail[2])["args"][0])
                ok = ok and all(".for_loops" in r.projs for r in recv)
    rep.add("C03.JUMP", "C03.JUMP:vm:break-innermost", ok, vm.where(asg[0][0]) if asg else vm.where(0), "the Break arm sets ip to the end_ip of `for_loops.last*()` (the innermost "
            "running loop)" + ("" if ok else " — VIOLATED"))
    region = vm_arm(vm, crate, "StoreDidNotIterate")
    its = [(bb, t) for bb, t in vm.calls(sorted(region)) if callee_def(t).endswith("ForLoop::iterated")]
    ok = len(its) == 1
    if ok:
        recv = vtr.operand(its[0][1]["args"][0])
        ok = bool(recv) and all(last_call_ok(l) for l in recv)
        # pushed value = Not(iterated())
        pushes = [(bb, t) for bb, t in vm.calls(sorted(region)) if callee_def(t).endswith("Stack::push")]
        ok = ok and len(pushes) == 1
        if ok:
            vl = vtr.operand(pushes[0][1]["args"][1])
            ok = bool(vl) and all(l.kind == "op" and l.detail[1] == "Not" for l in vl)
    rep.add("C03.JUMP", "C03.JUMP:vm:for-else-flag", ok, vm.where(its[0][0]) if its else vm.where(0), "StoreDidNotIterate pushes `!iterated()` of the innermost loop (the else body "
            "runs only when nothing was iterated)" + ("" if ok else " — VIOLATED"))
    # compiler: for-else = StoreDidNotIterate before PopLoop, then PopJumpIfFalse around the else body, only when there is an else body
    region = node_arm(cn, crate, "ForLoop")
    sdn = [bb for bb, idx, st in find_aggs(cn, "parsing::instructions::Instruction", "StoreDidNotIterate") if bb in region]
    pop = [bb for bb, idx, st in find_aggs(cn, "parsing::instructions::Instruction", "PopLoop") if bb in region]
    pjf = [bb for bb, idx, st in find_aggs(cn, "parsing::instructions::Instruction", "PopJumpIfFalse") if bb in region]
    ok = len(sdn) == 1 and len(pop) == 1 and len(pjf) == 1
    if ok:
        ok = pop[0] in cn.reach_from(sdn[0]) and sdn[0] not in cn.reach_from(pop[0]) and pjf[0] in cn.reach_from(pop[0]) and cn.dominates(pop[0], pjf[0])
    rep.add("C03.JUMP", "C03.JUMP:compiler:for-else-sequence", ok, cn.where(sdn[0]) if sdn else cn.where(0), "a for loop with an else body emits StoreDidNotIterate, then PopLoop, then "
            "PopJumpIfFalse around the else body" + ("" if ok else " — VIOLATED"))
    # loop skeleton: Iterate(placeholder) before the body, Jump(start) after it, then the Iterate payload is patched to the loop end
    it = [(bb, idx, st) for bb, idx, st in find_aggs(cn, "parsing::instructions::Instruction", "Iterate") if bb in region]
    jb = [(bb, idx, st) for bb, idx, st in find_aggs(cn, "parsing::instructions::Instruction", "Jump") if bb in region]
    ok = len(it) == 1 and len(jb) == 1
    if ok:
        ok = jb[0][0] in cn.reach_from(it[0][0]) and cn.dominates(it[0][0], jb[0][0]) and pop and cn.dominates(jb[0][0], pop[0])
        leaves = ctr.operand(jb[0][2]["rv"]["ops"][0])
        ok = ok and bool(leaves) and all("as:Loop" in l.projs for l in leaves)
    rep.add("C03.JUMP", "C03.JUMP:compiler:loop-skeleton", ok, cn.where(it[0][0]) if it else cn.where(0), "a for loop emits Iterate, the body, Jump(back to that Iterate — the index "
            "kept in ProcessingBody::Loop), then PopLoop" + ("" if ok else " — VIOLATED"))
    # if / else skeleton
    region = node_arm(cn, crate, "If")
    pj = [(bb, idx, st) for bb, idx, st in find_aggs(cn, "parsing::instructions::Instruction", "PopJumpIfFalse") if bb in region]
    jm = [(bb, idx, st) for bb, idx, st in find_aggs(cn, "parsing::instructions::Instruction", "Jump") if bb in region]
    ce = [bb for bb, t in cn.calls(sorted(region)) if callee_def(t).endswith("Compiler::compile_expr")]
    eb = [bb for bb, t in cn.calls(sorted(region)) if callee_def(t).endswith("Compiler::end_branch")]
    ok = len(pj) == 1 and len(jm) == 1 and len(ce) == 1 and len(eb) == 2
    if ok:
        p, j = pj[0][0], jm[0][0]
        ok = cn.dominates(ce[0], p) and cn.dominates(p, j) and ce[0] != p
        # the Jump over the else body is emitted before the first end_branch (which patches the conditional jump to land after it)
        first_eb = [e for e in eb if cn.dominates(j, e)]
        ok = ok and len(first_eb) >= 1
        # every path from the conditional jump to return passes an end_branch
        reach = cn.reach_from(p, removed_blocks=frozenset(eb))
        ok = ok and not any(cn.term(x)["k"] == "return" for x in reach)
        # and on the else path both the Jump's and the conditional jump's entries are closed: from the Jump, a second end_branch before return
        reach2 = cn.reach_from(j, removed_blocks=frozenset([e for e in eb if not cn.dominates(j, e) or e == max(first_eb, key=lambda x: x)]))
    rep.add("C03.JUMP", "C03.JUMP:compiler:if-skeleton", ok, cn.where(pj[0][0]) if pj else cn.where(0), "an if compiles to: condition, PopJumpIfFalse, body, [Jump over the else body, "
            "patch, else body], patch — the condition is compiled before the conditional jump, the Jump is emitted before the conditional jump is patched, and no path "
            "returns with an unpatched branch" + ("" if ok else " — VIOLATED"))
