"""R-REC — every recursion is bounded. Call graph over resolved callees at call-site granularity, depth-guard
recognition by shape, structural-descent witnesses, reviewed table for the rest.  R-DEPTH.ast — loop-carried wraps."""
import re
from collections import defaultdict

from engine import (Tracer, EdgeFacts, callee_names, callee_def, callee_name, name_matches, pl_str, pl_projs,
                    iter_operands, find_calls)

# trait method dispatch from std generics back into local impls -------------------------------------------------
DISPATCH_TRAITS = {
    "std::cmp::PartialEq": {"eq": "eq", "ne": "eq"},
    "std::cmp::PartialOrd": {"partial_cmp": "partial_cmp", "lt": "partial_cmp", "le": "partial_cmp", "gt": "partial_cmp", "ge": "partial_cmp"},
    "std::cmp::Ord": {"cmp": "cmp", "max": "cmp", "min": "cmp"},
    "std::hash::Hash": {"hash": "hash", "hash_slice": "hash"},
    "std::clone::Clone": {"clone": "clone"},
    "std::fmt::Display": {"fmt": "fmt"},
    "std::fmt::Debug": {"fmt": "fmt"},
    "serde::Serialize": {"serialize": "serialize"},
}
ITER_CMP = {"cmp": ("std::cmp::Ord", "cmp"), "partial_cmp": ("std::cmp::PartialOrd", "partial_cmp"),
            "eq": ("std::cmp::PartialEq", "eq"), "ne": ("std::cmp::PartialEq", "eq"),
            "lt": ("std::cmp::PartialOrd", "partial_cmp"), "le": ("std::cmp::PartialOrd", "partial_cmp"),
            "gt": ("std::cmp::PartialOrd", "partial_cmp"), "ge": ("std::cmp::PartialOrd", "partial_cmp"),
            "max": ("std::cmp::Ord", "cmp"), "min": ("std::cmp::Ord", "cmp")}
# containers whose Clone does not clone the payload
SHALLOW_CLONE = ("std::sync::Arc<", "std::rc::Rc<", "&")
# inherent std generics that call a trait of their element type
# keyed containers: only the key type (first type argument) is compared/hashed
KEYED_DISPATCH = [
    (re.compile(r"^std::collections::(btree_map::|btree_set::|btree::\w+::|)BTree(Set|Map)"), [("std::cmp::Ord", "cmp")]),
    (re.compile(r"^std::collections::(hash_map::|hash_set::|hash::\w+::|)Hash(Set|Map)|^hashbrown::|^indexmap::"), [("std::hash::Hash", "hash"), ("std::cmp::PartialEq", "eq")]),
]
INHERENT_DISPATCH = [
    (re.compile(r"::(sort|sort_unstable|binary_search|is_sorted)$"), [("std::cmp::Ord", "cmp")]),
    (re.compile(r"::(contains|dedup|starts_with|ends_with)$"), [("std::cmp::PartialEq", "eq")]),
    (re.compile(r"^serde::|^serde_core::|^serde_json::"), [("serde::Serialize", "serialize")]),
    (re.compile(r"fmt::rt::Argument::<'_>::new_display|fmt::rt::Argument::new_display"), [("std::fmt::Display", "fmt")]),
    (re.compile(r"fmt::rt::Argument::<'_>::new_debug|fmt::rt::Argument::new_debug"), [("std::fmt::Debug", "fmt")]),
    (re.compile(r"^std::string::ToString::to_string|^<T as std::string::ToString>::to_string"), [("std::fmt::Display", "fmt")]),
    (re.compile(r"^std::sync::Arc::<T>::make_mut|^std::sync::Arc::<T, A>::make_mut"), [("std::clone::Clone", "clone")]),
]


class CallGraph:
    def __init__(self, crate):
        self.crate = crate
        self.local_adts = sorted((a.path for a in crate.adts.values() if a.j.get("local")), key=len, reverse=True)
        # (trait, self type string) -> {method name: fn path}
        self.impl_index = defaultdict(dict)
        for im in crate.impls:
            tr = im.get("trait")
            if not tr:
                continue
            for fn in im["fns"]:
                self.impl_index[(tr, im["self"])][fn.rsplit("::", 1)[-1]] = fn
        self.edges = defaultdict(list)   # root fn path -> list of Edge
        self._build()

    def local_types_in(self, tystr):
        out = []
        for a in self.local_adts:
            # whole-word match of the ADT path
            for m in re.finditer(re.escape(a), tystr):
                s, e = m.span()
                before = tystr[s - 1] if s > 0 else " "
                after = tystr[e] if e < len(tystr) else " "
                if (before.isalnum() or before in "_:") or (after.isalnum() or after == "_"):
                    continue
                out.append(a)
                break
        return out

    def impl_method(self, trait, adt_path, method):
        for (tr, selfty), fns in self.impl_index.items():
            if tr != trait:
                continue
            base = selfty.split("<", 1)[0]
            if base == adt_path and method in fns:
                yield fns[method]

    def dispatch_targets(self, t):
        """local functions a non-local callee may call back into (trait dispatch on local element types)"""
        f = t["f"]
        if f.get("indirect"):
            return []
        if f.get("res_local") or (f.get("local") and f["def"] in self.crate.bodies):
            return []
        out = []
        tystrs = list(f.get("targs", []))
        if f.get("self_ty"):
            tystrs.append(f["self_ty"])
        locals_ = []
        for s in tystrs:
            locals_ += self.local_types_in(s)
        if not locals_:
            return []
        trait = f.get("trait")
        meth = f["def"].rsplit("::", 1)[-1]
        pairs = []
        if trait in DISPATCH_TRAITS and meth in DISPATCH_TRAITS[trait]:
            st = f.get("self_ty", "")
            if not (trait == "std::clone::Clone" and st.startswith(SHALLOW_CLONE)):
                pairs.append((trait, DISPATCH_TRAITS[trait][meth]))
        if trait == "std::iter::Iterator" and meth in ITER_CMP:
            pairs.append(ITER_CMP[meth])
        names = callee_names(t)
        for rx, ps in INHERENT_DISPATCH:
            if any(rx.search(n) for n in names) or rx.search(f.get("inst", "")):
                pairs += ps
        for (tr, m) in pairs:
            for a in set(locals_):
                for fn in self.impl_method(tr, a, m):
                    if fn in self.crate.bodies:
                        out.append(fn)
        for rx, ps in KEYED_DISPATCH:
            if any(rx.search(n) for n in names) and f.get("targs"):
                for a in set(self.local_types_in(f["targs"][0])):
                    for (tr, m) in ps:
                        for fn in self.impl_method(tr, a, m):
                            if fn in self.crate.bodies:
                                out.append(fn)
        return sorted(set(out))

    def _build(self):
        c = self.crate
        for b in c.bodies.values():
            root = c.root_of(b).path
            for bb, t in b.calls():
                f = t["f"]
                if f.get("indirect"):
                    continue
                tgt = None
                if f.get("res_local") and f.get("res") in c.bodies:
                    tgt = f["res"]
                elif f.get("local") and f["def"] in c.bodies:
                    tgt = f["def"]
                if tgt is not None:
                    tb = c.bodies[tgt]
                    if tb.kind == "closure" and c.root_of(tb).path == root:
                        continue   # calling one's own closure is not recursion (its body is attached to the parent)
                    self.edges[root].append(Edge(root, c.root_of(tb).path, b, bb, "call"))
                else:
                    for fn in self.dispatch_targets(t):
                        self.edges[root].append(Edge(root, c.root_of(c.bodies[fn]).path, b, bb, "dispatch:" + callee_def(t)))
            for bb, idx, s in b.stmts():
                for op in iter_operands(s):
                    if op["k"] == "const" and op.get("fn_local") and op.get("fn") in c.bodies:
                        if idx == "t" and s["k"] == "call" and not s["f"].get("indirect") and s["f"]["def"] == op["fn"]:
                            continue
                        self.edges[root].append(Edge(root, c.root_of(c.bodies[op["fn"]]).path, b, bb, "ref"))

    def reachable(self, entries):
        seen = set(entries)
        work = list(entries)
        while work:
            n = work.pop()
            for e in self.edges.get(n, []):
                if e.dst not in seen:
                    seen.add(e.dst)
                    work.append(e.dst)
        return seen


class Edge:
    def __init__(self, src, dst, body, bb, kind):
        self.src, self.dst, self.body, self.bb, self.kind = src, dst, body, bb, kind

    def where(self):
        return self.body.where(self.bb)

    def key(self):
        return "%s->%s" % (self.src, self.dst)

    def __repr__(self):
        return "<%s -> %s @%s %s>" % (self.src, self.dst, self.where(), self.kind)


# depth guards ---------------------------------------------------------------------------------------------------

NOT_EXCEEDING = {  # (op, const side) -> truth value on the edge where "counter within limit"
    ("Gt", "r"): False, ("Ge", "r"): False, ("Lt", "r"): True, ("Le", "r"): True,
    ("Gt", "l"): True, ("Ge", "l"): True, ("Lt", "l"): False, ("Le", "l"): False,
}


def find_guard(body, bb, crate, helpers=True):
    """Is block `bb` (a call site) dominated by the within-limit edge of a counter-against-constant test, the
    counter having been incremented (field or local) or pushed (collection length) before, with the exceeding
    edge unable to reach bb?  Returns a description dict or None."""
    ef = EdgeFacts(body, crate)
    tr = Tracer(body)
    for sb in sorted(body.reachable):
        t = body.term(sb)
        if t["k"] != "switch" or not body.dominates(sb, bb) or sb == bb:
            continue
        facts = ef.facts_for_switch(sb)
        for tgt, fl in facts.items():
            for f in fl:
                if f[0] != "cmp":
                    continue
                _, op, lhs, rhs, truth = f
                if lhs[0] == "const" and rhs[0] == "place":
                    side, const, plc = "l", lhs[1], rhs[1]
                elif rhs[0] == "const" and lhs[0] == "place":
                    side, const, plc = "r", rhs[1], lhs[1]
                else:
                    continue
                if (op, side) not in NOT_EXCEEDING or NOT_EXCEEDING[(op, side)] != truth:
                    continue
                if not (body.dominates(tgt, bb) and tgt != sb):
                    continue
                others = [x for x in body.succ[sb] if x != tgt]
                if any(bb in body.reach_from(o, removed_blocks=frozenset([sb])) for o in others):
                    continue
                # what is compared?
                d = ef.single_def(t["op"]["pl"]["l"])
                if d is None or d[3]["k"] != "bin":
                    continue
                cmp_op = d[3]["l"] if side == "r" else d[3]["r"]
                leaves = tr.operand(cmp_op)
                kind = counter_kind(body, leaves, tr, sb, bb, tgt)
                if kind:
                    return {"switch": sb, "limit": const, "kind": kind, "where": body.where(sb)}
    if helpers:
        return find_gate_call(body, bb, crate)
    return None


def ok_edges_of_call(body, crate, call_bb):
    """(switch block, target) edges on which the Result/Option/ControlFlow produced by the call at call_bb is Ok/Some/Continue"""
    ef = EdgeFacts(body, crate)
    tr = Tracer(body)
    out = []
    for sb in sorted(body.reachable):
        tt = body.term(sb)
        if tt["k"] != "switch" or tt["op"]["k"] == "const" or tt["op"]["pl"]["p"]:
            continue
        d = ef.single_def(tt["op"]["pl"]["l"])
        if d and d[3]["k"] == "discr":
            leaves = tr.place(d[3]["pl"])
            if leaves and all(l.kind == "call" and l.detail[2] == call_bb for l in leaves):
                for tgt, fl in ef.facts_for_switch(sb).items():
                    for f in fl:
                        if f[0] == "variant" and len(f[3]) == 1 and (f[3] & {"Continue", "Ok", "Some"}) and tgt != sb:
                            out.append((sb, tgt))
    return out


def find_gate_call(body, bb, crate):
    """the guard factored out into a helper: bb is dominated by the success edge of `h(..)?` where every Ok that the crate-local
    function h builds is itself dominated by a depth guard (find_guard inside h)"""
    for cb, t in body.calls():
        if cb == bb or not body.dominates(cb, bb):
            continue
        names = callee_names(t)
        h = None
        for n in names:
            h = crate.bodies.get(n) or h
        if h is None or h is body or h.kind == "const":
            continue
        if not any(body.dominates(tgt, bb) for sb, tgt in ok_edges_of_call(body, crate, cb)):
            continue
        from engine import find_aggs
        oks = [b2 for b2, idx, st in find_aggs(h, "std::result::Result", "Ok")]
        if not oks:
            continue
        gs = [find_guard(h, ob, crate, helpers=False) for ob in oks]
        if all(gs):
            g = dict(gs[0])
            g["kind"] = g["kind"] + " (in helper %s)" % h.path.rsplit("::", 1)[-1]
            g["where"] = h.where(g["switch"])
            return g
    return None


def counter_kind(body, leaves, tr, sb, bb, tgt):
    """classify what the compared value is"""
    kinds = set()
    for l in leaves:
        if l.kind == "op" and l.detail[0] == "bin" and l.detail[1] in ("Add", "AddWithOverflow", "AddUnchecked"):
            # local = something + 1 (pass-down counter) or field += 1 read back
            kinds.add("incremented-counter")
        elif l.kind == "op" and l.detail[0] == "bin" and l.detail[1] in ("Sub", "SubWithOverflow"):
            continue   # the matching decrement after the inner call (flow-insensitive trace sees it too)
        elif l.kind == "param" and any(p.startswith(".") for p in l.projs):
            # a field of self read back: there must be an increment of that very field dominating the test
            fld = [p for p in l.projs if p.startswith(".")][-1]
            if field_incremented_before(body, fld, sb):
                kinds.add("incremented-field")
            elif field_incremented_before(body, fld, bb, after=tgt):
                # check first, count after: `if self.f >= MAX { return Err } self.f += 1; recurse`
                kinds.add("field-checked-then-incremented")
            elif passed_down_plus_one(body, tr, fld, tgt, bb):
                # check first, hand on f + 1: `if self.f >= MAX { return Err } Child { f: self.f + 1, .. }.recurse()`
                kinds.add("field-checked-then-passed-down+1")
            else:
                return None
        elif l.kind == "call" and (name_matches(l.detail[0], ["std::vec::Vec::<T, A>::len"]) or l.detail[1].endswith("::len")):
            call = body.term(l.detail[2])
            fld = field_of_arg(tr, call["args"][0])
            if fld and pushed_between(body, tr, fld, tgt, bb):
                kinds.add("collection-length")
            else:
                return None
        elif l.kind == "cycle":
            continue
        else:
            return None
    if len(kinds) >= 1:
        return "+".join(sorted(kinds))
    return None


def field_incremented_before(body, fld, sb, after=None):
    """an in-place `self.fld += 1` that dominates sb (and, when `after` is given, is itself dominated by `after`)"""
    for b2, idx, s in body.stmts():
        if idx == "t" or s["k"] != "assign":
            continue
        projs = pl_projs(s["pl"])
        if projs and projs[-1] == fld and body.dominates(b2, sb) and (after is None or (body.dominates(after, b2))):
            rv = s["rv"]
            # (*self).f = move _t.0 where _t = AddWithOverflow((*self).f, 1)
            if rv["k"] == "use" and rv["op"]["k"] in ("copy", "move"):
                src = rv["op"]["pl"]["l"]
                for (b3, i3, dp, rv3) in body.defs.get(src, []):
                    if rv3["k"] == "bin" and rv3["op"] in ("Add", "AddWithOverflow"):
                        lp = rv3["l"].get("pl")
                        if lp and pl_projs(lp) and pl_projs(lp)[-1] == fld and rv3["r"]["k"] == "const" and rv3["r"].get("v") == "1":
                            return True
            if rv["k"] == "bin" and rv["op"] in ("Add", "AddWithOverflow"):
                return True
    return False


def passed_down_plus_one(body, tr, fld, tgt, bb):
    """between the within-limit edge and the re-entry, a value of self's own type is built whose field `fld` is self.fld + 1"""
    from engine import find_aggs
    self_ty = body.local_ty(1).lstrip("&").replace("mut ", "").split("<")[0].strip()
    for b2, idx, st in body.stmts():
        if idx == "t" or st.get("k") != "assign" or st["rv"]["k"] != "agg" or st["rv"].get("ak") != "adt":
            continue
        rv = st["rv"]
        if not self_ty or str(rv.get("adt", "")) != self_ty or fld.lstrip(".") not in (rv.get("fields") or []):
            continue
        if not (body.dominates(tgt, b2) and body.dominates(b2, bb)):
            continue
        ls = tr.operand(rv["ops"][rv["fields"].index(fld.lstrip("."))])
        if not ls:
            continue
        good = True
        for l in ls:
            if not (l.kind == "op" and l.detail[0] == "bin" and l.detail[1] in ("Add", "AddWithOverflow")):
                good = False
                break
            d = body.blocks[l.detail[2]]["s"][l.detail[3]]["rv"]
            ll = tr.operand(d["l"])
            if not (d["r"]["k"] == "const" and str(d["r"].get("v")) == "1" and ll and all(x.kind == "param" and x.detail == 1 and x.projs and x.projs[-1] == fld for x in ll)):
                good = False
        if good:
            return True
    # the same through a constructor helper: `self.nested(.., self.f + 1, ..)` whose body builds Self { f: <that parameter>, .. }
    crate = body.crate
    for cb, t in body.calls():
        if not (body.dominates(tgt, cb) and body.dominates(cb, bb)) or cb == bb:
            continue
        h = None
        for n in callee_names(t):
            h = crate.bodies.get(n) or h
        if h is None or h is body or h.kind not in ("fn", "assoc_fn"):
            continue
        htr = Tracer(h)
        for b2, idx, st in h.stmts():
            if idx == "t" or st.get("k") != "assign" or st["rv"]["k"] != "agg" or st["rv"].get("ak") != "adt":
                continue
            rv = st["rv"]
            if str(rv.get("adt", "")) != self_ty or fld.lstrip(".") not in (rv.get("fields") or []):
                continue
            pl = htr.operand(rv["ops"][rv["fields"].index(fld.lstrip("."))])
            if not pl or not all(x.kind == "param" and not x.projs for x in pl) or len({x.detail for x in pl}) != 1:
                continue
            k = next(iter(pl)).detail - 1
            if k >= len(t["args"]):
                continue
            ok = True
            als = tr.operand(t["args"][k])
            for l in als:
                if not (l.kind == "op" and l.detail[0] == "bin" and l.detail[1] in ("Add", "AddWithOverflow")):
                    ok = False
                    break
                d = body.blocks[l.detail[2]]["s"][l.detail[3]]["rv"]
                ll = tr.operand(d["l"])
                if not (d["r"]["k"] == "const" and str(d["r"].get("v")) == "1" and ll and all(x.kind == "param" and x.detail == 1 and x.projs and x.projs[-1] == fld for x in ll)):
                    ok = False
            if ok and als:
                return True
    return False


def field_of_arg(tr, op):
    leaves = tr.operand(op)
    flds = set()
    for l in leaves:
        fs = [p for p in l.projs if p.startswith(".")]
        if not fs:
            return None
        flds.add(fs[-1])
    return next(iter(flds)) if len(flds) == 1 else None


def pushed_between(body, tr, fld, tgt, bb):
    for b2, t in find_calls(body, ["std::vec::Vec::<T, A>::push"]):
        if body.dominates(tgt, b2) and body.dominates(b2, bb):
            if field_of_arg(tr, t["args"][0]) == fld:
                return True
    # the push factored into a method of the object that owns the collection: `state.enter(..)` whose every path pushes onto self.<fld>
    crate = body.crate
    for b2, t in body.calls():
        if b2 == bb or not (body.dominates(tgt, b2) and body.dominates(b2, bb)) or not t["args"]:
            continue
        h = None
        for n in callee_names(t):
            h = crate.bodies.get(n) or h
        if h is None or h is body or h.kind not in ("fn", "assoc_fn"):
            continue
        htr = Tracer(h)
        hp = [hb for hb, ht in find_calls(h, ["std::vec::Vec::<T, A>::push"])
              if (lambda ls: bool(ls) and all(l.kind == "param" and l.detail == 1 and l.projs and [p for p in l.projs if p.startswith(".")][-1:] == [fld] for l in ls))(
                  [l for l in htr.operand(ht["args"][0]) if l.kind != "cycle"])]
        if hp and all(any(h.dominates(p, r) for p in hp) for r in h.return_blocks()):
            return True
    return False


# structural descent witness ------------------------------------------------------------------------------------

DESCENT_TRANSPARENT = None


def structural_descent(edge, type_markers):
    """the recursive call passes an argument of a tree type that derives from a strict part of the caller's own
    parameter of a tree type (payload/field/iteration item) — recursion on a finite tree."""
    b = edge.body
    t = b.term(edge.bb)
    from engine import TRANSPARENT_CALLS
    transparent = set(TRANSPARENT_CALLS) | {
        "utils::Spanned::<T>::into_parts", "std::iter::Iterator::next", "core::slice::<impl [T]>::iter",
        "std::option::Option::<T>::unwrap", "std::option::Option::<T>::expect", "std::collections::HashMap::<K, V, S>::iter",
        "std::vec::Vec::<T, A>::iter", "core::slice::<impl [T]>::first", "std::collections::HashMap::<K, V, S>::values",
        "std::iter::Iterator::enumerate", "std::iter::Iterator::rev", "std::collections::HashMap::<K, V, S>::into_iter",
        "std::ops::Index::index", "std::ops::IndexMut::index_mut", "std::collections::HashMap::<K, V, S>::get",
    }
    tr = Tracer(b, transparent=transparent)
    best = "none"
    for a, aty in zip(t["args"], t["atys"]):
        if not any(m in aty for m in type_markers):
            continue
        leaves = tr.operand(a)
        if not leaves:
            continue
        cls = "strict"
        for l in leaves:
            if l.kind == "cycle":
                continue
            if l.kind != "param":
                cls = "none"
                break
            real = [p for p in l.projs if p.startswith(".") or p.startswith("as:") or p == "[_]" or p.startswith("via:std::iter") or p.startswith("via:utils::Spanned") or p.startswith("via:core::slice") or "::iter" in p or "into_iter" in p or "::values" in p]
            if not real and b.kind == "closure" and l.detail >= 2 and _closure_arg_is_strict_part(b, transparent):
                # `self.field.map(|x| x.recurse())`: the closure's argument is the payload / an item of the receiver the adapter was applied
                # to — a strict part of the enclosing function's own parameter
                continue
            if not real:
                cls = "same" if cls == "strict" else cls
        if cls == "strict":
            return "strict"
        if cls == "same":
            best = "same"
    return best


ARG_ADAPTERS = ("map", "and_then", "find_map", "filter_map", "for_each", "any", "all", "map_or", "map_or_else", "is_some_and", "flat_map", "try_for_each", "fold")


def _closure_arg_is_strict_part(cb, transparent):
    crate = cb.crate
    parent = crate.bodies.get(cb.parent) if cb.parent else None
    if parent is None:
        return False
    tr = Tracer(parent, transparent=transparent)
    for bb, t in parent.calls():
        if callee_def(t).rsplit("::", 1)[-1] not in ARG_ADAPTERS or len(t["args"]) < 2:
            continue
        passed = False
        for a in t["args"][1:]:
            for l in tr.operand(a):
                if l.kind == "agg" and l.detail[0] == "closure" and parent.blocks[l.detail[3]]["s"][l.detail[4]]["rv"].get("def") == cb.path:
                    passed = True
        if not passed:
            continue
        rl = [l for l in tr.operand(t["args"][0]) if l.kind != "cycle"]
        if rl and all(l.kind == "param" and any(p.startswith(".") or p.startswith("as:") for p in l.projs) for l in rl):
            return True
    return False


# cycle analysis -----------------------------------------------------------------------------------------------

def tarjan(nodes, succ):
    index, low, on, stack, out = {}, {}, set(), [], []
    counter = [0]
    for root in nodes:
        if root in index:
            continue
        work = [(root, 0)]
        while work:
            v, pi = work[-1]
            if pi == 0:
                index[v] = low[v] = counter[0]
                counter[0] += 1
                stack.append(v)
                on.add(v)
            ss = succ(v)
            if pi < len(ss):
                work[-1] = (v, pi + 1)
                w = ss[pi]
                if w not in index:
                    work.append((w, 0))
                elif w in on:
                    low[v] = min(low[v], index[w])
            else:
                work.pop()
                if work:
                    u = work[-1][0]
                    low[u] = min(low[u], low[v])
                if low[v] == index[v]:
                    comp = []
                    while True:
                        w = stack.pop()
                        on.discard(w)
                        comp.append(w)
                        if w == v:
                            break
                    out.append(comp)
    return out


def analyse(crate, cg, scope_nodes, rep, rule, structural, cfg, descent_markers=()):
    """structural: {"src->dst": reason}; an edge closing a cycle must be guard-dominated, have a structural-descent
    witness (when descent_markers given and the pair is listed with witness='descent'), or be listed."""
    guarded_cache = {}
    live = defaultdict(list)
    n_guarded = 0
    guarded_sites = []
    for n in scope_nodes:
        for e in cg.edges.get(n, []):
            if e.dst not in scope_nodes:
                continue
            k = (e.body.path, e.bb)
            if k not in guarded_cache:
                guarded_cache[k] = find_guard(e.body, e.bb, crate)
            if guarded_cache[k]:
                guarded_sites.append((e, guarded_cache[k]))
                continue
            live[n].append(e)
    sccs = tarjan(sorted(scope_nodes), lambda v: sorted({e.dst for e in live.get(v, [])}))
    # guarded edges that would otherwise close a cycle are reported as discharged obligations
    full_sccs = tarjan(sorted(scope_nodes), lambda v: sorted({e.dst for e in cg.edges.get(v, []) if e.dst in scope_nodes}))
    comp_of = {}
    for i, comp in enumerate(full_sccs):
        for v in comp:
            comp_of[v] = i
    seen_keys = set()
    for e, g in guarded_sites:
        if comp_of.get(e.src) == comp_of.get(e.dst) and (len(full_sccs[comp_of[e.src]]) > 1 or e.src == e.dst):
            key = "%s:%s:guarded" % (rule, e.key())
            if key in seen_keys:
                continue
            seen_keys.add(key)
            rep.ok(rule, key, e.where(), "recursive call site is dominated by the within-limit edge of a %s test against %s (at %s); "
                   "the exceeding edge cannot reach it" % (g["kind"], g["limit"], g["where"]))
    for comp in sccs:
        cs = set(comp)
        intra = [e for v in comp for e in live.get(v, []) if e.dst in cs]
        if len(comp) == 1 and not intra:
            continue
        by_pair = defaultdict(list)
        same_edges = []
        for e in intra:
            by_pair[e.key()].append(e)
        for pair, es in sorted(by_pair.items()):
            key = "%s:%s" % (rule, pair)
            row = structural.get(pair) if not hasattr(pair, "match") else None
            e0 = es[0]
            if row is None:
                for rx, r in structural.items():
                    if hasattr(rx, "match") and rx.match(pair):
                        row = r
                        break
            if row is None and derive_generated(crate, e0.src) and derive_generated(crate, e0.dst):
                row = ("compiler-derived impl: structural recursion over the fields of self", "descent")
            if row is not None:
                reason, witness = row
                if witness == "membership":
                    bad = [e for e in es if not membership_guarded(e)]
                    if bad:
                        rep.bad(rule, key, bad[0].where(), "recursion listed as a visited-set graph walk (%s) but the call at %s is not dominated by the "
                                "negative edge of a membership test with the set extended before the descent" % (reason, bad[0].where()))
                        continue
                    rep.ok(rule, key, e0.where(), "graph walk [%s]; witness: the descent is dominated by the false edge of an `iter().any(== next)` "
                           "membership test and the path set is pushed before it, so depth <= number of templates (%d site(s))" % (reason, len(es)))
                elif witness == "bounded-by-len":
                    bad = [e for e in es if not bounded_by_len(e)]
                    if bad:
                        rep.bad(rule, key, bad[0].where(), "recursion listed as bounded by a collection length (%s) but the call at %s is not dominated by the "
                                "within-limit edge of `x + 1 < len(..)` with x + 1 stored before the call" % (reason, bad[0].where()))
                        continue
                    rep.ok(rule, key, e0.where(), "structural recursion [%s]; witness: dominated by the within-limit edge of `level + 1 >= len(lineage)` "
                           "and level + 1 is stored before the call (%d site(s))" % (reason, len(es)))
                elif witness == "descent":
                    classes = {id(e): (structural_descent(e, descent_markers) if e.kind != "ref" else "none") for e in es}
                    for e in es:
                        if classes[id(e)] == "same":
                            same_edges.append(e)
                    bad = [e for e in es if classes[id(e)] == "none"]
                    if bad:
                        rep.bad(rule, key, bad[0].where(), "recursion listed as structural descent on a tree (%s) but the call at %s does not pass "
                                "a strict part of the caller's own tree parameter" % (reason, bad[0].where()))
                        continue
                    rep.ok(rule, key, e0.where(), "structural recursion [%s]; witness: every call passes a strict part (field/payload/item) of "
                           "the caller's own parameter (%d site(s))" % (reason, len(es)))
                else:
                    rep.ok(rule, key, e0.where(), "reviewed structural recursion [%s] (%d site(s))" % (reason, len(es)))
            else:
                rep.bad(rule, key, e0.where(), "call site closes a recursion cycle {%s} and is neither dominated by a depth guard nor a reviewed "
                        "structural recursion: unbounded recursion (stack overflow) on adversarial input; edge kind %s" % (
                            ", ".join(sorted(x.rsplit("::", 2)[-1] if len(cs) > 6 else x for x in cs))[:300], e0.kind))
        # delegations that pass the caller's own tree on unchanged must not form a cycle by themselves
        if same_edges:
            sg = defaultdict(set)
            for e in same_edges:
                sg[e.src].add(e.dst)
            for comp2 in tarjan(sorted(set(sg) | {d for ds in sg.values() for d in ds}), lambda v: sorted(sg.get(v, []))):
                if len(comp2) > 1 or comp2[0] in sg.get(comp2[0], ()):
                    rep.bad(rule, "%s:nonstrict-cycle:%s" % (rule, "+".join(sorted(comp2))), same_edges[0].where(),
                            "cycle of calls that pass the caller's own tree parameter on unchanged (no strict descent): %s" % sorted(comp2))
    return sccs


# R-DEPTH.ast ---------------------------------------------------------------------------------------------------

def loop_carried_wraps(body, type_markers):
    """In every CFG loop: cycles in the move graph among locals whose type mentions one of type_markers.
    Returns list of (loop blocks, cycle locals, wrap sites)."""
    out = []
    def is_tree(l):
        ty = body.local_ty(l)
        return any(m in ty for m in type_markers)
    for loop in body.loops():
        g = defaultdict(set)
        sites = defaultdict(list)
        for bb in loop:
            blk = body.blocks[bb]
            for i, s in enumerate(blk["s"]):
                if s["k"] != "assign":
                    continue
                dst = s["pl"]["l"]
                if not is_tree(dst):
                    continue
                rv = s["rv"]
                srcs = []
                if rv["k"] in ("use", "cast"):
                    op = rv["op"]
                    if op["k"] in ("copy", "move"):
                        srcs.append(op["pl"]["l"])
                elif rv["k"] == "agg":
                    for op in rv["ops"]:
                        if op["k"] in ("copy", "move"):
                            srcs.append(op["pl"]["l"])
                for sl in srcs:
                    if is_tree(sl):
                        g[sl].add(dst)
                        sites[(sl, dst)].append((bb, i, rv["k"]))
            t = blk["t"]
            if t["k"] == "call":
                dst = t["dest"]["l"]
                if is_tree(dst):
                    for a in t["args"]:
                        if callee_def(t) in ("std::ops::Try::branch", "std::ops::FromResidual::from_residual", "std::convert::Into::into", "std::convert::From::from"):
                            # transparent plumbing: moves the value on, nests nothing (still an edge of the move graph)
                            if a["k"] in ("copy", "move") and is_tree(a["pl"]["l"]) and not a["pl"]["p"]:
                                g[a["pl"]["l"]].add(dst)
                                sites[(a["pl"]["l"], dst)].append((bb, "t", "use"))
                            continue
                        if a["k"] in ("copy", "move") and is_tree(a["pl"]["l"]) and not a["pl"]["p"]:
                            g[a["pl"]["l"]].add(dst)
                            sites[(a["pl"]["l"], dst)].append((bb, "t", "call:" + callee_def(t)))
        nodes = set(g) | {d for ds in g.values() for d in ds}
        for comp in tarjan(sorted(nodes), lambda v: sorted(g.get(v, []))):
            cs = set(comp)
            if len(comp) == 1 and comp[0] not in g.get(comp[0], ()):
                continue
            # a wrap happens where the cycle passes through an aggregate or a call (a pure move cycle nests nothing)
            wraps = []
            for (a, b2), ss in sites.items():
                if a in cs and b2 in cs:
                    for (bb, i, k) in ss:
                        if k == "agg" or k.startswith("call:"):
                            wraps.append((bb, i, k))
            if wraps:
                out.append((loop, cs, wraps))
    return out


def charge_sites(body, crate, charge_fns):
    """blocks that call a charge function (increments a depth field and errors beyond a constant)"""
    return {bb for bb, t in find_calls(body, charge_fns)}


def is_charge_fn(body, crate):
    """shape: fn(&mut self) that increments an integer field, compares it with a constant and returns Err on the
    exceeding edge (never decrements it)."""
    ef = EdgeFacts(body, crate)
    inc_fields = set()
    dec = False
    for bb, idx, s in body.stmts():
        if idx == "t" or s["k"] != "assign":
            continue
        rv = s["rv"]
        if rv["k"] == "bin" and rv["op"] in ("AddWithOverflow", "Add") and rv["r"]["k"] == "const" and rv["r"].get("v") == "1":
            lp = rv["l"].get("pl")
            if lp and pl_projs(lp) and pl_projs(lp)[-1].startswith("."):
                inc_fields.add(pl_projs(lp)[-1])
        if rv["k"] == "bin" and rv["op"] in ("SubWithOverflow", "Sub"):
            dec = True
    if not inc_fields or dec:
        return None
    for sb in sorted(body.reachable):
        t = body.term(sb)
        if t["k"] != "switch":
            continue
        for tgt, fl in ef.facts_for_switch(sb).items():
            for f in fl:
                if f[0] == "cmp" and (f[2][0] == "const") != (f[3][0] == "const"):
                    # exceeding edge must construct an Err
                    side = "l" if f[2][0] == "const" else "r"
                    exceeding = NOT_EXCEEDING.get((f[1], side))
                    if exceeding is None or f[4] == exceeding:
                        continue
                    region = body.reach_from(tgt)
                    from engine import find_aggs
                    if any(True for _ in find_aggs(body, "std::result::Result", "Err", blocks=sorted(region))):
                        const = f[2][1] if side == "l" else f[3][1]
                        return {"fields": sorted(inc_fields), "limit": const}
    return None


def derive_generated(crate, path):
    b = crate.bodies.get(path)
    if b is None or not b.j.get("from_exp"):
        return False
    x = (b.j.get("exp") or {}).get("x", "")
    return x.startswith("macro:") and x.split(":")[1] in ("Clone", "PartialEq", "Debug", "Eq", "Hash", "PartialOrd", "Ord", "Default")


def bounded_by_len(edge):
    """call dominated by the false edge of Ge(Add(x, 1), len(..)) (or equivalent) and `x + 1` stored to a field before"""
    b = edge.body
    ef = EdgeFacts(b, b.crate)
    tr = Tracer(b)
    for sb in sorted(b.reachable):
        t = b.term(sb)
        if t["k"] != "switch" or not b.dominates(sb, edge.bb) or sb == edge.bb:
            continue
        d = ef.single_def(t["op"]["pl"]["l"]) if t["op"]["k"] != "const" and not t["op"]["pl"]["p"] else None
        if d is None or d[3]["k"] != "bin" or d[3]["op"] not in ("Ge", "Gt", "Lt", "Le"):
            continue
        rv = d[3]
        l_leaves, r_leaves = tr.operand(rv["l"]), tr.operand(rv["r"])
        def is_inc(ls):
            return ls and all(l.kind == "op" and l.detail[1] in ("Add", "AddWithOverflow") for l in ls)
        def is_len(ls):
            return ls and all(l.kind == "call" and l.detail[1].endswith("::len") for l in ls)
        if is_inc(l_leaves) and is_len(r_leaves):
            within = {"Ge": False, "Gt": False, "Lt": True, "Le": True}[rv["op"]]
        elif is_inc(r_leaves) and is_len(l_leaves):
            within = {"Ge": True, "Gt": True, "Lt": False, "Le": False}[rv["op"]]
        else:
            continue
        for tgt, fl in ef.facts_for_switch(sb).items():
            for f in fl:
                if f[0] == "cmp" and f[4] == within and b.dominates(tgt, edge.bb) and tgt != sb:
                    others = [x for x in b.succ[sb] if x != tgt]
                    if any(edge.bb in b.reach_from(o, removed_blocks=frozenset([sb])) for o in others):
                        continue
                    # the incremented value is stored into a field place between the test and the call
                    for b2, idx, s2 in b.stmts():
                        if idx != "t" and s2["k"] == "assign" and s2["pl"]["p"] and b.dominates(tgt, b2) and b.dominates(b2, edge.bb):
                            src = tr._rv(s2["rv"], (), set(), 0, b2, idx) if s2["rv"]["k"] in ("use",) else set()
                            if src and all(l.kind == "op" and l.detail[1] in ("Add", "AddWithOverflow") for l in src):
                                return True
    # same bound, written as `let Some(next) = seq.get(x + 1) else { error }`: the call is dominated by the Some edge of a slice/Vec get()
    # whose index is an increment, the None edge cannot reach the call, and the incremented value is stored before the call
    for gb, t in b.calls():
        cd = callee_def(t)
        if not (cd.endswith("<impl [T]>::get") or cd.endswith("Vec::<T, A>::get")) or len(t["args"]) < 2 or gb == edge.bb or not b.dominates(gb, edge.bb):
            continue
        il = tr.operand(t["args"][1])
        if not (il and all(l.kind == "op" and l.detail[1] in ("Add", "AddWithOverflow") for l in il)):
            continue
        for sb, tgt in ok_edges_of_call(b, b.crate, gb):
            if not b.dominates(tgt, edge.bb):
                continue
            others = [x for x in b.succ[sb] if x != tgt]
            if any(edge.bb in b.reach_from(o, removed_blocks=frozenset([sb])) for o in others):
                continue
            for b2, idx, s2 in b.stmts():
                if idx != "t" and s2["k"] == "assign" and s2["pl"]["p"] and b.dominates(tgt, b2) and b.dominates(b2, edge.bb):
                    src = tr._rv(s2["rv"], (), set(), 0, b2, idx) if s2["rv"]["k"] in ("use",) else set()
                    if src and all(l.kind == "op" and l.detail[1] in ("Add", "AddWithOverflow") for l in src):
                        return True
    return False


def membership_guarded(edge):
    b = edge.body
    ef = EdgeFacts(b, b.crate)
    for sb in sorted(b.reachable):
        t = b.term(sb)
        if t["k"] != "switch" or not b.dominates(sb, edge.bb) or sb == edge.bb:
            continue
        for tgt, fl in ef.facts_for_switch(sb).items():
            for f in fl:
                if f[0] == "call" and f[1].endswith("::any") and f[3] is False and b.dominates(tgt, edge.bb) and tgt != sb:
                    others = [x for x in b.succ[sb] if x != tgt]
                    if any(edge.bb in b.reach_from(o, removed_blocks=frozenset([sb])) for o in others):
                        continue
                    for b2, t2 in find_calls(b, ["std::vec::Vec::<T, A>::push"]):
                        if b.dominates(tgt, b2) and b.dominates(b2, edge.bb):
                            return True
        # the test stored in a named flag first: `let is_cycle = a == b || set.iter().any(..); if is_cycle { return Err }` — every definition
        # of the flag is the constant true or the result of any(): the flag being false means any() answered false
        op = t["op"]
        if op["k"] in ("copy", "move") and not op["pl"]["p"]:
            srcs = {op["pl"]["l"]}
            for (b2, i2, dp, rv) in b.defs.get(op["pl"]["l"], []):
                if rv["k"] == "use" and rv["op"]["k"] in ("copy", "move") and not rv["op"]["pl"]["p"]:
                    srcs.add(rv["op"]["pl"]["l"])
            defs = [d for x in srcs for d in b.defs.get(x, []) if not d[2]]
            has_any = any(d[3]["k"] == "call" and callee_def(d[3]["t"]).endswith("::any") for d in defs)
            only = all((d[3]["k"] == "use" and d[3]["op"]["k"] == "const" and str(d[3]["op"].get("v")) == "1")
                       or (d[3]["k"] == "call" and callee_def(d[3]["t"]).endswith("::any"))
                       or (d[3]["k"] == "use" and d[3]["op"]["k"] in ("copy", "move") and d[3]["op"]["pl"]["l"] in srcs) for d in defs)
            if has_any and only:
                for v, tgt in t["targets"]:
                    if v == "0" and b.dominates(tgt, edge.bb) and tgt != sb:
                        others = [x for x in b.succ[sb] if x != tgt]
                        if any(edge.bb in b.reach_from(o, removed_blocks=frozenset([sb])) for o in others):
                            continue
                        for b2, t2 in find_calls(b, ["std::vec::Vec::<T, A>::push"]):
                            if b.dominates(tgt, b2) and b.dominates(b2, edge.bb):
                                return True
    return False


_CG_CACHE = {}


def only_called_from(crate, fn, allowed, depth=0):
    """fn is a crate-local helper all of whose callers are in `allowed` (or are such helpers themselves): a private extraction of code
    that belongs to an allowed function. Functions that nobody calls, or whose address is taken, do not qualify."""
    cg = _CG_CACHE.get(id(crate))
    if cg is None:
        cg = _CG_CACHE[id(crate)] = CallGraph(crate)
    callers = [(src, e) for src, es in cg.edges.items() for e in es if e.dst == fn and src != fn]
    if not callers or depth > 3:
        return False
    for src, e in callers:
        if e.kind == "ref":
            return False
        if src in allowed:
            continue
        if not only_called_from(crate, src, allowed, depth + 1):
            return False
    return True


def gate_call_establishes(body, bb, crate, pred):
    """bb is dominated by the success edge of `h(..)?` (h crate-local) and, inside h, every `Ok(..)` it builds is dominated by an edge whose
    facts satisfy pred(fact, h): the check was factored out into a helper that returns Err when it fails"""
    from engine import find_aggs
    for cb, t in body.calls():
        if cb == bb or not body.dominates(cb, bb):
            continue
        h = None
        for n in callee_names(t):
            h = crate.bodies.get(n) or h
        if h is None or h is body or h.kind == "const":
            continue
        if not any(body.dominates(tgt, bb) for sb, tgt in ok_edges_of_call(body, crate, cb)):
            continue
        oks = [b2 for b2, idx, st in find_aggs(h, "std::result::Result", "Ok")]
        if not oks:
            continue
        ef = EdgeFacts(h, crate)
        good = True
        for ob in oks:
            dom = False
            for sb in sorted(h.reachable):
                if h.term(sb)["k"] != "switch":
                    continue
                for tgt, fl in ef.facts_for_switch(sb).items():
                    if tgt != sb and h.dominates(tgt, ob) and any(pred(f, h) for f in fl):
                        dom = True
            good = good and dom
        if good:
            return h.path
    return None
