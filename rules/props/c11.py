"""C11 — cyclic or dangling template graphs are rejected; accepted graphs render finitely (partial)."""
from engine import Tracer, EdgeFacts, find_calls, AnchorMissing, Report
import rrec
from props import c07, c06

EXPLANATION = (
    "Decides structural clauses of C11 on the MIR: (RUN) both graph walks (find_parents, check_include_cycles) run for every template "
    "of the map on every finalize, before the commit, with their error propagated; (EDGES) every emission of an Include instruction — "
    "in bodies, blocks and component definitions — records the edge that the walks and the existence check consume (C07.REF a/b/c "
    "restricted to includes); (WALK) in both walks the recursive descent is dominated by the negative membership test with the path "
    "set extended first; (R-REC.vm) at render time every re-entry of the VM is depth-guarded, so even an include cycle that the "
    "add-time walk cannot see (through an ancestor's block via super()) ends in an error, not unbounded recursion. NOT decided: that "
    "the walks accept exactly the acyclic graphs (their set logic is value-level) and fallback-prefix resolution order.")
NOT_DECIDED = "exactness of the visited-set logic; fallback-prefix resolution order"
ASSUMPTIONS = ["thread stack holds the bounded VM nesting (see C07)"]


def run(ctx, rep):
    for cfg in ctx.tera_configs():
        crate = ctx.crate(cfg)
        check_run(crate, rep, cfg)
        check_edges(crate, rep, cfg)
        check_walk(crate, rep, cfg)
        c07.check_rec_vm(crate, rep, cfg, "R-REC.vm")
        # the two render-time backstops only bound mixed recursion (component -> include -> component ..., invisible at add time because a
        # component call is not an include edge) if each child VM carries BOTH counters on: shared with C05.REC
        from props import c05
        c05.check_rec(crate, rep, cfg)
        check_resolution_inputs(crate, rep, cfg)


def check_run(crate, rep, cfg):
    fin = crate.one("tera::Tera::finalize_templates")
    rep.analysed(fin)
    tr = Tracer(fin, transparent=c07.REF_TRANSPARENT | {"std::ops::Index::index", "core::slice::<impl [T]>::sort", "std::iter::Iterator::collect"})
    loops = fin.loops()
    commit = [bb for bb, t in find_calls(fin, ["std::collections::HashMap::<K, V, S, A>::iter_mut", "std::collections::HashMap::<K, V, S>::iter_mut"])]
    for name in ("template::find_parents", "template::check_include_cycles"):
        calls = list(find_calls(fin, [name]))
        key = "C11.RUN:finalize:%s" % name.rsplit("::", 1)[-1]
        what = ("%s is called unconditionally for every template on every finalize (inside the loop over the template map), its Err is propagated, and the call precedes the commit"
                % name.rsplit("::", 1)[-1])
        ok = False
        where = fin.where(0)
        for bb, t in calls:
            where = fin.where(bb)
            in_loop = any(bb in l for l in loops)
            # the template argument derives from self.templates
            arg = t["args"][1]
            leaves = tr.operand(arg)
            from_map = bool(leaves) and all(l.kind == "param" and l.detail == 1 and ".templates" in l.projs for l in leaves if l.kind != "cycle")
            # result goes through `?`: Try::branch on the destination
            dest = t["dest"]["l"]
            tried = False
            for b2, t2 in find_calls(fin, ["std::ops::Try::branch"]):
                a0 = t2["args"][0]
                if a0["k"] in ("copy", "move") and a0["pl"]["l"] == dest:
                    tried = True
            before_commit = bool(commit) and all(not fin.dominates(cb, bb) and bb not in fin.reach_from(cb) for cb in commit)
            from engine import runs_every_iteration
            every, why = runs_every_iteration(fin, bb)
            if in_loop and from_map and tried and before_commit and every:
                ok = True
        (rep.ok if ok else rep.bad)("C11.RUN", key, where, what if ok else what + " — VIOLATED")
    # the loop iterates over all keys of self.templates
    key = "C11.RUN:finalize:all-templates"
    ok = False
    for bb, t in find_calls(fin, ["std::collections::HashMap::<K, V, S, A>::keys", "std::collections::HashMap::<K, V, S>::keys"]):
        if rrec.field_of_arg(tr, t["args"][0]) == ".templates":
            ok = True
    (rep.ok if ok else rep.bad)("C11.RUN", key, fin.where(0), "the walk loop enumerates `self.templates.keys()` (all registered templates, not only the new ones)"
                                + ("" if ok else " — VIOLATED"))


def check_edges(crate, rep, cfg):
    sub = Report("tmp")
    c07.check_ref_a(crate, sub, cfg)
    c07.check_ref_b(crate, sub, cfg)
    c07.check_ref_c(crate, sub, cfg)
    n = 0
    for i in sub.instances:
        if "Include" in i.key or "include_calls" in i.key:
            n += 1
            rep.add("C11.EDGES", i.key.replace("C07.REF", "C11.EDGES"), i.ok, i.where, i.what)
    rep.floor("C11.EDGES", "include-edge obligations (emit/record/merge/validate) [%s]" % cfg, n, 4)
    # the walks read Template.include_calls / Template.extends
    walk = crate.one("template::check_include_cycles::walk")
    tr = Tracer(walk, transparent=c07.REF_TRANSPARENT)
    ok = False
    for bb, t in find_calls(walk, ["std::collections::HashMap::<K, V, S, A>::keys", "std::collections::HashMap::<K, V, S>::keys"]):
        if rrec.field_of_arg(tr, t["args"][0]) == ".include_calls":
            ok = True
    (rep.ok if ok else rep.bad)("C11.EDGES", "C11.EDGES:walk-reads-include_calls", walk.where(0),
                                "the include walk enumerates Template.include_calls (the recorded edges)" + ("" if ok else " — VIOLATED"))
    # must-pass-through: no path of the walk returns before the edge enumeration (no depth / size / cache shortcut that answers Ok early;
    # the walk's depth is already bounded by the path-set guard, C11.WALK)
    kb = [bb for bb, t in find_calls(walk, ["std::collections::HashMap::<K, V, S, A>::keys", "std::collections::HashMap::<K, V, S>::keys"])
          if rrec.field_of_arg(tr, t["args"][0]) == ".include_calls"]
    early = [r for r in walk.return_blocks() if r in walk.reach_from(0, removed_blocks=frozenset(kb))] if kb else [0]
    (rep.ok if not early else rep.bad)("C11.EDGES", "C11.EDGES:walk:every-return-after-the-edge-enumeration", walk.where(early[0] if early else kb[0]),
                                       "every path of the include walk from entry to a return passes through the enumeration of Template.include_calls"
                                       + ("" if not early else " — VIOLATED: a return is reachable without looking at the node's includes (a cycle through this node is accepted)"))


def check_walk(crate, rep, cfg):
    cg = rrec.CallGraph(crate)
    for path in ("template::check_include_cycles::walk", "template::find_parents"):
        b = crate.one(path)
        rep.analysed(b)
        edges = [e for e in cg.edges.get(b.path, []) if e.dst == b.path]
        key = "C11.WALK:%s" % path
        what = ("the recursive descent of %s is dominated by the false edge of the membership test and the path set is pushed before it "
                "(depth <= number of templates; a revisit is reported as a cycle)" % path.rsplit("::", 1)[-1])
        if not edges:
            rep.bad("C11.WALK", key, b.where(0), what + " — anchor-missing: no recursive call found")
            continue
        bad = [e for e in edges if not rrec.membership_guarded(e)]
        if bad:
            rep.bad("C11.WALK", key, bad[0].where(), what + " — VIOLATED")
        else:
            rep.ok("C11.WALK", key, edges[0].where(), what)
        # the walk depends only on the current graph: it reads no field that a previous finalize computed (no cached shortcut)
        from props import c10
        derived = c10.commit_written_fields(crate)
        from engine import field_accesses
        reads = []
        for f in derived:
            for a in field_accesses(crate, "template::Template", f, bodies=crate.with_closures(b)):
                reads.append(f)
        key = "C11.WALK:%s:no-cached-state" % path
        (rep.ok if not reads else rep.bad)("C11.WALK", key, b.where(0), "%s reads none of the derived Template fields %s (every finalize re-walks the current graph)" % (path.rsplit("::", 1)[-1], derived)
                                           + ("" if not reads else " — VIOLATED: reads %s; a cycle closed by a later add can hide behind a stale cached chain" % sorted(set(reads))))
        # the positive edge of the membership test returns Err (circular_*)
        errs = list(find_calls(b, ["errors::Error::circular_include", "errors::Error::circular_extend"]))
        key = "C11.WALK:%s:cycle-error" % path
        (rep.ok if errs else rep.bad)("C11.WALK", key, b.where(errs[0][0]) if errs else b.where(0),
                                      "a revisit constructs the circular-include/extend error" + ("" if errs else " — VIOLATED"))


def check_resolution_inputs(crate, rep, cfg):
    """C11.RESOLVE — which template an `extends` / `include` name denotes depends on Tera.fallback_prefixes; the graph checks ran with the
    list in force when the templates were added. So the list is written only while no template is registered (the assignment sits on the
    true edge of `self.templates.is_empty()`), or the writer goes on to re-run finalize_templates."""
    from engine import field_accesses, EdgeFacts, Tracer, callee_def
    n = 0
    for a in field_accesses(crate, "tera::Tera", "fallback_prefixes"):
        if a["kind"] not in ("assign",) and not (a["kind"] == "call" and a.get("mut")):
            continue
        b = a["body"]
        root = crate.root_of(b).path
        if root.endswith("::default") or root.endswith("::clone") or "Default" in root:
            continue
        n += 1
        ef = EdgeFacts(b, crate)
        tr = Tracer(b)
        ok = False
        for sb in sorted(b.reachable):
            if b.term(sb)["k"] != "switch" or not b.dominates(sb, a["bb"]):
                continue
            for tgt, fl in ef.facts_for_switch(sb).items():
                for f in fl:
                    if f[0] == "call" and f[1].endswith("::is_empty") and f[3] is True and b.dominates(tgt, a["bb"]) and tgt != sb:
                        ct = b.term(f[4])
                        ls = [l for l in tr.operand(ct["args"][0]) if l.kind == "param"]
                        if ls and all([p for p in l.projs if p.startswith(".")][-1:] == [".templates"] for l in ls):
                            ok = True
        if not ok:
            fin = [bb for bb, t in b.calls() if callee_def(t).endswith("Tera::finalize_templates")]
            ok = bool(fin) and all(any(b.postdominates(fb, a["bb"]) or fb in b.reach_from(a["bb"]) for fb in fin) for _ in [0]) and \
                not any(b.term(x)["k"] == "return" for x in b.reach_from(a["bb"], removed_blocks=frozenset(fin)) if x != a["bb"])
        rep.add("C11.RESOLVE", "C11.RESOLVE:fallback_prefixes-writer:%s" % root, ok, b.where(a["bb"], a["idx"]), "Tera.fallback_prefixes is changed only while no template is registered "
                "(true edge of templates.is_empty()) or before a re-finalisation" + ("" if ok else " — VIOLATED: accepted templates can lose or change the targets their names resolved to"))
    rep.floor("C11.RESOLVE", "writers of Tera.fallback_prefixes outside Default/Clone [%s]" % cfg, n, 1)
