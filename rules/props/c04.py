"""C04 — inheritance: the structural clauses of lineage construction and block rendering (partial)."""
from engine import (Tracer, EdgeFacts, find_calls, find_aggs, field_accesses, AnchorMissing, leaf_str, leaf_call_is, pl_projs, pl_str, callee_def,
                    callee_names, iter_operands)
import rrec
from props.c02 import const_of
from props.c03 import vm_arm, through, last_field, some_edges, field_assigns

EXPLANATION = (
    "Decides the clauses of C04 that are choices visible in the code, on the type-checked MIR: (ORDER) the orientation of the parent "
    "chain agrees at its four sites — find_parents builds nearest-first and reverses once before returning (root first), render starts "
    "from `parents.first()`, and both lineage loops of finalize_templates walk `parents.iter().rev()` (nearest ancestor first); (LINEAGE) "
    "a block's lineage starts with the template's own definition, ancestors are appended only where they define the block, only while the "
    "definition just appended calls super(), and only if the own definition does; blocks a template does not define are inherited with "
    "`entry().or_insert()` (never overwriting an own definition) from the nearest ancestor first; child blocks unknown to every ancestor "
    "are refused; (VM) RenderBlock looks the lineage up in the VM's own (most-derived) template, runs element 0 and pushes level 0; "
    "super() runs element level+1 of the lineage of the topmost matching active block, records level+1 for the nested run and restores "
    "the level on every path; rendering starts from the root ancestor's chunk while the VM's template stays the most-derived one; "
    "(BLOCK) single-block rendering captures on the edge `capture_block == Some(this block)`, stores that buffer and returns it. "
    "(DERIVED, shared with C10) lineages and parent chains are written only by the commit and never read by the code that computes them, "
    "so the result cannot depend on what an earlier registration left behind. NOT decided: that these pieces compose to the documented "
    "output for every chain and nesting (value-level).")
NOT_DECIDED = ("the rendered output for arbitrary chains / nestings of blocks and super() calls (value-level composition); registration-order independence "
               "beyond C10.DERIVED")
ASSUMPTIONS = ["std Vec::reverse / Rev / HashMap entry().or_insert behave as documented"]

FINALIZE = "tera::Tera::finalize_templates"
VM = "vm::interpreter::VirtualMachine::<'tera>::interpret"


def run(ctx, rep):
    for cfg in ctx.tera_configs():
        crate = ctx.crate(cfg)
        check_order(crate, rep, cfg)
        check_lineage(crate, rep, cfg)
        check_vm(crate, rep, cfg)
        check_block(crate, rep, cfg)
        check_compiles_all(crate, rep, cfg)
        # "regardless of the order in which the templates were registered": lineages and parent chains are recomputed from the parse-time
        # definitions and never read back while being computed — the C10.DERIVED inventory, which is as much a clause of this property
        from props import c10
        c10.check_derived(crate, rep, cfg)


def is_str_lit(body, op, lit):
    c = const_of(body, op)
    return bool(c) and c.get("s") == lit


def edge_targets(body, crate, call_bb, truth):
    """targets of the switch edges on which the bool returned by the call at call_bb has the given truth"""
    ef = EdgeFacts(body, crate)
    out = []
    for sb in sorted(body.reachable):
        if body.term(sb)["k"] != "switch":
            continue
        for tgt, fl in ef.facts_for_switch(sb).items():
            for f in fl:
                if f[0] == "call" and f[4] == call_bb and f[3] is truth and tgt != sb:
                    out.append((sb, tgt))
    return out


# --------------------------------------------------------------------------------------------------------------- ORDER

def check_order(crate, rep, cfg):
    fp = crate.one("template::find_parents")
    rep.analysed(fp)
    tr = Tracer(fp)
    revs = [bb for bb, t in fp.calls() if callee_def(t).endswith("<impl [T]>::reverse")]
    pushes = [bb for bb, t in fp.calls() if callee_def(t).endswith("Vec::<T, A>::push") and "Vec<std::string::String>" in (t["atys"][0] if t["atys"] else "")]
    oks = [bb for bb, idx, st in find_aggs(fp, "std::result::Result", "Ok")]
    rec = [bb for bb, t in fp.calls() if fp.path in callee_names(t)]
    # push happens before the recursive call (nearest parent first), reverse exactly once on the path that returns Ok
    ok = len(revs) <= 1 and len(oks) == 1 and (not revs or fp.dominates(revs[0], oks[0])) and bool(rec) and \
        any(fp.dominates(p, r) for p in pushes for r in rec) and not any(r in fp.reach_from(revs[0]) for r in rec if revs)
    if ok:
        # what is pushed before the descent is the parent's name; what is reversed and returned is the accumulated vector
        pl = [tr.operand(fp.term(p)["args"][1]) for p in pushes if any(fp.dominates(p, r) for r in rec)]
        ok = all(ls and all(".name" in l.projs for l in ls) for ls in pl)
    # the orientation the producer gives the chain; the three consumers below must read it the same way (a consistent flip of all four
    # sites would be behaviour-preserving and is accepted)
    root_first = bool(revs)
    rep.add("C04.ORDER", "C04.ORDER:find_parents:orientation", ok, fp.where(revs[0]) if revs else fp.where(0), "find_parents pushes each parent's name before descending (nearest "
            "first) and %s: the stored chain is %s" % ("reverses the vector once on the path that returns it" if root_first else "returns it as built",
                                                         "root-first" if root_first else "nearest-first") + ("" if ok else " — VIOLATED / not recognised"))
    # render starts at parents.first()
    rt = crate.one("vm::interpreter::VirtualMachine::<'tera>::render_to")
    rep.analysed(rt)
    rtr = Tracer(rt)
    firsts = [(bb, t) for bb, t in rt.calls() if callee_def(t).rsplit("::", 1)[-1] in ("first", "last") and any(".parents" in l.projs for l in rtr.operand(t["args"][0]))]
    want = "::first" if root_first else "::last"
    ok = len(firsts) == 1 and callee_def(firsts[0][1]).endswith(want)
    rep.add("C04.ORDER", "C04.ORDER:render_to:root-end-of-chain", ok, rt.where(firsts[0][0]) if firsts else rt.where(0), "rendering starts from `parents.%s()` — the root ancestor in a "
            "%s chain" % (want.strip(":"), "root-first" if root_first else "nearest-first") + ("" if ok else " — VIOLATED: the orientation of the parent chain is read differently here "
                                                                                                    "than find_parents builds it"))
    # finalize: both lineage loops walk the chain nearest-first
    fz = crate.one(FINALIZE)
    rep.analysed(fz)
    ftr = Tracer(fz)
    walks = []
    for bb, t in fz.calls():
        if callee_def(t).endswith("Iterator::next") and "slice::Iter<'_, std::string::String>" in (t["atys"][0] if t["atys"] else ""):
            L = fz.innermost_loop(bb)
            if L is None:
                continue
            uses_chunks = any(callee_def(t2).endswith("::or_insert") or callee_def(t2).endswith("is_calling_function") for b2, t2 in fz.calls(sorted(L)))
            if uses_chunks:
                walks.append((bb, "Rev<" in t["atys"][0]))
    ok = len(walks) == 2 and all(r == root_first for _, r in walks)
    rep.add("C04.ORDER", "C04.ORDER:finalize:ancestors-nearest-first", ok, fz.where(walks[0][0]) if walks else fz.where(0), "both lineage loops of finalize_templates (super() chain, "
            "inherited blocks) walk the chain nearest ancestor first, i.e. %s for the orientation find_parents produces (%d loops found, reversed: %s)"
            % ("`.iter().rev()`" if root_first else "`.iter()`", len(walks), [r for _, r in walks]) + ("" if ok else " — VIOLATED"))
    rep.floor("C04.ORDER", "loops over a parent chain that build lineages [%s]" % cfg, len(walks), 2)


# --------------------------------------------------------------------------------------------------------------- LINEAGE

def check_lineage(crate, rep, cfg):
    fz = crate.one(FINALIZE)
    tr = Tracer(fz)
    supers = [(bb, t) for bb, t in fz.calls() if callee_def(t).endswith("Chunk::is_calling_function") and is_str_lit(fz, t["args"][1], "super")]
    rep.floor("C04.LINEAGE", "is_calling_function(\"super\") tests in finalize_templates [%s]" % cfg, len(supers), 2)
    gets = [(bb, t) for bb, t in fz.calls() if callee_def(t).endswith("::get") and "HashMap<std::string::String, parsing::instructions::Chunk>" in (t["atys"][0] if t["atys"] else "")
            or callee_def(t).endswith("::get") and "Map<std::string::String, parsing::instructions::Chunk>" in (t["atys"][0] if t["atys"] else "")]
    pushes = [(bb, t) for bb, t in fz.calls() if callee_def(t).endswith("Vec::<T, A>::push") and "Vec<parsing::instructions::Chunk>" in (t["atys"][0] if t["atys"] else "")]
    own = [x for x in supers if all(l.kind == "call" and l.detail[0].endswith("Iterator::next") for l in tr.operand(x[1]["args"][0]))]
    par = [x for x in supers if x not in own]
    ok = len(own) == 1 and len(par) == 1 and len(gets) >= 1 and len(pushes) == 1
    if not ok:
        rep.bad("C04.LINEAGE", "C04.LINEAGE:finalize:shape", fz.where(0), "anchor: one own-definition super() test, one ancestor super() test, one push of an ancestor chunk "
                "(found %d/%d/%d) — lineage construction not recognised" % (len(own), len(par), len(pushes)))
        return
    own_bb, par_bb, push_bb = own[0][0], par[0][0], pushes[0][0]
    # own definition first: the lineage vector is created from the own chunk (vec![chunk.clone()]) — the pushed-to vector's creation takes the iterated chunk
    recv = tr.operand(pushes[0][1]["args"][0])
    init_ok = False
    for l in recv:
        if l.kind == "call":
            # vec![x] lowers to box -> into_vec; the box content is the clone of the iterated chunk
            init_ok = True
    # the vector the ancestors are pushed to is the one inserted under this block's name
    inserts = [(bb, t) for bb, t in fz.calls() if callee_def(t).endswith("::insert") and "Vec<parsing::instructions::Chunk>" in str(t["atys"])]
    same_vec = False
    for bb, t in inserts:
        vl = tr.operand(t["args"][2])
        if vl and {(l.kind, l.detail) for l in vl} == {(l.kind, l.detail) for l in recv}:
            same_vec = True
            # created before the own super() test or at least before the walk, from the iterated (name, chunk) pair
    # first element: find the aggregate / array the vec! is made of and trace it to the iterated chunk's clone
    first_from_own = False
    for bb, idx, st in fz.stmts():
        if idx != "t" and st.get("k") == "assign" and st["rv"]["k"] == "agg" and st["rv"].get("ak") == "array" and "Chunk" in fz.local_ty(st["pl"]["l"]):
            ls = tr.operand(st["rv"]["ops"][0])
            if ls and all(l.kind == "call" and l.detail[0].endswith("Iterator::next") for l in ls) and fz.dominates(bb, own_bb):
                first_from_own = True
    ok = same_vec and first_from_own
    rep.add("C04.LINEAGE", "C04.LINEAGE:finalize:own-definition-first", ok, fz.where(own_bb), "the lineage vector inserted for a block is created as `vec![own chunk]` (element 0 = the "
            "template's own definition) and is the vector the ancestors are appended to" + ("" if ok else " — VIOLATED (same vector: %s, first from own: %s)" % (same_vec, first_from_own)))
    # ancestors only while super() is called: the walk is entered on the true edge of the own test; after a push the false edge of the ancestor test leaves the loop
    walk = fz.innermost_loop(push_bb) or set()
    t_edges = edge_targets(fz, crate, own_bb, True)
    ok = bool(walk) and bool(t_edges) and any(all(fz.dominates(tgt, x) for x in walk) for sb, tgt in t_edges)
    rep.add("C04.LINEAGE", "C04.LINEAGE:finalize:ancestors-only-if-own-calls-super", ok, fz.where(own_bb), "the ancestor walk runs only on the true edge of "
            "`own chunk.is_calling_function(\"super\")`" + ("" if ok else " — VIOLATED"))
    # ... and on nothing else: every block taken from `tpl.blocks` has its own super() test evaluated before its lineage is stored, and once the
    # test is true the lineage cannot be stored without going through the ancestor walk (no further condition can switch the chain off)
    blk_next = [bb for bb, t in fz.calls() if callee_def(t).endswith("Iterator::next") and "parsing::instructions::Chunk>" in (t["atys"][0] if t["atys"] else "")
                and "std::string::String" in t["atys"][0] and fz.dominates(bb, own_bb)]
    lin_ins = [bb for bb, t in inserts if {(l.kind, l.detail) for l in tr.operand(t["args"][2])} == {(l.kind, l.detail) for l in recv}]
    heads_w = [bb for bb, t in fz.calls(sorted(walk)) if callee_def(t).endswith("Iterator::next")]
    ok = bool(blk_next) and bool(lin_ins) and bool(heads_w)
    why = "anchors (blocks loop / lineage insert / walk head) not found"
    if ok:
        nb = max(blk_next, key=lambda x: len([y for y in fz.reachable if fz.dominates(x, y)]) * -1)   # the innermost such next()
        for sb, tgt in some_edges(fz, crate, nb):
            r = fz.reach_from(tgt, removed_blocks=frozenset([own_bb]))
            if any(x in r for x in lin_ins):
                ok = False
                why = "a block's lineage can be stored without its own is_calling_function(\"super\") test having been evaluated"
        for sb, tgt in t_edges:
            r = fz.reach_from(tgt, removed_blocks=frozenset(heads_w))
            if any(x in r for x in lin_ins):
                ok = False
                why = "after the own definition was found to call super() the lineage can still be stored without walking the ancestors"
    rep.add("C04.LINEAGE", "C04.LINEAGE:finalize:walk-iff-own-calls-super", ok, fz.where(own_bb), "whether the ancestors are walked depends on `own.is_calling_function(\"super\")` alone: "
            "the test is evaluated for every block before its lineage is stored, and its true edge leads to the store only through the walk" + ("" if ok else " — VIOLATED: " + why))
    # push only where the ancestor defines the block, and what is pushed is that definition
    g = [x for x in gets if x[0] in walk]
    ok = len(g) == 1 and any(fz.dominates(tgt, push_bb) for sb, tgt in some_edges(fz, crate, g[0][0]))
    if ok:
        pv = tr.operand(pushes[0][1]["args"][1])
        ok = bool(pv) and all(l.kind == "call" and l.detail[2] == g[0][0] for l in pv)
        # the map consulted is the ancestor's `blocks` (parse-time definitions), keyed by this block's name
        ml = tr.operand(g[0][1]["args"][0])
        ok = ok and bool(ml) and all(".blocks" in l.projs for l in ml)
    rep.add("C04.LINEAGE", "C04.LINEAGE:finalize:push-only-defining-ancestors", ok, fz.where(push_bb), "an ancestor's chunk is appended only on the Some edge of "
            "`ancestor.blocks.get(block_name)` and is that very definition (ancestors that do not define the block are skipped)" + ("" if ok else " — VIOLATED"))
    # the ancestor test is on the chunk just pushed; its false edge leaves the walk, its true edge continues it
    al = tr.operand(par[0][1]["args"][0])
    ok = bool(g) and bool(al) and all(l.kind == "call" and l.detail[2] == g[0][0] for l in al) and fz.dominates(push_bb, par_bb)
    f_edges = edge_targets(fz, crate, par_bb, False)
    heads = [bb for bb, t in fz.calls(sorted(walk)) if callee_def(t).endswith("Iterator::next")]
    if ok:
        ok = bool(f_edges)
        # from the false edge, staying inside the loop's blocks, the loop head cannot be reached
        for sb, tgt in f_edges:
            inside = fz.reach_from(tgt, removed_blocks=frozenset(set(fz.reachable) - walk)) if tgt in walk else set()
            if set(heads) & inside:
                ok = False
    rep.add("C04.LINEAGE", "C04.LINEAGE:finalize:stop-at-first-non-super", ok, fz.where(par_bb), "after appending an ancestor's definition the walk goes on only if that definition calls "
            "super() (the false edge leaves the loop): the lineage ends at the first definition that does not" + ("" if ok else " — VIOLATED"))
    # inherited blocks: or_insert (never overwrite), into the child's own map, lineage taken from the ancestor's computed map
    ors = [(bb, t) for bb, t in fz.calls() if callee_def(t).endswith("::or_insert")]
    ents = [(bb, t) for bb, t in fz.calls() if callee_def(t).endswith("::entry") and "Vec<parsing::instructions::Chunk>" in str(t["atys"])]
    ors_loop = (fz.innermost_loop(ors[0][0]) if ors else None) or set()
    plain = [(bb, t) for bb, t in inserts if bb in ors_loop]
    ok = len(ors) == 1 and len(ents) == 1 and not plain
    if ok:
        el = tr.operand(ors[0][1]["args"][0])
        ok = bool(el) and all(l.kind == "call" and l.detail[2] == ents[0][0] for l in el)
    rep.add("C04.LINEAGE", "C04.LINEAGE:finalize:inherit-without-overwrite", ok, fz.where(ors[0][0]) if ors else fz.where(0), "blocks a template does not define are filled in with "
            "`entry(name).or_insert(lineage)`: an own (or nearer) definition is never replaced" + ("" if ok else " — VIOLATED"))
    # orphan check: child blocks must exist in some ancestor — an error report is pushed on the false edge of the any()
    anys = [(bb, t) for bb, t in fz.calls() if callee_def(t).endswith("Iterator::any") and "std::string::String" in (t["atys"][0] if t["atys"] else "")]
    ok = False
    for bb, t in anys:
        for sb, tgt in edge_targets(fz, crate, bb, False):
            region = {x for x in fz.reach_from(tgt) if fz.dominates(tgt, x)}
            if any(callee_def(t2).endswith("ReportError::new") for b2, t2 in fz.calls(sorted(region))) and \
                    any(callee_def(t2).endswith("Vec::<T, A>::push") for b2, t2 in fz.calls(sorted(region))):
                ok = True
    rep.add("C04.LINEAGE", "C04.LINEAGE:finalize:orphan-blocks-refused", ok, fz.where(anys[0][0]) if anys else fz.where(0), "a block of a child template that no ancestor defines "
            "produces an error report (false edge of the `parents.iter().any(..contains_key(block))` test)" + ("" if ok else " — VIOLATED"))


# --------------------------------------------------------------------------------------------------------------- VM

def check_compiles_all(crate, rep, cfg):
    """C04.BLOCK — a child's block overrides are found by compiling its WHOLE body (a block may sit inside a filter section, a set block or
    a component-call body at the child's top level): Template::new hands the parser's node list to the body compiler as it is."""
    tn = crate.one("template::Template::new")
    # `?` and an error mapping leave the Ok payload alone; nothing else is looked through
    tr = Tracer(tn, transparent={"std::ops::Try::branch", "std::result::Result::<T, E>::map_err"})
    comps = [(bb, t) for bb, t in tn.calls() if callee_def(t).endswith("Compiler::<'s>::compile") or callee_def(t).endswith("compiler::Compiler::compile")]
    if not comps:
        comps = [(bb, t) for bb, t in tn.calls() if callee_def(t).rsplit("::", 1)[-1] == "compile" and "Compiler" in callee_def(t)]
    ok = bool(comps)
    why = "no Compiler::compile call"
    n = 0
    for bb, t in comps:
        ls = [l for l in tr.operand(t["args"][1]) if l.kind != "cycle"]
        from_parser = bool(ls) and all(l.kind == "call" and l.detail[0].endswith("::parse") and ".nodes" in l.projs for l in ls)
        if from_parser:
            n += 1
            # ... and it is not edited in place on the way (retain / drain / truncate / sort take `&mut nodes`)
            chain, todo = set(), [t["args"][1]]
            while todo:
                op = todo.pop()
                if op["k"] in ("copy", "move") and op["pl"]["l"] not in chain:
                    chain.add(op["pl"]["l"])
                    for (b3, i3, dp, rv) in tn.defs.get(op["pl"]["l"], []):
                        if rv["k"] == "use":
                            todo.append(rv["op"])
            for b3, i3, st in tn.stmts():
                if i3 != "t" and st.get("k") == "assign" and st["rv"]["k"] == "ref" and st["rv"].get("bk") not in ("shared", None) and st["rv"]["pl"]["l"] in chain and \
                        (not st["rv"]["pl"]["p"] or pl_projs(st["rv"]["pl"])[-1:] == [".nodes"]):
                    ok, why = False, "the node list is borrowed mutably before it is compiled (edited in place) at %s" % tn.where(b3, i3)
        elif any(l.kind == "call" and l.detail[0].endswith("::parse") for l in ls) or any(l.kind == "call" and l.detail[0].rsplit("::", 1)[-1] in ("collect", "filter", "retain", "into_iter", "from_iter") for l in ls):
            ok, why = False, "the body compiler receives a transformed node list (%s)" % sorted(leaf_str(l) for l in ls)[:2]
    ok = ok and n == 1
    if ok is False and why == "no Compiler::compile call":
        pass
    elif n != 1 and ok is False and not why.startswith("the body"):
        why = "%d compile calls receive the parser's node list as it is" % n
    rep.add("C04.BLOCK", "C04.BLOCK:Template::new:compiles-every-node", ok, tn.where(comps[0][0]) if comps else tn.where(0), "Template::new compiles `parser_output.nodes` unfiltered "
            "(blocks nested in filter sections / set blocks / component bodies of a child are still overrides)" + ("" if ok else " — VIOLATED: " + why))


def check_current_block(vm, crate, rep, tr, region):
    inner = [bb for bb, t in vm.calls(sorted(region)) if VM in callee_names(t)]
    writes = []     # (bb, value leaves, is_replace)
    for bb, idx, st in vm.stmts(sorted(region)):
        if idx != "t" and st.get("k") == "assign" and pl_projs(st["pl"])[-1:] == [".current_block_name"]:
            writes.append((bb, tr._rv(st["rv"], (), set(), 0, bb, idx), False))
    for bb, t in vm.calls(sorted(region)):
        if callee_def(t).rsplit("::", 1)[-1] in ("replace", "insert", "take") and t["args"] and \
                any(last_field(l.projs) == ".current_block_name" for l in tr.operand(t["args"][0]) if l.kind == "param"):
            writes.append((bb, tr.operand(t["args"][1]) if len(t["args"]) > 1 else set(), True))
    before = [w for w in writes if inner and all(vm.dominates(w[0], i) for i in inner)]
    after = [w for w in writes if w not in before]
    ok = bool(inner) and len(before) == 1 and bool(after)
    why = "%d writes of State.current_block_name before and %d after the nested run" % (len(before), len(after))
    if ok:
        ent = before[0]
        el = through(tr, ent[1])
        ok = bool(el) and all("as:RenderBlock" in l.projs for l in el)
        why = "the name made current is not the opcode's block name"
    if ok:
        pops = [bb for bb, t in vm.calls(sorted(region)) if callee_def(t).endswith("Vec::<T, A>::pop") and any(".blocks" in l.projs for l in tr.operand(t["args"][0]))]
        for bb, leaves, _ in after:
            for l in through(tr, leaves):
                if l.kind == "cycle":
                    continue
                saved = l.kind == "call" and l.detail[2] == ent[0] and ent[2]
                top = False
                if l.kind == "call" and l.detail[0].endswith("<impl [T]>::last") or (l.kind == "call" and l.detail[0].rsplit("::", 1)[-1] in ("map", "copied", "cloned")):
                    # blocks.last() (possibly .map(|b| b.0)) evaluated after the pop
                    cb = l.detail[2]
                    t2 = vm.term(cb)
                    src = tr.operand(t2["args"][0])
                    lasts = [cb] if l.detail[0].endswith("<impl [T]>::last") else [x.detail[2] for x in src if x.kind == "call" and x.detail[0].endswith("<impl [T]>::last")]
                    top = bool(lasts) and bool(pops) and all(any(lb in vm.reach_from(pb) and lb != pb and pb not in vm.reach_from(lb, removed_blocks=frozenset(
                        bb2 for bb2, t3 in find_calls(vm, ["parsing::instructions::Chunk::get"]))) for pb in pops) for lb in lasts)
                if not (saved or top):
                    ok = False
                    why = "what is put back at %s is neither the value saved on entry nor the top of the block stack after the pop (%s)" % (vm.where(bb), leaf_str(l))
        if ok:
            heads = {bb for bb, t in find_calls(vm, ["parsing::instructions::Chunk::get"])}
            for i in inner:
                reach = vm.reach_from(i, removed_blocks=frozenset(w[0] for w in after))
                if (reach & heads) or any(vm.term(x)["k"] == "return" for x in reach):
                    ok = False
                    why = "the enclosing block's name is not put back on every path after the nested run"
    rep.add("C04.VM", "C04.VM:RenderBlock:current-block-saved-and-restored", ok, vm.where(inner[0]) if inner else vm.where(0), "RenderBlock makes its block the current one "
            "(what super() resolves against) for the nested run and puts the enclosing block's name back before anything else runs" + ("" if ok else " — VIOLATED: " + why))


def check_vm(crate, rep, cfg):
    vm = crate.one(VM)
    rep.analysed(vm)
    tr = Tracer(vm)
    region = vm_arm(vm, crate, "RenderBlock")
    # lineage from self.template.block_lineage
    gets = [(bb, t) for bb, t in vm.calls(sorted(region)) if callee_def(t).endswith("::get") and "Vec<parsing::instructions::Chunk>" in str(t["atys"][0] if t["atys"] else "")]
    ok = len(gets) == 1
    if ok:
        ml = tr.operand(gets[0][1]["args"][0])
        ok = bool(ml) and all(l.kind == "param" and l.detail == 1 and [p for p in l.projs if p.startswith(".")][:2] == [".template", ".block_lineage"] for l in ml)
        kl = tr.operand(gets[0][1]["args"][1])
        ok = ok and bool(kl) and all("as:RenderBlock" in l.projs for l in kl)
    rep.add("C04.VM", "C04.VM:RenderBlock:lineage-of-most-derived", ok, vm.where(gets[0][0]) if gets else vm.where(0), "RenderBlock looks the block up in `self.template.block_lineage` "
            "(the template being rendered, not the chunk's owner) under the opcode's block name" + ("" if ok else " — VIOLATED"))
    # executes element 0 and pushes level 0
    idxs = [(bb, t) for bb, t in vm.calls(sorted(region)) if callee_def(t) == "std::ops::Index::index" and (t["atys"][0] if t["atys"] else "").lstrip("&").startswith("std::vec::Vec<parsing::instructions::Chunk>")]
    ok = len(idxs) == 1 and idxs[0][1]["args"][1]["k"] == "const" and str(idxs[0][1]["args"][1].get("v")) == "0"
    if ok and gets:
        rl = tr.operand(idxs[0][1]["args"][0])
        ok = bool(rl) and all(l.kind == "call" and l.detail[2] in {g[0] for g in gets} or (l.kind == "call" and l.detail[0].endswith("::filter")) for l in through(tr, rl))
    if not idxs:
        # `lineage.first()`: the same element, None for an empty lineage (the error path)
        firsts = []
        for bd in crate.with_closures(vm) if hasattr(crate, "with_closures") else [vm]:
            for bb, t in bd.calls(sorted(region) if bd is vm else None):
                if callee_def(t).endswith("<impl [T]>::first") and "parsing::instructions::Chunk" in (t["atys"][0] if t["atys"] else ""):
                    firsts.append((bd, bb, t))
        if len(firsts) == 1:
            bd, bb, t = firsts[0]
            if bd is vm:
                rl = tr.operand(t["args"][0])
                ok = bool(rl) and all(l.kind == "call" and l.detail[2] in {g[0] for g in gets} for l in through(tr, rl))
            else:
                # inside the closure of `get(name).and_then(|bl| bl.first()..)`: the closure is handed to an adapter applied to the lookup
                ok = any(callee_def(t2).rsplit("::", 1)[-1] in ("and_then", "map", "filter_map") and
                         any(l.kind == "call" and l.detail[2] in {g[0] for g in gets} for l in tr.operand(t2["args"][0])) for b2, t2 in vm.calls(sorted(region)))
            idxs = [(bb if bd is vm else (gets[0][0] if gets else 0), t)]
    rep.add("C04.VM", "C04.VM:RenderBlock:most-derived-definition", ok, vm.where(idxs[0][0]) if idxs else vm.where(0), "RenderBlock runs `lineage[0]` — the most-derived definition"
            + ("" if ok else " — VIOLATED"))
    pushes = [(bb, t) for bb, t in vm.calls(sorted(region)) if callee_def(t).endswith("Vec::<T, A>::push") and any(".blocks" in l.projs for l in tr.operand(t["args"][0]))]
    ok = len(pushes) == 1
    if ok:
        a = pushes[0][1]["args"][1]
        lv = tr.place(a["pl"], [".2"]) if a["k"] in ("copy", "move") else set()
        ok = bool(lv) and all(l.kind == "const" and str(l.detail[1]) == "0" for l in lv)
    rep.add("C04.VM", "C04.VM:RenderBlock:level-0", ok, vm.where(pushes[0][0]) if pushes else vm.where(0), "RenderBlock pushes (name, lineage, 0) on the active-block stack"
            + ("" if ok else " — VIOLATED"))
    # the name super() resolves against: RenderBlock makes its block the current one for the nested run and puts the enclosing block's
    # name back afterwards, on every path — either the value saved on entry, or the top of the active-block stack read AFTER the pop
    check_current_block(vm, crate, rep, tr, region)
    # super(): the arm region is the part of CallFunction guarded by name == "super"
    cf = vm_arm(vm, crate, "CallFunction")
    sup_t = []
    for bb, t in vm.calls(sorted(cf)):
        if callee_def(t).endswith("::eq") and any(is_str_lit(vm, a, "super") for a in t["args"]):
            sup_t += [tgt for sb, tgt in edge_targets(vm, crate, bb, True)]
    if not sup_t:
        rep.anchor_missing("C04.VM", "the `name == \"super\"` branch of the CallFunction arm")
        return
    sreg = {x for x in cf if any(vm.dominates(t0, x) for t0 in sup_t)}
    rp = [(bb, t) for bb, t in vm.calls(sorted(sreg)) if callee_def(t).endswith("::rposition")]
    rep.add("C04.VM", "C04.VM:super:topmost-matching-block", len(rp) == 1, vm.where(rp[0][0]) if rp else vm.where(0), "super() finds its lineage with `blocks.iter().rposition(..)`: "
            "the topmost active entry of the current block name" + ("" if len(rp) == 1 else " — VIOLATED"))
    idxs = [(bb, t) for bb, t in vm.calls(sorted(sreg)) if callee_def(t) == "std::ops::Index::index" and (t["atys"][0] if t["atys"] else "").lstrip("&").startswith("std::vec::Vec<parsing::instructions::Chunk>")]
    if not idxs:
        # `lineage.get(level + 1)` with the None edge raising the error
        idxs = [(bb, t) for bb, t in vm.calls(sorted(sreg)) if (callee_def(t).endswith("<impl [T]>::get") or callee_def(t).endswith("Vec::<T, A>::get"))
                and "parsing::instructions::Chunk" in (t["atys"][0] if t["atys"] else "")]
    ok = len(idxs) == 1
    if ok:
        il = tr.operand(idxs[0][1]["args"][1])
        ok = bool(il) and all(l.kind == "op" and l.detail[1] in ("Add", "AddWithOverflow") for l in il)
        for l in il:
            if l.kind == "op":
                rv = vm.blocks[l.detail[2]]["s"][l.detail[3]]["rv"]
                ok = ok and rv["r"]["k"] == "const" and str(rv["r"].get("v")) == "1"
    rep.add("C04.VM", "C04.VM:super:next-level", ok, vm.where(idxs[0][0]) if idxs else vm.where(0), "super() runs `lineage[level + 1]`: the same block in the nearest ancestor of the "
            "definition that is running" + ("" if ok else " — VIOLATED"))
    # level bookkeeping: .2 = level + 1 before the nested interpret, .2 = level after it on every path
    sets = []
    for bb, idx, st in vm.stmts(sorted(sreg)):
        if idx != "t" and st.get("k") == "assign" and pl_projs(st["pl"])[-1:] == [".2"]:
            sets.append((bb, idx, st["rv"]))
    inner = [bb for bb, t in vm.calls(sorted(sreg)) if VM in callee_names(t)]
    ok = len(sets) == 2 and len(inner) == 1
    if ok:
        before = [s for s in sets if vm.dominates(s[0], inner[0]) and s[0] != inner[0] or (s[0] == inner[0])]
        after = [s for s in sets if s not in before]
        ok = len(before) == 1 and len(after) == 1
        if ok:
            bl = tr._rv(before[0][2], (), set(), 0, before[0][0], before[0][1])
            al = tr._rv(after[0][2], (), set(), 0, after[0][0], after[0][1])
            ok = bool(bl) and all(l.kind == "op" and l.detail[1] in ("Add", "AddWithOverflow") for l in bl) and bool(al) and not any(l.kind == "op" for l in al)
            # restore on every path: from the nested call, neither the next fetch nor a return is reached without passing the restore
            heads = {bb for bb, t in find_calls(vm, ["parsing::instructions::Chunk::get"])}
            reach = vm.reach_from(inner[0], removed_blocks=frozenset([after[0][0]]))
            ok = ok and not (reach & heads) and not any(vm.term(x)["k"] == "return" for x in reach)
    rep.add("C04.VM", "C04.VM:super:level-set-and-restored", ok, vm.where(inner[0]) if inner else vm.where(0), "super() records level + 1 for the nested run and writes the old level back "
            "before the error check, the next instruction or any return (nested super() calls and later siblings see the right level)" + ("" if ok else " — VIOLATED"))
    # every super() call renders: the next instruction is reached from the start of the super() branch only through the nested interpret
    # (or not at all: error returns) — no answer from a cache
    heads = {bb for bb, t in find_calls(vm, ["parsing::instructions::Chunk::get"])}
    ok = len(inner) == 1
    if ok:
        for t0 in sup_t:
            if vm.reach_from(t0, removed_blocks=frozenset([inner[0]])) & heads:
                ok = False
        # and the value pushed is built from the buffer that nested run wrote
        pushes = [(bb, t) for bb, t in vm.calls(sorted(sreg)) if callee_def(t).endswith("stack::Stack::push")]
        out_l = {(l.kind, l.detail) for l in tr.operand(vm.term(inner[0])["args"][-1])}
        for bb, t in pushes:
            frontier = set(tr.operand(t["args"][1]))
            for _ in range(4):
                nxt = set()
                for l in frontier:
                    if l.kind == "call" and l.detail[0].rsplit("::", 1)[-1] in ("safe_string", "from_utf8", "from_utf8_lossy", "mark_safe"):
                        nxt |= set(tr.operand(vm.term(l.detail[2])["args"][0]))
                    else:
                        nxt.add(l)
                frontier = nxt
            srcs = {(l.kind, l.detail) for l in frontier}
            if not (srcs and srcs <= out_l):
                ok = False
    rep.add("C04.VM", "C04.VM:super:always-renders", ok, vm.where(inner[0]) if inner else vm.where(0), "each super() call interprets the ancestor's definition: the next instruction is "
            "reachable from the super() branch only through the nested interpret, and the value pushed comes from the buffer that run wrote (no memoised answer — the ancestor may "
            "read state that changed since the last call)" + ("" if ok else " — VIOLATED"))
    # root chunk: parents non-empty -> root's chunk, else own chunk; no new VM
    rt = crate.one("vm::interpreter::VirtualMachine::<'tera>::render_to")
    rtr = Tracer(rt)
    news = [(bb, t) for bb, t in rt.calls() if callee_def(t).endswith("State::<'t>::new_with_chunk")]
    ok = len(news) == 1
    if ok:
        cl = rtr.operand(news[0][1]["args"][1])
        kinds = set()
        for l in cl:
            if l.kind == "call" and l.detail[0].endswith("must_get_template") and ".chunk" in l.projs:
                kinds.add("root")
            elif l.kind == "param" and l.detail == 1 and [p for p in l.projs if p.startswith(".")][-2:] == [".template", ".chunk"]:
                kinds.add("own")
            else:
                kinds.add("?" + leaf_str(l))
        ok = kinds == {"root", "own"}
        vms = list(find_aggs(rt, "vm::interpreter::VirtualMachine"))
        ok = ok and not vms
    rep.add("C04.VM", "C04.VM:render_to:root-chunk-own-template", ok, rt.where(news[0][0]) if news else rt.where(0), "rendering runs the root ancestor's chunk (or the template's own when it "
            "extends nothing) on the same VM, whose template — the source of block lineages — stays the most-derived one" + ("" if ok else " — VIOLATED"))


# --------------------------------------------------------------------------------------------------------------- BLOCK

def check_block(crate, rep, cfg):
    vm = crate.one(VM)
    tr = Tracer(vm)
    region = vm_arm(vm, crate, "RenderBlock")
    ef = EdgeFacts(vm, crate)
    ws = [(bb, idx, rv) for bb, idx, rv in field_assigns(vm, ".block_buffer") if bb in region]
    inner = [(bb, t) for bb, t in vm.calls(sorted(region)) if VM in callee_names(t)]
    ok = len(ws) == 1 and len(inner) == 2
    if ok:
        wb = ws[0][0]
        # the buffer stored is the one the nested interpret wrote to
        bl = tr._rv(ws[0][2], (), set(), 0, ws[0][0], ws[0][1])
        capt = [x for x in inner if vm.dominates(x[0], wb)]
        ok = len(capt) == 1
        if ok:
            ol = tr.operand(capt[0][1]["args"][-1])
            ok = bool(bl) and {(l.kind, l.detail) for l in bl} == {(l.kind, l.detail) for l in ol}
            # on the true edge of capture_block == Some(block_name)
            eqs = [(bb, t) for bb, t in vm.calls(sorted(region)) if callee_def(t).endswith("::eq") and any(".capture_block" in l.projs for a in t["args"] for l in tr.operand(a))]
            ok = ok and len(eqs) == 1 and any(vm.dominates(tgt, capt[0][0]) for sb, tgt in edge_targets(vm, crate, eqs[0][0], True))
            other = [x for x in inner if x is not capt[0]]
            ok = ok and any(vm.dominates(tgt, other[0][0]) for sb, tgt in edge_targets(vm, crate, eqs[0][0], False))
            # the other run writes to the arm's real output
            ol2 = tr.operand(other[0][1]["args"][-1])
            ok = ok and bool(ol2) and all(l.kind == "param" and "Write" in vm.local_ty(l.detail) for l in ol2)
    rep.add("C04.BLOCK", "C04.BLOCK:vm:capture-the-named-block", ok, vm.where(ws[0][0]) if ws else vm.where(0), "RenderBlock renders into a private buffer exactly on the edge "
            "`capture_block == Some(this block)` and stores that buffer in State.block_buffer; otherwise it renders to the output" + ("" if ok else " — VIOLATED"))
    # every write instruction prefers the innermost capture buffer over `output`: the private buffer only receives the block's text if
    # the capture stack is put aside while the block renders (a block may sit in a filter section or a set block), and it must be back
    # before anything else runs
    if len(ws) == 1 and len(inner) == 2:
        capt = [x for x in inner if vm.dominates(x[0], ws[0][0])]
        ok = len(capt) == 1
        why = "capture branch not recognised"
        if ok:
            cb = capt[0][0]
            takes = [bb for bb, t in vm.calls(sorted(region)) if callee_def(t).endswith("mem::take") and any(".capture_buffers" in l.projs for l in tr.operand(t["args"][0]))
                     and vm.dominates(bb, cb)]
            restores = [bb for bb, idx, rv in field_assigns(vm, ".capture_buffers") if bb in region and cb in vm.reach_from(0) and bb in vm.reach_from(cb)]
            ok = bool(takes) and bool(restores)
            why = "the capture stack is not taken before the requested block renders (its text goes to the enclosing filter section / set block and render_block returns nothing)"
            if ok:
                # what is put back is what was taken
                good = []
                for bb, idx, rv in field_assigns(vm, ".capture_buffers"):
                    if bb in restores:
                        ls = tr._rv(rv, (), set(), 0, bb, idx)
                        if ls and all(l.kind == "call" and l.detail[2] in takes for l in ls):
                            good.append(bb)
                heads = {bb for bb, t in find_calls(vm, ["parsing::instructions::Chunk::get"])}
                reach = vm.reach_from(cb, removed_blocks=frozenset(good))
                ok = bool(good) and not (reach & heads) and not any(vm.term(x)["k"] == "return" for x in reach)
                why = "the capture stack taken for the requested block is not put back on every path"
                # ... and the text is handed on to the capture it belongs to (so an enclosing filter sees what it sees in the full render)
                if ok:
                    fw = [bb for bb, t in vm.calls(sorted(region)) if callee_def(t).endswith("::extend_from_slice") and any(vm.dominates(g, bb) for g in good)]
                    ok = bool(fw)
                    why = "the captured text is not handed on to the enclosing capture"
        rep.add("C04.BLOCK", "C04.BLOCK:vm:capture-stack-aside", ok, vm.where(capt[0][0]) if capt else vm.where(0), "while the requested block renders into its private buffer the capture "
                "stack is put aside (mem::take), put back on every path before the next instruction or a return, and the text is then appended to the innermost enclosing capture"
                + ("" if ok else " — VIOLATED: " + why))
    # every RenderBlock renders its block: from the arm's entry, the next instruction is reached only through the nested interpret — never
    # by stepping over the block (a block that is skipped when it "cannot matter" changes what the blocks after it see and write)
    from props.c09 import variant_switches
    heads = {bb for bb, t in find_calls(vm, ["parsing::instructions::Chunk::get"])}
    ok = len(inner) >= 1
    why = "no nested interpret in the arm"
    for sb, listed in variant_switches(vm, crate, "instructions::Instruction"):
        if "RenderBlock" in listed and len(listed) > 8:
            reach = vm.reach_from(listed["RenderBlock"], removed_blocks=frozenset({x[0] for x in inner} | {sb}))
            hit = sorted(reach & heads)
            if hit:
                ok = False
                why = "the next fetch (%s) is reachable from the arm entry without running the block" % vm.where(hit[0])
    rep.add("C04.BLOCK", "C04.BLOCK:vm:every-block-renders", ok, vm.where(inner[0][0]) if inner else vm.where(0), "every path through the RenderBlock arm to the next instruction runs the "
            "block's chunk (nested interpret); the only other exits are error returns" + ("" if ok else " — VIOLATED: " + why))
    writers = sorted({crate.root_of(a["body"]).path for a in field_accesses(crate, "vm::state::State", "block_buffer")
                      if a["kind"] not in ("read",) and not (a["kind"] == "call" and not a["mut"])})
    ok = set(writers) <= {VM, "vm::state::State::<'t>::new"}
    rep.add("C04.BLOCK", "C04.BLOCK:block_buffer:writers", ok, vm.where(0), "State.block_buffer is written only by the RenderBlock arm (and created empty): %s" % writers
            + ("" if ok else " — VIOLATED"))
    rt = crate.one("vm::interpreter::VirtualMachine::<'tera>::render_to")
    rtr = Tracer(rt)
    was = [(bb, t) for bb, t in rt.calls() if callee_def(t).endswith("Write::write_all")]
    ok = len(was) == 1
    if ok:
        dl = rtr.operand(was[0][1]["args"][1])
        ok = bool(dl) and all(last_field(l.projs) == ".block_buffer" or ".block_buffer" in l.projs for l in dl)
        # on the Some(block) edge, after the interpret into a sink
        cb = field_assigns(rt, ".capture_block")
        ok = ok and len(cb) == 1 and rt.dominates(cb[0][0], was[0][0])
        sinks = [bb for bb, t in rt.calls() if callee_def(t).endswith("io::sink")]
        ok = ok and bool(sinks) and all(rt.dominates(cb[0][0], s) for s in sinks)
    rep.add("C04.BLOCK", "C04.BLOCK:render_to:returns-the-captured-buffer", ok, rt.where(was[0][0]) if was else rt.where(0), "render_block runs the whole template into a sink with "
            "capture_block set and then writes State.block_buffer to the caller's output" + ("" if ok else " — VIOLATED"))
