//! R-REC / R-DEPTH.ast controls.
pub enum Tree {
    Leaf(u32),
    Wrap(Box<Tree>),
}

pub struct P {
    depth: usize,
    toks: Vec<u32>,
}

impl P {
    /// unguarded self recursion driven by input: must be flagged
    pub fn unguarded(&mut self) -> Result<Tree, String> {
        match self.toks.pop() {
            Some(0) => Ok(Tree::Wrap(Box::new(self.unguarded()?))),
            Some(n) => Ok(Tree::Leaf(n)),
            None => Err("eoi".to_string()),
        }
    }

    /// guarded recursion: must NOT be flagged
    pub fn guarded(&mut self) -> Result<Tree, String> {
        self.depth += 1;
        if self.depth > 40 {
            self.depth -= 1;
            return Err("too deep".to_string());
        }
        let r = self.guarded_inner();
        self.depth -= 1;
        r
    }

    fn guarded_inner(&mut self) -> Result<Tree, String> {
        match self.toks.pop() {
            Some(0) => Ok(Tree::Wrap(Box::new(self.guarded()?))),
            Some(n) => Ok(Tree::Leaf(n)),
            None => Err("eoi".to_string()),
        }
    }

    /// loop-carried wrap without any charge: must be flagged by R-DEPTH.ast
    pub fn wrap_loop(&mut self) -> Tree {
        let mut t = Tree::Leaf(0);
        while let Some(_) = self.toks.pop() {
            t = Tree::Wrap(Box::new(t));
        }
        t
    }
}
