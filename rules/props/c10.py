"""C10 — template registration is atomic and independent of history (structural)."""
from engine import (Tracer, EdgeFacts, find_calls, find_aggs, AnchorMissing, leaf_str, leaf_call_is, callee_def, callee_names, name_matches,
                    iter_operands, pl_str, pl_projs, field_accesses, TRANSPARENT_CALLS)
import rrec
from props import c06

EXPLANATION = (
    "Decides the structural skeleton of C10 on the MIR of tera.rs/template.rs: (UNDO) every insert into Tera.templates made while adding has "
    "its previous value recorded in the undo list, and the error branch of each adder walks that list in reverse re-inserting/removing every "
    "entry (load_from_glob restores by whole-map swap); (COMMIT) finalize_templates mutates *self only from its commit point on, and no error "
    "exit is reachable from the commit point; (DERIVED) the derived fields (Template.parents/block_lineage/total_content_num_bytes/"
    "autoescape_enabled, Tera.components) are written only by Template::new (defaults), the commit and set_templates_auto_escape, and the "
    "functions that compute them never read a derived field — so the derived state is a function of the current (name, source) set, suffixes "
    "and prefixes whatever the history; (MUT) the set of functions that change the template map is the reviewed set and each reaches "
    "finalize_templates on every non-error path. NOT decided: behavioural equivalence with a fresh instance (needs execution).")
NOT_DECIDED = "behavioural equivalence with a fresh instance; HashMap iteration order effects"
ASSUMPTIONS = []

DERIVED_T = ["parents", "block_lineage", "total_content_num_bytes", "autoescape_enabled"]
COMPUTERS = ["tera::Tera::finalize_templates", "template::find_parents", "template::check_include_cycles", "template::check_include_cycles::walk",
             "tera::Tera::validate_template_references", "tera::Tera::resolve_template_name", "tera::Tera::get_template_priority"]
MUTATORS = {"tera::Tera::add_raw_templates", "tera::Tera::add_template_files", "tera::Tera::add_file", "tera::Tera::load_from_glob"}
KEYSET_METHODS = {"insert", "remove", "clear", "retain", "drain", "extend", "entry", "remove_entry"}


def run(ctx, rep):
    cfgs = list(ctx.tera_configs())
    if "tera:glob_fs" not in cfgs:
        cfgs.append("tera:glob_fs")      # load_from_glob / full_reload only exist under this feature: part of the quick tier for this property
    for cfg in cfgs:
        crate = ctx.crate(cfg)
        check_commit(crate, rep, cfg)
        check_undo(crate, rep, cfg)
        check_derived(crate, rep, cfg)
        check_mut(crate, rep, cfg)


def self_mutations(body):
    """blocks where *self (param 1, &mut) is mutated: assignments to its fields, &mut borrows of its fields, or self passed on as &mut"""
    out = []
    for bb, idx, s in body.stmts():
        if idx == "t":
            if s["k"] == "call":
                for a, aty in zip(s["args"], s["atys"]):
                    if a["k"] in ("copy", "move") and aty.startswith("&mut tera::Tera"):
                        out.append((bb, idx, "call " + callee_def(s)))
            continue
        if s["k"] != "assign":
            continue
        pl = s["pl"]
        if pl["l"] == 1 and pl["p"] and pl["p"][0] == "deref":
            out.append((bb, idx, "assign " + pl_str(pl)))
        rv = s["rv"]
        if rv["k"] == "ref" and rv.get("bk") == "mut" and rv["pl"]["l"] == 1 and len(rv["pl"]["p"]) > 1:
            out.append((bb, idx, "&mut " + pl_str(rv["pl"])))
    return out


def check_commit(crate, rep, cfg):
    fin = crate.one("tera::Tera::finalize_templates")
    rep.analysed(fin)
    muts = self_mutations(fin)
    rep.floor("C10.COMMIT", "mutations of *self in finalize_templates [%s]" % cfg, len(muts), 3)
    if not muts:
        return
    # commit point: the mutation that dominates all others
    cands = [m for m in muts if all(fin.dominates(m[0], o[0]) for o in muts)]
    key = "C10.COMMIT:single-commit-point"
    if not cands:
        rep.bad("C10.COMMIT", key, fin.where(muts[0][0]), "all mutations of *self in finalize_templates are dominated by one commit point — VIOLATED: %s" %
                [(fin.where(m[0], m[1]), m[2]) for m in muts][:4])
        return
    w = cands[0]
    rep.ok("C10.COMMIT", key, fin.where(w[0], w[1]), "every mutation of *self in finalize_templates (%d) is dominated by the commit point `%s`" % (len(muts), w[2]))
    region = fin.reach_from(w[0])
    errs = c06.error_exit_blocks(fin) & region
    key = "C10.COMMIT:no-error-after-commit"
    if errs:
        rep.bad("C10.COMMIT", key, fin.where(min(errs)), "no Err return (explicit or `?`) is reachable once finalize_templates has started to mutate *self — "
                "VIOLATED: error exit at %s; a failed add would leave some templates updated and others not" % fin.where(min(errs)))
    else:
        rep.ok("C10.COMMIT", key, fin.where(w[0]), "no Err return (explicit or `?`) is reachable once finalize_templates has started to mutate *self")
    # the commit loop assigns all three computed fields
    assigned = set()
    for bb, idx, s in fin.stmts(sorted(region)):
        if idx != "t" and s["k"] == "assign":
            pr = pl_projs(s["pl"])
            if pr and pr[-1] in (".parents", ".block_lineage", ".total_content_num_bytes"):
                assigned.add(pr[-1])
    ok = assigned == {".parents", ".block_lineage", ".total_content_num_bytes"}
    rep.add("C10.COMMIT", "C10.COMMIT:all-derived-assigned", ok, fin.where(w[0]), "the commit loop assigns parents, block_lineage and total_content_num_bytes of every "
            "template" + ("" if ok else " — VIOLATED: only %s" % sorted(assigned)))


def check_undo(crate, rep, cfg):
    for path in ("tera::Tera::add_raw_templates", "tera::Tera::add_template_files"):
        root = crate.one(path)
        bodies = crate.with_closures(root)
        rep.analysed(*bodies)
        # forward inserts (in the closure / helper): result recorded
        n_ins = 0
        for b in bodies:
            tr = Tracer(b)
            for bb, t in find_calls(b, ["std::collections::HashMap::<K, V, S, A>::insert", "std::collections::HashMap::<K, V, S>::insert"]):
                if rrec.field_of_arg(tr, t["args"][0]) != ".templates":
                    continue
                if b is root:
                    continue    # the undo loop itself
                n_ins += 1
                dest = t["dest"]["l"]
                recorded = False
                for pb, pt in find_calls(b, ["std::vec::Vec::<T, A>::push"]):
                    a = pt["args"][1]
                    if a["k"] in ("copy", "move"):
                        leaves = tr.place(a["pl"], [".1"])
                        if any(l.kind == "call" and l.detail[2] == bb for l in leaves):
                            recorded = True
                key = "C10.UNDO:%s:insert-recorded" % b.path
                (rep.ok if recorded else rep.bad)("C10.UNDO", key, b.where(bb), "the previous value returned by templates.insert is pushed on the undo list" +
                                                  ("" if recorded else " — VIOLATED: a failed batch cannot restore this entry"))
        if path.endswith("add_template_files"):
            # the helper add_file returns (key, previous) and the closure pushes it
            af = crate.one("tera::Tera::add_file")
            atr = Tracer(af)
            ins_blocks = [bb for bb, t in find_calls(af, ["std::collections::HashMap::<K, V, S, A>::insert", "std::collections::HashMap::<K, V, S>::insert"])]
            oks_ = list(find_aggs(af, "std::result::Result", "Ok"))
            ok = bool(ins_blocks) and bool(oks_)
            for b2, idx, s in oks_:
                op = s["rv"]["ops"][0]
                leaves = atr.place(op["pl"], [".1"]) if op["k"] in ("copy", "move") else set()
                # EVERY success of add_file went through the insert and hands back exactly what it displaced: an Ok that answers a
                # constant None for an entry that was (and stays) registered makes the caller's undo remove it
                if not (leaves and all(l.kind == "call" and l.detail[2] in ins_blocks for l in leaves)) or not any(af.dominates(ib, b2) for ib in ins_blocks):
                    ok = False
            rep.add("C10.UNDO", "C10.UNDO:add_file:returns-previous", ok, af.where(0), "every Ok of add_file is dominated by the templates.insert and returns the previous value that "
                    "insert displaced" + ("" if ok else " — VIOLATED"))
            pushed = False
            for b in bodies:
                if b is root:
                    continue
                tr = Tracer(b, transparent=set(TRANSPARENT_CALLS))
                for pb, pt in find_calls(b, ["std::vec::Vec::<T, A>::push"]):
                    a = pt["args"][1]
                    leaves = tr.operand(a) | (tr.place(a["pl"], [".1"]) if a["k"] in ("copy", "move") else set())
                    if any(l.kind == "call" and leaf_call_is(l, "tera::Tera::add_file") for l in leaves):
                        pushed = True
            rep.add("C10.UNDO", "C10.UNDO:add_template_files:push-add_file-result", pushed, root.where(0), "the closure pushes add_file's (key, previous) on the undo list"
                    + ("" if pushed else " — VIOLATED"))
        # undo branch in the root
        ef = EdgeFacts(root, crate)
        tr = Tracer(root)
        ok_rev = ok_ins = ok_rem = False
        for sb in sorted(root.reachable):
            if root.term(sb)["k"] != "switch":
                continue
            for tgt, fl in ef.facts_for_switch(sb).items():
                for f in fl:
                    if f[0] == "call" and f[1].endswith("::is_err") and f[3] is True:
                        region = sorted(root.reach_from(tgt) & root.dominated_by(tgt))
                        ok_rev = any(True for _ in find_calls(root, ["std::iter::Iterator::rev"], blocks=region))
                        for bb, t in find_calls(root, ["std::collections::HashMap::<K, V, S, A>::insert", "std::collections::HashMap::<K, V, S>::insert"], blocks=region):
                            if rrec.field_of_arg(tr, t["args"][0]) == ".templates":
                                ok_ins = True
                        for bb, t in find_calls(root, ["std::collections::HashMap::<K, V, S, A>::remove", "std::collections::HashMap::<K, V, S>::remove"], blocks=region):
                            if rrec.field_of_arg(tr, t["args"][0]) == ".templates":
                                ok_rem = True
        # one ordered log, replayed in reverse: the remove (entry was new) and the re-insert (entry was replaced) sit in the SAME loop, which
        # walks the log through Rev — two separate passes lose the order between "added" and "replaced" events of one name
        same_loop = False
        for sb in sorted(root.reachable):
            if root.term(sb)["k"] != "switch":
                continue
            for tgt, fl in ef.facts_for_switch(sb).items():
                for f in fl:
                    if f[0] == "call" and f[1].endswith("::is_err") and f[3] is True:
                        region = root.reach_from(tgt) & root.dominated_by(tgt)
                        ins = [bb for bb, t in find_calls(root, ["std::collections::HashMap::<K, V, S, A>::insert", "std::collections::HashMap::<K, V, S>::insert"], blocks=sorted(region))
                               if rrec.field_of_arg(tr, t["args"][0]) == ".templates"]
                        rem = [bb for bb, t in find_calls(root, ["std::collections::HashMap::<K, V, S, A>::remove", "std::collections::HashMap::<K, V, S>::remove"], blocks=sorted(region))
                               if rrec.field_of_arg(tr, t["args"][0]) == ".templates"]
                        for i_ in ins:
                            for r_ in rem:
                                li, lr = root.innermost_loop(i_), root.innermost_loop(r_)
                                if li is not None and li is lr:
                                    nx = [t2 for b2, t2 in root.calls(sorted(li)) if callee_def(t2).endswith("Iterator::next")]
                                    if nx and all("Rev<" in (t2["atys"][0] if t2["atys"] else "") for t2 in nx):
                                        same_loop = True
        key = "C10.UNDO:%s:undo-branch" % path
        ok = ok_rev and ok_ins and ok_rem and same_loop
        (rep.ok if ok else rep.bad)("C10.UNDO", key, root.where(0), "on Err the adder walks the undo list in reverse, re-inserting replaced templates and removing new ones"
                                    + ("" if ok else " — VIOLATED: reverse=%s re-insert=%s remove=%s, both in one reverse loop over the log=%s" % (ok_rev, ok_ins, ok_rem, same_loop)))
        rep.floor("C10.UNDO", "forward inserts into Tera.templates under %s [%s]" % (path.rsplit("::", 1)[-1], cfg), n_ins + (1 if path.endswith("files") else 0), 1)
    # load_from_glob (glob_fs): whole-map swap on error
    lg = [b for p, b in crate.bodies.items() if p == "tera::Tera::load_from_glob"]
    if lg:
        b = lg[0]
        ef = EdgeFacts(b, crate)
        ok = False
        for sb in sorted(b.reachable):
            if b.term(sb)["k"] != "switch":
                continue
            for tgt, fl in ef.facts_for_switch(sb).items():
                for f in fl:
                    if f[0] == "call" and f[1].endswith("::is_err") and f[3] is True:
                        for bb, idx, s in b.stmts(sorted(b.dominated_by(tgt))):
                            if idx != "t" and s["k"] == "assign" and pl_projs(s["pl"])[-1:] == [".templates"]:
                                ok = True
        rep.add("C10.UNDO", "C10.UNDO:load_from_glob:swap-back", ok, b.where(0), "load_from_glob restores the previous template map on error" + ("" if ok else " — VIOLATED"))


def commit_written_fields(crate):
    """Template fields assigned by finalize_templates / set_templates_auto_escape: by definition the derived state"""
    out = set(DERIVED_T)
    tpl = crate.adts.get("template::Template")
    names = {f["n"] for f in tpl.fields()} if tpl else set()
    for path in ("tera::Tera::finalize_templates", "tera::Tera::set_templates_auto_escape"):
        b = crate.bodies.get(path)
        if b is None:
            continue
        for bb, idx, s in b.stmts():
            if idx != "t" and s["k"] == "assign":
                for p in s["pl"]["p"]:
                    if isinstance(p, dict) and p.get("o") == "template::Template" and p.get("n") in names:
                        out.add(p["n"])
    return sorted(out)


def check_derived(crate, rep, cfg):
    allowed_writers = {"template::Template::new", "tera::Tera::finalize_templates", "tera::Tera::set_templates_auto_escape", "tera::Tera::render_str_to"}
    n = 0
    derived = commit_written_fields(crate)
    rep.ok("C10.DERIVED", "C10.DERIVED:derived-set", "", "derived Template fields = those written by the commit / set_templates_auto_escape: %s" % derived)
    for f in derived:
        for a in field_accesses(crate, "template::Template", f):
            root = crate.root_of(a["body"]).path
            if a["kind"] in ("assign", "assign-part", "agg-init") or (a["kind"] == "call" and a["mut"] and not a.get("by_value")):
                if rrec.derive_generated(crate, root):
                    continue
                n += 1
                ok = root in allowed_writers
                key = "C10.DERIVED:writer:Template.%s:%s" % (f, root)
                (rep.ok if ok else rep.bad)("C10.DERIVED", key, a["body"].where(a["bb"], a["idx"]), "Template.%s is written only by Template::new (default), the commit "
                                            "of finalize_templates and set_templates_auto_escape" % f + ("" if ok else " — VIOLATED: written in %s" % root))
            else:
                if root in COMPUTERS:
                    key = "C10.DERIVED:read:Template.%s:%s" % (f, root)
                    rep.bad("C10.DERIVED", key, a["body"].where(a["bb"], a["idx"]), "the functions that compute the derived state never read a derived field — VIOLATED: "
                            "%s reads Template.%s, so the result can depend on what a previous registration left there" % (root, f))
    for a in field_accesses(crate, "tera::Tera", "components"):
        root = crate.root_of(a["body"]).path
        if a["kind"] in ("assign", "agg-init") or (a["kind"] == "call" and a["mut"]):
            if rrec.derive_generated(crate, root):
                continue
            n += 1
            ok = root in ("tera::Tera::finalize_templates", "<tera::Tera as std::default::Default>::default")
            key = "C10.DERIVED:writer:Tera.components:%s" % root
            (rep.ok if ok else rep.bad)("C10.DERIVED", key, a["body"].where(a["bb"], a["idx"]), "Tera.components is written only by the commit of finalize_templates"
                                        + ("" if ok else " — VIOLATED: %s" % root))
        elif root in COMPUTERS:
            rep.bad("C10.DERIVED", "C10.DERIVED:read:Tera.components:%s" % root, a["body"].where(a["bb"], a["idx"]),
                    "%s reads Tera.components (derived) while computing the derived state" % root)
    rep.floor("C10.DERIVED", "writers of derived fields [%s]" % cfg, n, 8)
    for c in COMPUTERS:
        b = crate.bodies.get(c)
        if b is None:
            rep.anchor_missing("C10.DERIVED", c)
        else:
            rep.analysed(b)
            rep.ok("C10.DERIVED", "C10.DERIVED:pure:%s" % c, b.where(0), "%s reads no derived field (inventory above found none)" % c.rsplit("::", 1)[-1])


def check_mut(crate, rep, cfg):
    roots = set()
    sites = []
    for a in field_accesses(crate, "tera::Tera", "templates"):
        root = crate.root_of(a["body"]).path
        if rrec.derive_generated(crate, root) or root.endswith("::default"):
            continue
        if a["kind"] == "assign" or (a["kind"] == "call" and a["mut"] and a["callee"].rsplit("::", 1)[-1] in KEYSET_METHODS):
            roots.add(root)
            sites.append(a)
    key = "C10.MUT:mutator-set"
    # a private helper all of whose callers are reviewed mutators is part of them (an extracted undo loop, say)
    helpers = {r for r in roots - MUTATORS if rrec.only_called_from(crate, r, MUTATORS)}
    extra = roots - MUTATORS - helpers
    (rep.ok if not extra else rep.bad)("C10.MUT", key, "", "the functions changing the key set of Tera.templates are %s (reviewed: %s%s)" % (sorted(roots), sorted(MUTATORS),
                                                                                                                                      "; private helpers of those: %s" % sorted(helpers) if helpers else "")
                                       + ("" if not extra else " — VIOLATED: unreviewed mutator(s) %s" % sorted(extra)))
    rep.floor("C10.MUT", "key-set mutations of Tera.templates [%s]" % cfg, len(sites), 3)
    for root in sorted(roots & MUTATORS):
        if root.endswith("add_file"):
            # helper: all callers are mutators with finalize
            callers = {crate.root_of(b).path for b in crate.bodies.values() for bb, t in find_calls(b, ["tera::Tera::add_file"])}
            ok = callers <= (MUTATORS - {"tera::Tera::add_file"}) and bool(callers)
            rep.add("C10.MUT", "C10.MUT:add_file:callers", ok, "", "the private helper add_file is only called from adders that finalize (%s)" % sorted(callers)
                    + ("" if ok else " — VIOLATED"))
            continue
        bodies = crate.with_closures(crate.bodies[root])
        ok = False
        detail = ""
        for b in bodies:
            fins = {bb for bb, t in find_calls(b, ["tera::Tera::finalize_templates"])}
            if not fins:
                continue
            # from every forward mutation in this body, each return is reached only through finalize or an error exit
            tr = Tracer(b)
            muts = [bb for bb, t in b.calls() if callee_def(t).rsplit("::", 1)[-1] in ("insert",) and rrec.field_of_arg(tr, t["args"][0]) == ".templates"] + \
                   [bb for bb, t in find_calls(b, ["tera::Tera::add_file"])]
            leak = False
            for m in muts:
                bad_ret = explore_after_mutation(b, crate, m, fins)
                if bad_ret is not None:
                    leak = True
                    detail = "return at %s reachable from the mutation at %s without finalize_templates (and without restoring the map)" % (b.where(bad_ret), b.where(m))
            ok = not leak and bool(muts)
        key = "C10.MUT:%s:reaches-finalize" % root
        (rep.ok if ok else rep.bad)("C10.MUT", key, crate.bodies[root].where(0), "%s re-runs finalize_templates on every non-error path after changing the map" %
                                    root.rsplit("::", 1)[-1] + ("" if ok else " — VIOLATED: " + (detail or "no finalize call found")))


def explore_after_mutation(b, crate, start, fins):
    """value-sensitive exploration: every return reached after a map mutation has passed finalize_templates, or carries an Err
    with the previous map restored (whole-map swap), or is a `?` error exit (the caller's undo branch handles those)."""
    ef = EdgeFacts(b, crate)
    err_exits = c06.error_exit_blocks(b)
    RES = "std::result::Result<(), errors::Error>"
    is_err_edges = {}
    for sb in sorted(b.reachable):
        if b.term(sb)["k"] != "switch":
            continue
        for tgt, fl in ef.facts_for_switch(sb).items():
            for f in fl:
                if f[0] == "call" and f[1].endswith("::is_err"):
                    is_err_edges[(sb, tgt)] = f[3]
    seen = set()
    work = [(start, "none", False)]
    while work:
        st = work.pop()
        if st in seen:
            continue
        seen.add(st)
        bb, tag, restored = st
        if bb in fins:
            tag = "fin"
        for s in b.blocks[bb]["s"]:
            if s["k"] != "assign":
                continue
            rv = s["rv"]
            if rv["k"] == "agg" and rv.get("adt") == "std::result::Result" and rv.get("variant") == "Err" and b.local_ty(s["pl"]["l"]) == RES and not s["pl"]["p"]:
                if tag != "fin":
                    tag = "err"
            if pl_projs(s["pl"])[-1:] == [".templates"]:
                restored = True
        t = b.term(bb)
        if t["k"] == "call" and b.local_ty(t["dest"]["l"]) == RES and not t["dest"]["p"] and bb not in fins and tag != "fin":
            # a Result produced by another call (e.g. `Err(e) => Err(e)` lowered through a move): unknown
            pass
        if t["k"] == "return":
            if tag == "fin" or (tag == "err" and restored) or bb in err_exits:
                continue
            return bb
        if bb in err_exits and bb != start:
            continue
        for tgt in b.succ[bb]:
            if (bb, tgt) in is_err_edges and tag == "err" and is_err_edges[(bb, tgt)] is False:
                continue
            if (bb, tgt) in is_err_edges and tag == "fin" and False:
                continue
            work.append((tgt, tag, restored))
    return None
