"""C05 — components: scope isolated, recursion bounded, one context builder (partial)."""
from engine import (Tracer, EdgeFacts, find_calls, find_aggs, field_accesses, AnchorMissing, leaf_str, leaf_call_is, pl_projs, callee_def)
import rrec
from props import c07

EXPLANATION = (
    "Decides structural clauses of C05 on the MIR: (ISO) a component body can read nothing but its built context — "
    "State.global_context is assigned only by the top-level render, State.include_parent only by render_include, and in both "
    "component entry points (VM `component!` / Tera::render_component_to) the State is created from the Ok value of "
    "ComponentDefinition::build_context with only `filters` assigned afterwards; (REC) the component re-entry is dominated by the "
    "within-limit edge of the depth test, the child VM carries depth+1, and render_include hands the parent's depth on (so cycles "
    "through includes stay bounded); (SAME) both entry points obtain the context from the same builder and mint the result safe. "
    "NOT decided: argument/default/rest/type rules inside build_context and priority resolution (value-level).")
NOT_DECIDED = "argument binding, default/rest/type checking, priority resolution (value-level logic of build_context)"
ASSUMPTIONS = ["thread stack holds MAX_COMPONENT_RECURSION_DEPTH nested interpret frames"]


def run(ctx, rep):
    for cfg in ctx.tera_configs():
        crate = ctx.crate(cfg)
        check_iso(crate, rep, cfg)
        check_rec(crate, rep, cfg)
        check_same(crate, rep, cfg)


WRITERS = {
    "global_context": {"vm::interpreter::VirtualMachine::<'tera>::render_to"},
    "include_parent": {"vm::interpreter::VirtualMachine::<'tera>::render_include"},
}


def check_iso(crate, rep, cfg):
    n = 0
    for f, allowed in WRITERS.items():
        for a in field_accesses(crate, "vm::state::State", f):
            if a["kind"] in ("read",):
                continue
            if a["kind"] == "call" and not a["mut"]:
                continue
            b = a["body"]
            n += 1
            root = crate.root_of(b).path
            key = "C05.ISO:writer:%s:%s" % (f, root)
            what = "State.%s is written only by %s (and initialised to None in State::new)" % (f, sorted(x.rsplit("::", 1)[-1] for x in allowed))
            ok = root in allowed or (a["kind"] == "agg-init" and root.endswith("State::<'t>::new") and is_none(b, a.get("op")))
            (rep.ok if ok else rep.bad)("C05.ISO", key, b.where(a["bb"], a["idx"]), what if ok else what + " — VIOLATED: %s in %s gives a component "
                                        "(or include) access to a scope it must not see" % (a["kind"], root))
    rep.floor("C05.ISO", "writers of State.{global_context,include_parent} [%s]" % cfg, n, 4)
    # component entry points: state built from build_context's Ok value, then only `filters` assigned
    for path in ("vm::interpreter::VirtualMachine::<'tera>::render_component", "tera::Tera::render_component_to"):
        b = crate.one(path)
        rep.analysed(b)
        news = list(find_calls(b, ["vm::state::State::<'t>::new_with_chunk"]))
        key = "C05.ISO:%s:state-from-built-context" % path.rsplit("::", 1)[-1]
        what = "%s creates its State from the context returned by build_context" % path.rsplit("::", 1)[-1]
        if len(news) != 1:
            rep.bad("C05.ISO", key, b.where(0), what + " — anchor-missing: %d State::new_with_chunk calls" % len(news))
            continue
        bb, t = news[0]
        tr = Tracer(b, transparent=None)
        leaves = tr.operand(t["args"][0])
        if path.endswith("render_component"):
            # the context is the `context: Context` parameter, built by the caller (checked below at the call sites)
            ok = bool(leaves) and all(l.kind == "param" and l.detail == 3 for l in leaves)
        else:
            ok = bool(leaves) and all(l.kind == "call" and (leaf_call_is(l, "parsing::ast::ComponentDefinition::build_context") or
                                      leaf_call_is(l, "std::result::Result::<T, E>::map_err")) for l in leaves)
        (rep.ok if ok else rep.bad)("C05.ISO", key, b.where(bb), what if ok else what + " — VIOLATED: origin %s" % sorted(leaf_str(l) for l in leaves)[:3])
        # fields of the state assigned afterwards
        state_local = t["dest"]["l"]
        assigned = set()
        for b2, idx, s in b.stmts():
            if idx != "t" and s["k"] == "assign" and s["pl"]["l"] == state_local and s["pl"]["p"]:
                assigned.add(pl_projs(s["pl"])[0])
        key = "C05.ISO:%s:state-fields-assigned" % path.rsplit("::", 1)[-1]
        extra = assigned - {".filters"}
        what = "after creation only State.filters is assigned in %s" % path.rsplit("::", 1)[-1]
        (rep.ok if not extra else rep.bad)("C05.ISO", key, b.where(bb), what if not extra else what + " — VIOLATED: also %s" % sorted(extra))
    # VM call sites of render_component pass the Ok value of build_context
    interp = crate.one("vm::interpreter::VirtualMachine::<'tera>::interpret")
    tr = Tracer(interp)
    sites = list(find_calls(interp, ["vm::interpreter::VirtualMachine::<'tera>::render_component"]))
    rep.floor("C05.ISO", "VM call sites of render_component [%s]" % cfg, len(sites), 2)
    for n_, (bb, t) in enumerate(sites):
        leaves = tr.operand(t["args"][2])
        ok = bool(leaves) and all(l.kind == "call" and leaf_call_is(l, "parsing::ast::ComponentDefinition::build_context") and "as:Ok" in l.projs for l in leaves)
        key = "C05.ISO:interpret:render_component#%d:context" % n_
        what = "the context handed to render_component is the Ok value of build_context"
        (rep.ok if ok else rep.bad)("C05.ISO", key, interp.where(bb), what if ok else what + " — VIOLATED: origin %s" % sorted(leaf_str(l) for l in leaves)[:3])


def is_none(body, op):
    """operand is the constant None (an `Option::None {}` aggregate)"""
    if op is None:
        return False
    leaves = Tracer(body).operand(op)
    return bool(leaves) and all(l.kind == "agg" and l.detail[1] == "std::option::Option" and l.detail[2] == "None" for l in leaves)


def check_rec(crate, rep, cfg):
    rc = crate.one("vm::interpreter::VirtualMachine::<'tera>::render_component")
    ri = crate.one("vm::interpreter::VirtualMachine::<'tera>::render_include")
    rep.analysed(rc, ri)
    calls = list(find_calls(rc, ["vm::interpreter::VirtualMachine::<'tera>::interpret"]))
    key = "C05.REC:render_component:guard"
    what = "the component re-entry of interpret is dominated by the within-limit edge of `depth > MAX_COMPONENT_RECURSION_DEPTH`"
    if not calls:
        rep.bad("C05.REC", key, rc.where(0), what + " — anchor-missing")
        return
    g = rrec.find_guard(rc, calls[0][0], crate)
    (rep.ok if g else rep.bad)("C05.REC", key, rc.where(calls[0][0]), (what + " [limit %s]" % g["limit"]) if g else what + " — VIOLATED")
    # child VM carries the incremented depth
    for b, label in ((rc, "render_component"), (ri, "render_include")):
        tr = Tracer(b)
        aggs = list(find_aggs(b, "vm::interpreter::VirtualMachine", "VirtualMachine"))
        key = "C05.REC:%s:child-depth" % label
        if len(aggs) != 1:
            rep.bad("C05.REC", key, b.where(0), "anchor-missing: child VM construction in %s (%d)" % (label, len(aggs)))
            continue
        bb, idx, s = aggs[0]
        rv = s["rv"]
        op = rv["ops"][rv["fields"].index("component_recursion_depth")]
        leaves = tr.operand(op)
        if label == "render_component":
            ok = bool(leaves) and all(l.kind == "op" and l.detail[1] in ("Add", "AddWithOverflow") for l in leaves)
            what = "the child VM of render_component carries depth = parent depth + 1"
        else:
            ok = bool(leaves) and all(l.kind == "param" and l.detail == 1 and ".component_recursion_depth" in l.projs for l in leaves)
            what = "the child VM of render_include carries the parent's component depth (not a constant), so component cycles through includes stay bounded"
        (rep.ok if ok else rep.bad)("C05.REC", key, b.where(bb, idx), what if ok else what + " — VIOLATED: origin %s" % sorted(leaf_str(l) for l in leaves)[:3])


def check_same(crate, rep, cfg):
    interp = crate.one("vm::interpreter::VirtualMachine::<'tera>::interpret")
    api = crate.one("tera::Tera::render_component_to")
    n1 = len(list(find_calls(interp, ["parsing::ast::ComponentDefinition::build_context"])))
    n2 = len(list(find_calls(api, ["parsing::ast::ComponentDefinition::build_context"])))
    key = "C05.SAME:one-builder"
    ok = n1 >= 2 and n2 >= 1
    (rep.ok if ok else rep.bad)("C05.SAME", key, api.where(0), "the VM component call (%d sites) and Tera::render_component_to (%d) both obtain the component "
                                "context from ComponentDefinition::build_context" % (n1, n2) + ("" if ok else " — VIOLATED"))
    # lookup precedence: the VM consults the priority-resolved registry Tera.components first (as the API does) and falls back to the
    # rendering template's own definitions only when the name is not registered (one-off templates)
    from engine import TRANSPARENT_CALLS
    bodies = crate.with_closures(interp)
    primary, fallback = [], []
    for b in bodies:
        tr2 = Tracer(b, transparent=set(TRANSPARENT_CALLS))
        for bb, t in b.calls():
            cd = callee_def(t)
            if not (cd.endswith("::get") or cd == "std::ops::Index::index"):
                continue
            leaves = tr2.operand(t["args"][0])
            from props.c07 import resolve_upvars
            leaves = resolve_upvars(crate, b, leaves, set(TRANSPARENT_CALLS))
            for l in leaves:
                if ".components" in l.projs:
                    owner = "tera" if ".tera" in l.projs else ("template" if ".template" in l.projs else "?")
                    (primary if cd.endswith("::get") else fallback).append(owner)
    ok = bool(primary) and set(primary) == {"tera"} and set(fallback) <= {"template"}
    rep.add("C05.SAME", "C05.SAME:lookup-precedence", ok, interp.where(0), "component lookup in the VM: Option-returning get() on Tera.components (priority-resolved at finalize, "
            "what Tera::render_component uses) first, panicking index on Template.components only as fallback — found get on %s, index on %s" % (sorted(set(primary)), sorted(set(fallback)))
            + ("" if ok else " — VIOLATED: a lower-priority local definition can shadow the highest-priority one; API and template call disagree"))
    api_get = [1 for bb, t in api.calls() if callee_def(t).endswith("::get") and any(".components" in l.projs for l in Tracer(api).operand(t["args"][0]))]
    rep.add("C05.SAME", "C05.SAME:api-uses-registry", bool(api_get), api.where(0), "Tera::render_component_to resolves the name in Tera.components" + ("" if api_get else " — VIOLATED"))
    # result minted safe in the VM (inserted in the caller's output without being escaped again)
    tr = Tracer(interp)
    n = 0
    for bb, t in find_calls(interp, ["value::Value::safe_string"]):
        leaves = tr.operand(t["args"][0])
        if leaves and all(l.kind == "call" and leaf_call_is(l, "vm::interpreter::VirtualMachine::<'tera>::render_component") for l in leaves):
            n += 1
    key = "C05.SAME:result-safe"
    (rep.ok if n >= 2 else rep.bad)("C05.SAME", key, interp.where(0), "the rendered component text is pushed as a safe string at %d site(s) (not escaped a second time)" % n
                                    + ("" if n >= 2 else " — VIOLATED (floor 2)"))
