//! C18 controls: interior mutability in a struct; a dropped io::Result.
use std::cell::RefCell;
use std::io::Write;
use std::sync::Arc;

pub struct HasCell {
    pub name: String,
    pub hidden: Arc<Vec<RefCell<u32>>>,
}

pub fn drops_result(out: &mut impl Write) -> std::io::Result<()> {
    let _ = out.write_all(b"x");
    out.write_all(b"y").ok();
    out.write_all(b"z")
}
