//! C15.ORD control: `cmp` falls back to the kind rank for an equal-rank pair (B, B).
use std::cmp::Ordering;

pub enum V {
    A(u8),
    B(Vec<u8>),
}

pub fn rank(v: &V) -> u8 {
    match v {
        V::A(_) => 0,
        V::B(_) => 1,
    }
}

impl PartialEq for V {
    fn eq(&self, o: &Self) -> bool {
        match (self, o) {
            (V::A(a), V::A(b)) => a == b,
            (V::B(a), V::B(b)) => a == b,
            _ => false,
        }
    }
}
impl Eq for V {}
impl PartialOrd for V {
    fn partial_cmp(&self, o: &Self) -> Option<Ordering> {
        Some(self.cmp(o))
    }
}
impl Ord for V {
    fn cmp(&self, o: &Self) -> Ordering {
        if let (V::A(a), V::A(b)) = (self, o) {
            return a.cmp(b);
        }
        rank(self).cmp(&rank(o))
    }
}
