#!/usr/bin/env python3
"""bin/verif — setup | facts | check <Cnn> [--tier quick|thorough] | explain <report.json> | list"""
import fcntl
import hashlib
import importlib
import json
import os
import shutil
import subprocess
import sys
import tempfile
import time

HERE = os.path.dirname(os.path.abspath(__file__))
VERIF = os.path.dirname(HERE)
REPO = os.environ.get("TV_REPO", "/repo")
CACHE = os.path.join(VERIF, ".cache")
DRIVER = os.path.join(VERIF, "driver", "target", "debug", "tvdriver")
sys.path.insert(0, HERE)

import engine  # noqa: E402

# configuration name -> (package, cargo feature args, crate file stem)
CONFIGS = {
    "tera:default": ("tera", [], "tera"),
    "tera:unicode": ("tera", ["--features", "unicode"], "tera"),
    "tera:preserve_order": ("tera", ["--features", "preserve_order"], "tera"),
    "tera:fast": ("tera", ["--features", "fast"], "tera"),
    "tera:glob_fs": ("tera", ["--features", "glob_fs"], "tera"),
    "tera:all": ("tera", ["--all-features"], "tera"),
    "contrib:codecs": ("tera-contrib", ["--features", "base64,urlencode,json,slug"], "tera_contrib"),
    "contrib:all": ("tera-contrib", ["--all-features"], "tera_contrib"),
}
QUICK_TERA = ["tera:default"]
THOROUGH_TERA = ["tera:default", "tera:unicode", "tera:preserve_order", "tera:fast", "tera:glob_fs", "tera:all"]


def nightly_sysroot():
    return subprocess.check_output(["rustc", "+nightly", "--print", "sysroot"], text=True).strip()


def sha_file(h, path):
    with open(path, "rb") as f:
        while True:
            b = f.read(1 << 16)
            if not b:
                break
            h.update(b)


def tree_hash(root, skip_dirs=("target", ".git")):
    h = hashlib.sha256()
    for d, dirs, files in os.walk(root):
        dirs[:] = sorted(x for x in dirs if x not in skip_dirs)
        for f in sorted(files):
            p = os.path.join(d, f)
            if os.path.islink(p) or not os.path.isfile(p):
                continue
            h.update(os.path.relpath(p, root).encode())
            h.update(b"\0")
            sha_file(h, p)
            h.update(b"\0")
    return h.hexdigest()


def driver_hash():
    h = hashlib.sha256()
    if os.path.exists(DRIVER):
        sha_file(h, DRIVER)
    return h.hexdigest()[:16]


def cmd_setup():
    env = dict(os.environ, CARGO_NET_OFFLINE="true")
    r = subprocess.run(["cargo", "build", "--offline"], cwd=os.path.join(VERIF, "driver"), env=env)
    if r.returncode != 0 or not os.path.exists(DRIVER):
        print("setup: driver build failed", file=sys.stderr)
        return 2
    print("setup: driver built:", DRIVER)
    return 0


def ensure_driver():
    if not os.path.exists(DRIVER):
        rc = cmd_setup()
        if rc != 0:
            raise SystemExit(rc)


def extract(workdir, config, out_dir):
    """Run the driver under cargo check for one configuration; facts land in out_dir."""
    pkg, feats, stem = CONFIGS[config] if config in CONFIGS else (None, None, None)
    tgt = tempfile.mkdtemp(prefix="tvtarget-")
    try:
        env = dict(os.environ)
        env.update({
            "LD_LIBRARY_PATH": nightly_sysroot() + "/lib" + (":" + env["LD_LIBRARY_PATH"] if env.get("LD_LIBRARY_PATH") else ""),
            "RUSTFLAGS": "-Zmir-opt-level=0 -Awarnings",
            "RUSTC_WORKSPACE_WRAPPER": DRIVER,
            "CARGO_TARGET_DIR": tgt,
            "CARGO_NET_OFFLINE": "true",
            "TV_OUT": out_dir,
            "TV_TAG": "",
            "CARGO_INCREMENTAL": "0",
        })
        env.pop("RUSTC_WRAPPER", None)
        cmd = ["cargo", "+nightly", "check", "--offline", "--lib", "-p", pkg] + feats
        r = subprocess.run(cmd, cwd=workdir, env=env, stdout=subprocess.PIPE, stderr=subprocess.STDOUT, text=True)
        return r.returncode, r.stdout
    finally:
        shutil.rmtree(tgt, ignore_errors=True)


def facts_path(config, repo=REPO):
    """Return the path of the facts file for `config`, extracting on a cache miss."""
    ensure_driver()
    key = hashlib.sha256((tree_hash(repo) + driver_hash() + config).encode()).hexdigest()[:24]
    d = os.path.join(CACHE, "facts", key)
    stem = CONFIGS[config][2]
    final = os.path.join(d, stem + ".json")
    if os.path.exists(final):
        return final
    os.makedirs(d, exist_ok=True)
    lock = open(os.path.join(d, ".lock"), "w")
    fcntl.flock(lock, fcntl.LOCK_EX)
    try:
        if os.path.exists(final):
            return final
        tmp_out = tempfile.mkdtemp(prefix="tvout-", dir=d)
        rc, log = extract(repo, config, tmp_out)
        produced = os.path.join(tmp_out, stem + ".json")
        if rc != 0 or not os.path.exists(produced):
            shutil.rmtree(tmp_out, ignore_errors=True)
            sys.stderr.write(log[-6000:] + "\n")
            raise ExtractionFailed("fact extraction failed for %s (rc=%s, facts file %s)" % (
                config, rc, "missing" if not os.path.exists(produced) else "present"))
        # tera facts produced as a dependency of contrib are not kept (different feature set)
        os.replace(produced, final)
        shutil.rmtree(tmp_out, ignore_errors=True)
        prune_cache(os.path.join(CACHE, "facts"), keep=24)
        return final
    finally:
        fcntl.flock(lock, fcntl.LOCK_UN)
        lock.close()


class ExtractionFailed(Exception):
    pass


def prune_cache(d, keep):
    """keep the `keep` most recently used fact directories (scratch-tree analyses would otherwise pile up)"""
    try:
        ents = [(os.path.getmtime(os.path.join(d, e)), e) for e in os.listdir(d)]
        ents.sort(reverse=True)
        for _, e in ents[keep:]:
            shutil.rmtree(os.path.join(d, e), ignore_errors=True)
    except OSError:
        pass


_crate_cache = {}


def load_crate(config, repo=REPO):
    k = (config, repo)
    if k not in _crate_cache:
        p = facts_path(config, repo)
        c = engine.Crate.load(p)
        expected = CONFIGS[config][2]
        if c.name != expected:
            raise ExtractionFailed("facts file %s names crate %s, expected %s" % (p, c.name, expected))
        c.config = config
        _crate_cache[k] = c
    return _crate_cache[k]


def prefetch(configs, repo=REPO):
    """Extract several configurations in parallel (each in its own process)."""
    missing = []
    for c in configs:
        missing.append(c)
    if len(missing) <= 1:
        for c in missing:
            facts_path(c, repo)
        return
    procs = []
    for c in missing:
        procs.append((c, subprocess.Popen([sys.executable, os.path.abspath(__file__), "facts", c],
                                          env=dict(os.environ, TV_REPO=repo), stdout=subprocess.DEVNULL)))
    for c, p in procs:
        if p.wait() != 0:
            raise ExtractionFailed("fact extraction failed for %s" % c)


# --------------------------------------------------------------------------- fixtures (positive controls)

def posctl_crate():
    """Facts of fixtures/posctl (tiny crate of known-bad constructs)."""
    ensure_driver()
    fx = os.path.join(VERIF, "fixtures", "posctl")
    key = hashlib.sha256((tree_hash(fx) + driver_hash()).encode()).hexdigest()[:24]
    d = os.path.join(CACHE, "posctl", key)
    final = os.path.join(d, "posctl.json")
    if not os.path.exists(final):
        os.makedirs(d, exist_ok=True)
        lock = open(os.path.join(d, ".lock"), "w")
        fcntl.flock(lock, fcntl.LOCK_EX)
        try:
            if not os.path.exists(final):
                tgt = tempfile.mkdtemp(prefix="tvtarget-")
                try:
                    env = dict(os.environ)
                    env.update({
                        "LD_LIBRARY_PATH": nightly_sysroot() + "/lib",
                        "RUSTFLAGS": "-Zmir-opt-level=0 -Awarnings",
                        "RUSTC_WORKSPACE_WRAPPER": DRIVER,
                        "CARGO_TARGET_DIR": tgt,
                        "CARGO_NET_OFFLINE": "true",
                        "TV_OUT": d,
                        "CARGO_INCREMENTAL": "0",
                    })
                    r = subprocess.run(["cargo", "+nightly", "check", "--offline", "--lib"], cwd=fx, env=env,
                                       stdout=subprocess.PIPE, stderr=subprocess.STDOUT, text=True)
                    if r.returncode != 0 or not os.path.exists(final):
                        sys.stderr.write(r.stdout[-4000:])
                        raise ExtractionFailed("posctl fixture extraction failed")
                finally:
                    shutil.rmtree(tgt, ignore_errors=True)
        finally:
            fcntl.flock(lock, fcntl.LOCK_UN)
            lock.close()
    return engine.Crate.load(final)


# --------------------------------------------------------------------------- known findings

def load_known():
    known, fixed = {}, []
    p = os.path.join(VERIF, "known_findings.txt")
    if os.path.exists(p):
        for line in open(p):
            line = line.strip()
            if not line or line.startswith("#"):
                continue
            kind, _, rest = line.partition(":")
            fields = {}
            # key=... what="..." style
            import shlex
            for tok in shlex.split(rest):
                if "=" in tok:
                    k, _, v = tok.partition("=")
                    fields[k] = v
            if kind == "known":
                known[(fields.get("property"), fields.get("key"))] = fields
            elif kind == "fixed":
                fixed.append(fields)
    return known, fixed


# --------------------------------------------------------------------------- check

def run_check(prop, tier, repo=REPO, write_evidence=True, quiet=False):
    t0 = time.time()
    seed = int(os.environ.get("VERIF_SEED", "0") or 0)
    try:
        mod = importlib.import_module("props." + prop.lower())
    except Exception as e:     # a broken rule module is a broken check, not a verdict
        sys.stderr.write("check %s is broken: cannot load rules/props/%s.py: %r\n" % (prop, prop.lower(), e))
        raise SystemExit(2)
    ctx = Ctx(prop, tier, repo)
    rep = engine.Report(prop)
    try:
        mod.run(ctx, rep)
    except engine.AnchorMissing as e:
        rep.anchor_missing("ANCHOR", str(e))
    except ExtractionFailed as e:
        rep.anchor_missing("EXTRACT", str(e))
    except Exception as e:      # incl. NameError etc.: a rule that cannot run is a failed check with a diagnosable report, never a silent pass
        # a rule lost its footing on this tree (an anchor it indexes is gone): fail closed with a diagnosable report
        import traceback
        tb = traceback.extract_tb(e.__traceback__)[-1]
        rep.anchor_missing("ANCHOR", "rule crashed at %s:%s (%s: %s) — an anchor the rule relies on is missing on this tree" % (
            os.path.basename(tb.filename), tb.lineno, type(e).__name__, str(e)[:120]))
    known, _fixed = load_known()
    # second chance: a rule that does not find its idiom may be looking at code that was moved into a private helper. Inlining crate-local
    # callees is semantics-preserving, so an obligation discharged on the inlined bodies is discharged; one that is not stays a violation.
    # Only for rules whose condition is about what the code computes on its paths (not about WHICH function does something — writer
    # inventories, call-graph cycles, reviewed panic sites — nor for the variant walks, whose coordinates are tied to the parameters).
    INLINE_RULES = ("C10.UNDO", "C01.ESC", "C13.CALLEE", "C13.CHK", "C07.REF.b", "C11.EDGES", "C06.PATCH", "C06.JT", "C17.PRE", "C14.ARITH", "C14.CAST", "C14.ZERO",
                    "C07.UTF8", "C12.SETSRC", "C08.PEEK", "C03.ITER", "C03.JUMP", "C02.SC", "C04.VM", "C04.BLOCK", "C20.URL", "C20.B64", "C20.JSON", "C16.ORDUSE", "C05.REC", "C05.SAME", "C07.PAIR", "C12.NOTE", "C09.FUSED", "C09.DUMPVAR", "C18.IOERR", "C12.SRC", "C18.WRAP")
    if any((not i.ok) and (prop, i.key) not in known and i.rule in INLINE_RULES for i in rep.instances) and not os.environ.get("TV_NO_INLINE"):
        ctx2 = Ctx(prop, tier, repo)
        ctx2.inline = True
        rep2 = engine.Report(prop)
        try:
            mod.run(ctx2, rep2)
        except Exception:
            pass
        ok2 = {}
        for i2 in rep2.instances:
            ok2.setdefault(i2.key, []).append(i2.ok)
        floors2 = {(r_, l_): c_ for r_, l_, c_, f_ in rep2.floors}
        for inst in rep.instances:
            if inst.ok or (prop, inst.key) in known or inst.rule not in INLINE_RULES:
                continue
            if inst.key in ok2 and all(ok2[inst.key]):
                inst.ok = True
                inst.what = "holds after inlining crate-local helpers into the anchored function (the idiom lives in a helper): " + inst.what.split(" — VIOLATED")[0]
            elif ":floor:" in inst.key:
                lab = inst.key.split(":floor:", 1)[1]
                for (r_, l_), c_ in floors2.items():
                    fl = [f_ for r3, l3, c3, f_ in rep2.floors if (r3, l3) == (r_, l_)]
                    if l_ == lab and fl and c_ >= fl[0]:
                        inst.ok = True
                        inst.what = "floor met after inlining crate-local helpers: " + inst.what
    viol, kf = [], []
    for inst in rep.instances:
        if inst.ok:
            continue
        if (prop, inst.key) in known:
            kf.append(inst)
        else:
            viol.append(inst)
    out_lines = []
    seen_kf = set()
    for inst in kf:
        if inst.key in seen_kf:
            continue
        seen_kf.add(inst.key)
        f = known[(prop, inst.key)]
        out_lines.append("KNOWN-FINDING: property=%s %s [%s] at %s" % (prop, f.get("what", inst.what), inst.key, inst.where))
    vdir = os.path.join(VERIF, "evidence", "violations")
    seen_v = set()
    n_viol = 0
    for inst in viol:
        if inst.key in seen_v:
            continue
        seen_v.add(inst.key)
        n_viol += 1
        path = os.path.join(vdir, "%s-%s.json" % (prop, hashlib.sha256(inst.key.encode()).hexdigest()[:12]))
        if write_evidence:
            os.makedirs(vdir, exist_ok=True)
            with open(path, "w") as f:
                json.dump({"property_id": prop, "rule": inst.rule, "key": inst.key, "where": inst.where,
                           "what": inst.what, "detail": inst.detail, "config": inst.config, "tier": tier}, f, indent=1)
        out_lines.append("VIOLATION property=%s replay=%s" % (prop, path))
        out_lines.append("  rule=%s key=%s\n  at %s\n  %s" % (inst.rule, inst.key, inst.where, inst.what))
    wall = time.time() - t0
    if write_evidence:
        write_ev(prop, tier, seed, ctx, rep, mod, kf, n_viol, wall)
    if not quiet:
        ninst = len(rep.instances)
        nok = sum(1 for i in rep.instances if i.ok)
        print("%s [%s] configs=%s rules=%d instances=%d discharged=%d known=%d violations=%d wall=%.1fs" % (
            prop, tier, ",".join(ctx.configs_used), len({i.rule for i in rep.instances}), ninst, nok, len(seen_kf), n_viol, wall))
        for rule, label, count, floor in rep.floors:
            print("  floor %-14s %-50s %d >= %d" % (rule, label, count, floor))
        for l in out_lines:
            print(l)
    return (1 if n_viol else 0), rep, viol, kf


def write_ev(prop, tier, seed, ctx, rep, mod, kf, n_viol, wall):
    rules = {}
    for inst in rep.instances:
        r = rules.setdefault(inst.rule, {"id": inst.rule, "instances": 0, "discharged": 0, "sites": []})
        r["instances"] += 1
        r["discharged"] += 1 if inst.ok else 0
        if len(r["sites"]) < 6:
            r["sites"].append({"key": inst.key, "where": inst.where, "verdict": ("ok: " if inst.ok else "FAILS: ") + inst.what})
    for rule, label, count, floor in rep.floors:
        rules.setdefault(rule, {"id": rule, "instances": 0, "discharged": 0, "sites": []}).setdefault("floors", []).append(
            {"label": label, "count": count, "floor": floor})
    distinct = len({(i.rule, i.key) for i in rep.instances if i.nontrivial})
    samples = []
    for r in rules.values():
        for s in r["sites"][:2]:
            samples.append({"rule": r["id"], **s})
    ev = {
        "property_id": prop, "tier": tier, "seed": seed, "level": "other",
        "coverage": {
            "explanation": getattr(mod, "EXPLANATION", ""),
            "rules": list(rules.values()),
            "obligations": len(rep.instances),
            "discharged": sum(1 for i in rep.instances if i.ok),
            "evaluations": len(rep.instances),
            "distinct_nontrivial": distinct,
            "rule": "one instance = one (rule, site) obligation read off the type-checked MIR of /repo's current tree; "
                    "distinct = distinct (rule, key) pairs; keys omit line numbers",
            "samples": samples[:40],
            "configs": ctx.configs_used,
            "facts": ctx.fact_stats(),
            "functions_analysed": len(rep.functions),
            "functions_sample": sorted(rep.functions)[:25],
            "positive_controls": ctx.posctl_results,
            "known_findings": sorted({i.key for i in kf}),
            "notes": rep.notes,
            "checker_cmd": "./bin/verif check %s --tier %s" % (prop, tier),
            "trusted_base": ["rustc nightly MIR construction and trait resolution",
                             "driver/ fact dump fidelity (cross-checked by positive controls)"] + list(getattr(mod, "TRUSTED", [])),
            "exhaustive": bool(getattr(mod, "EXHAUSTIVE", False)),
            "not_decided": getattr(mod, "NOT_DECIDED", ""),
        },
        "assumptions": list(getattr(mod, "ASSUMPTIONS", [])),
        "wall_s": round(wall, 2),
        "violations": n_viol,
    }
    os.makedirs(os.path.join(VERIF, "evidence"), exist_ok=True)
    p = os.path.join(VERIF, "evidence", "%s.json" % prop)
    tmp = p + ".tmp%d" % os.getpid()
    with open(tmp, "w") as f:
        json.dump(ev, f, indent=1)
    os.replace(tmp, p)


class Ctx:
    def __init__(self, prop, tier, repo):
        self.prop = prop
        self.tier = tier
        self.repo = repo
        self.configs_used = []
        self.posctl_results = {}
        self._crates = {}

    def tera_configs(self):
        return THOROUGH_TERA if self.tier == "thorough" else QUICK_TERA

    inline = False

    def crate(self, config):
        if config not in self.configs_used:
            self.configs_used.append(config)
        c = load_crate(config, self.repo)
        self._crates[config] = c
        if self.inline:
            ic = self._inl.get(config) if hasattr(self, "_inl") else None
            if ic is None:
                if not hasattr(self, "_inl"):
                    self._inl = {}
                ic = self._inl[config] = engine.InlinedCrate(c)
            return ic
        return c

    def prefetch(self, configs):
        need = [c for c in configs]
        prefetch(need, self.repo)

    def posctl(self):
        return posctl_crate()

    def control(self, name, fired):
        """record a positive control; a control that does not fire breaks the check (fail closed)"""
        self.posctl_results[name] = "fired" if fired else "DID NOT FIRE"
        return fired

    def fact_stats(self):
        return {cfg: {"functions": len(c.bodies), "blocks": c.j["n_blocks"], "features": c.features}
                for cfg, c in self._crates.items()}

    def repo_file(self, rel):
        return os.path.join(self.repo, rel)


def main(argv):
    if len(argv) < 2:
        print(__doc__)
        return 2
    cmd = argv[1]
    if cmd == "setup":
        return cmd_setup()
    if cmd == "facts":
        for c in argv[2:] or ["tera:default"]:
            print(facts_path(c))
        return 0
    if cmd == "check":
        prop = argv[2].upper()
        tier = os.environ.get("VERIF_TIER", "quick")
        if "--tier" in argv:
            tier = argv[argv.index("--tier") + 1]
        rc, _, _, _ = run_check(prop, tier, write_evidence=(REPO == "/repo" and not os.environ.get("TV_NOEVIDENCE")))
        return rc
    if cmd == "explain":
        with open(argv[2]) as f:
            r = json.load(f)
        print(json.dumps(r, indent=1))
        print("--- re-running %s on the current tree ---" % r["property_id"])
        rc, rep, viol, kf = run_check(r["property_id"], r.get("tier", "quick"), write_evidence=False, quiet=True)
        hit = [i for i in viol + kf if i.key == r["key"]]
        if hit:
            for i in hit[:1]:
                print("STILL FAILS: %s at %s\n  %s" % (i.key, i.where, i.what))
            return 1
        print("no longer reported on the current tree")
        return 0
    if cmd == "selftest":
        import selftest
        return selftest.main(argv[2:])
    if cmd == "list":
        pdir = os.path.join(HERE, "props")
        for f in sorted(os.listdir(pdir)):
            if f.startswith("c") and f.endswith(".py"):
                print(f[:-3].upper())
        return 0
    print(__doc__)
    return 2


if __name__ == "__main__":
    sys.exit(main(sys.argv))
