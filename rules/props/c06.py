"""C06 — registering any source text ends in Ok or Err: no panic, hang or stack overflow."""
import re
from engine import (Tracer, EdgeFacts, find_aggs, find_calls, pl_str, pl_projs, callee_names, callee_def, name_matches,
                    AnchorMissing, leaf_call_is, leaf_str, iter_operands)
import rrec

EXPLANATION = (
    "Decides, on the type-checked MIR of the add path (parsing::*, template, tera, delimiters): (R-REC.parse) every call site "
    "that closes a recursion cycle is dominated by the within-limit edge of a depth counter tested against a constant, or is a "
    "structural recursion with a machine-checked witness (strict descent on the AST; visited-set graph walk); (R-DEPTH.ast) every "
    "loop that nests the expression built so far one level deeper per iteration charges a bounded depth budget on the wrapping path; "
    "(LEXPROG) every path around the tokenizer loop consumes input; (ERRKIND) lexer/parser only raise syntax errors, discharging "
    "Template::new's unreachable!; (DELIM) only validated 2-byte delimiters reach the lexer; (PATCH/JT) every placeholder jump is "
    "patched and every jump target comes from the chunk's own length/indices; (PANIC) the set of panic-capable sites is the reviewed "
    "set. NOT decided: that limit x frame size fits the thread's stack; the reasons behind the reviewed panic-site rows beyond the "
    "guards named; termination of std iterators.")
NOT_DECIDED = "stack sufficiency (limit x frame size); value-level reasons of reviewed panic sites"
ASSUMPTIONS = ["the thread's stack holds MAX_RECURSION_DEPTH + MAX_EXPRESSION_DEPTH + MAX_ELIF_DEPTH nested frames of the parser/compiler",
               "std iterator adaptors (take_while, position, windows, chars) terminate on finite input"]

PARSE_FILES = ("parsing/parser.rs", "parsing/lexer.rs", "parsing/compiler.rs", "parsing/ast.rs", "parsing/instructions.rs",
               "template.rs", "tera.rs", "delimiters.rs")
AST_MARKERS = ("parsing::ast::",)

STRUCTURAL = {
    "template::check_include_cycles::walk->template::check_include_cycles::walk":
        ("include-graph walk over registered templates", "membership"),
    "template::find_parents->template::find_parents":
        ("extends-chain walk over registered templates", "membership"),
    re.compile(r"^parsing::compiler::Compiler::compile_(expr|node|block|kwargs|map_entries)->parsing::compiler::Compiler::compile_(expr|node|block|kwargs|map_entries)$"):
        ("bytecode compiler recursion over the AST, whose depth the parser bounds (R-DEPTH.ast, R-REC.parse guards)", "descent"),
    re.compile(r"^<parsing::ast::\w+ as std::fmt::(Display|Debug)>::fmt-><parsing::ast::\w+ as std::fmt::(Display|Debug)>::fmt$"):
        ("AST pretty-printer recursion over the AST", "descent"),
}


def run(ctx, rep):
    for cfg in ctx.tera_configs():
        crate = ctx.crate(cfg)
        check_rec(crate, rep, cfg)
        check_depth_ast(crate, rep, cfg)
        check_lexprog(crate, rep, cfg)
        check_parseprog(crate, rep, cfg)
        import rpanic
        rpanic.check(crate, rep, "R-PANIC.parse", ("parsing/lexer.rs", "parsing/parser.rs", "parsing/compiler.rs", "parsing/instructions.rs", "template.rs", "tera.rs", "delimiters.rs"), cfg, 40)
    pos = ctx.posctl()
    # positive controls: unguarded self-recursion and an uncharged loop-carried wrap must be flagged
    from engine import Report
    r2 = Report("posctl")
    cg = rrec.CallGraph(pos)
    scope = {pos.root_of(b).path for b in pos.in_files("recctl.rs")}
    rrec.analyse(pos, cg, scope, r2, "R-REC.ctl", {}, "posctl", ("recctl::Tree",))
    fired_rec = any((not i.ok) and "P::unguarded->" in i.key for i in r2.instances) and \
        not any((not i.ok) and "P::guarded" in i.key for i in r2.instances)
    wraps = []
    for b in pos.in_files("recctl.rs"):
        wraps += [(b, w) for w in uncharged_wraps(b, pos, ("recctl::Tree",), set())]
    fired_depth = any(b.path.endswith("P::wrap_loop") for b, w in wraps)
    ok1 = ctx.control("R-REC", fired_rec)
    ok2 = ctx.control("R-DEPTH.ast", fired_depth)
    if not (ok1 and ok2):
        raise AnchorMissing("positive control did not fire: R-REC=%s R-DEPTH.ast=%s" % (fired_rec, fired_depth))


def check_rec(crate, rep, cfg):
    cg = rrec.CallGraph(crate)
    scope = {crate.root_of(b).path for b in crate.in_files(*PARSE_FILES)}
    for p in scope:
        rep.analysed(p)
    before = len(rep.instances)
    rrec.analyse(crate, cg, scope, rep, "R-REC.parse", STRUCTURAL, cfg, AST_MARKERS)
    guarded = [i for i in rep.instances[before:] if i.key.endswith(":guarded")]
    rep.floor("R-REC.parse", "guard-dominated recursive call sites on the add path [%s]" % cfg, len(guarded), 5)
    rep.floor("R-REC.parse", "functions in scope [%s]" % cfg, len(scope), 150)


def uncharged_wraps(body, crate, markers, charge_fns):
    """wrap sites that lie on a CFG cycle avoiding every charge call"""
    out = []
    for loop, cyc, wraps in rrec.loop_carried_wraps(body, markers):
        charge_blocks = {bb for bb, t in find_calls(body, list(charge_fns))} if charge_fns else set()
        rest = set(loop) - charge_blocks
        # nontrivial SCCs of the loop minus the charge blocks
        comps = [set(c) for c in body.sccs(within=rest) if len(c) > 1 or c[0] in [s for s in body.succ[c[0]] if s in rest]]
        for (bb, i, k) in wraps:
            if any(bb in c for c in comps):
                out.append((bb, i, k))
    return out


def check_depth_ast(crate, rep, cfg):
    charge = {}
    for b in crate.in_files("parsing/parser.rs"):
        if b.kind == "closure":
            continue
        info = rrec.is_charge_fn(b, crate)
        if info:
            charge[b.path] = info
    rep.floor("R-DEPTH.ast", "depth-charge functions (increment a field, Err beyond a constant) [%s]" % cfg, len(charge), 1)
    for p, info in charge.items():
        rep.ok("R-DEPTH.ast", "R-DEPTH.ast:charge-fn:%s" % p, crate.bodies[p].where(0),
               "charge function: increments %s and returns Err beyond %s; never decrements" % (info["fields"], info["limit"]))
        # the counter is only reset by guard functions (mem::take / assignment) — list the writers
    n_loops = 0
    for b in crate.in_files("parsing/parser.rs"):
        lw = rrec.loop_carried_wraps(b, AST_MARKERS)
        if not lw:
            continue
        rep.analysed(b)
        bad = uncharged_wraps(b, crate, AST_MARKERS, set(charge))
        allw = set()
        for loop, cyc, wraps in lw:
            n_loops += 1
            for w in wraps:
                allw.add(w)
        badset = set(bad)
        ordn = 0
        for (bb, i, k) in sorted(allw, key=lambda w: (w[0], str(w[1]))):
            # key by what is wrapped (aggregate variant or callee), not by position
            if k == "agg":
                rv = b.blocks[bb]["s"][i]["rv"]
                sig = "agg:%s::%s" % (rv.get("adt", rv.get("ak")), rv.get("variant", ""))
            else:
                sig = k
            key = "R-DEPTH.ast:%s:%s" % (b.path, sig)
            what = ("loop-carried wrap (each iteration nests the expression built so far one level deeper) is on no loop cycle that "
                    "avoids a depth-charge call")
            if (bb, i, k) in badset:
                rep.bad("R-DEPTH.ast", key, b.where(bb, i), what + " — VIOLATED: a chain of this construct deepens the AST without bound; "
                        "the AST is later walked recursively (compile, drop) => stack overflow at add time")
            else:
                rep.ok("R-DEPTH.ast", key, b.where(bb, i), what)
    rep.floor("R-DEPTH.ast", "loops with a loop-carried AST wrap in the parser [%s]" % cfg, n_loops, 2)


# ----------------------------------------------------------------------------------------------------------------
# C06.LEXPROG / C06.PARSEPROG — every loop makes progress

ITER_NEXT = ["std::iter::Iterator::next"]


def option_exit_calls(body, loop):
    """calls inside `loop` whose Option result is discriminated by a switch in `loop` with an edge leaving the loop.
    Returns list of (call bb, call term, receiver operand)."""
    ef = EdgeFacts(body, body.crate)
    tr = Tracer(body)
    out = []
    for sb in loop:
        t = body.term(sb)
        if t["k"] != "switch" or t["op"]["k"] == "const" or t["op"]["pl"]["p"]:
            continue
        if all(s in loop for s in body.succ[sb]):
            continue
        d = ef.single_def(t["op"]["pl"]["l"])
        if d is None or d[3]["k"] != "discr" or d[3]["adt"] not in ("std::option::Option", "std::ops::ControlFlow"):
            continue
        for l in tr.place(d[3]["pl"]):
            if l.kind == "call" and l.detail[2] in loop and not [p for p in l.projs if not p.startswith("via:")]:
                out.append((l.detail[2], body.term(l.detail[2])))
    return out


def classify_loop(body, loop, progress_blocks=frozenset()):
    """returns (kind, detail) with kind in iterator|strip_prefix|scan|None"""
    tr = Tracer(body)
    exits = option_exit_calls(body, loop)
    for cb, ct in exits:
        names = callee_names(ct)
        if any(name_matches(n, ITER_NEXT) for n in names):
            # the iterator must be created outside the loop
            recv = tr.operand(ct["args"][0])
            created_in = [l for l in recv if l.kind == "call" and l.detail[2] in loop]
            if not created_in:
                return ("iterator", "exit on None of %s over an iterator created outside the loop" % ct["f"].get("inst", callee_def(ct))[:90])
        if any("strip_prefix" in n for n in names):
            # receiver local re-assigned from the Some payload inside the loop
            dest = ct["dest"]["l"]
            recv_locals = {l.detail for l in tr.operand(ct["args"][0]) if l.kind in ("param",)}
            for bb in loop:
                for s in body.blocks[bb]["s"]:
                    if s["k"] == "assign" and not s["pl"]["p"]:
                        src = tr._rv(s["rv"], (), set(), 0, bb, 0) if s["rv"]["k"] in ("use", "ref") else set()
                        if any(l.kind == "call" and l.detail[2] == cb and "as:Some" in l.projs for l in src):
                            return ("strip_prefix", "receiver re-assigned from the Some payload of strip_prefix: strictly shorter each iteration")
        if any(n.endswith("lexer::memstr") for n in names):
            # scan offset strictly increases: offset = offset + (found + 2)
            for bb in loop:
                for s in body.blocks[bb]["s"]:
                    if s["k"] == "assign" and s["rv"]["k"] == "bin" and s["rv"]["op"] in ("AddWithOverflow", "Add"):
                        rv = s["rv"]
                        if rv["r"]["k"] == "const" and rv["r"].get("v") not in (None, "0"):
                            ll = tr.operand(rv["l"])
                            if any(l.kind == "call" and l.detail[2] == cb and "as:Some" in l.projs for l in ll):
                                return ("scan", "offset advances by found + %s each iteration (memstr over a shrinking suffix)" % rv["r"].get("v"))
    return (None, "")


def split_progress_blocks(body, upvar_place):
    """blocks that assign the captured `rest` from the second component of a split_at result"""
    tr = Tracer(body)
    out = set()
    for bb, idx, s in body.stmts():
        if idx == "t" or s["k"] != "assign" or pl_str(s["pl"]) != upvar_place:
            continue
        src = tr._rv(s["rv"], (), set(), 0, bb, idx)
        if src and all(l.kind == "call" and leaf_call_is(l, "core::str::<impl str>::split_at") and ".1" in l.projs for l in src):
            out.add(bb)
    return out


def check_lexprog(crate, rep, cfg):
    n_loops = 0
    for b in crate.in_files("parsing/lexer.rs"):
        loops = b.loops()
        if not loops:
            continue
        rep.analysed(b)
        rest_place = None
        if b.kind == "closure":
            for u in b.j.get("upvars", []):
                if u["n"] == "rest" or (rest_place is None and isinstance(u["pl"]["p"][-1], dict) and u["pl"]["p"][-1].get("t") == "&str"):
                    rest_place = pl_str(u["pl"])
        prog = split_progress_blocks(b, rest_place) if rest_place else set()
        counts = {}
        for loop in loops:
            n_loops += 1
            kind, detail = classify_loop(b, loop)
            head = min(loop)
            if kind is None and prog & loop:
                # tokenizer main loop: without the consuming blocks no cycle may remain except recognised inner loops
                rest = loop - prog
                inner = [set(c) for c in b.sccs(within=rest) if len(c) > 1 or c[0] in b.succ[c[0]]]
                bad_inner = [c for c in inner if classify_loop(b, c)[0] is None]
                kind = "consume" if not bad_inner else None
                detail = ("every cycle through the loop assigns the captured input `rest` from split_at(..).1 (%d consuming block(s); "
                          "%d inner iterator loop(s))" % (len(prog & loop), len(inner)))
                if bad_inner:
                    detail = "a cycle at %s avoids every `rest = split_at(..).1` assignment" % b.where(min(bad_inner[0]))
            n = counts.get(kind, 0)
            counts[kind] = n + 1
            key = "C06.LEXPROG:%s:%s#%d" % (b.path, kind or "unrecognised", n)
            what = "loop makes progress on every iteration"
            if kind is None:
                rep.bad("C06.LEXPROG", key, b.where(head), what + " — VIOLATED: no recognised progress (iterator exhaustion, strip_prefix shrink, "
                        "scan offset increase, or input consumption on every cycle): the tokenizer can hang. " + detail)
            else:
                rep.ok("C06.LEXPROG", key, b.where(head), what + " [%s: %s]" % (kind, detail))
        # non-zero consumption on the two pure-skip paths of the main loop
    rep.floor("C06.LEXPROG", "loops in parsing::lexer [%s]" % cfg, n_loops, 29)


def consuming_functions(crate):
    """fixpoint: parser functions that consume at least one token on every non-error path to return"""
    bodies = [b for b in crate.in_files("parsing/parser.rs") if b.kind != "closure" and "Parser" in b.path]
    base = [b.path for b in bodies if b.path.endswith("::next")]
    consuming = set(base)
    changed = True
    while changed:
        changed = False
        for b in bodies:
            if b.path in consuming:
                continue
            if must_consume(b, consuming):
                consuming.add(b.path)
                changed = True
    return consuming, base


def error_exit_blocks(body):
    out = set()
    for bb, idx, s in body.stmts():
        if idx == "t":
            if s["k"] == "call" and s["dest"]["l"] == 0 and any(name_matches(n, ["std::ops::FromResidual::from_residual"]) for n in callee_names(s)):
                out.add(bb)
        elif s["k"] == "assign" and s["pl"]["l"] == 0 and not s["pl"]["p"]:
            rv = s["rv"]
            if rv["k"] == "agg" and rv.get("adt") == "std::result::Result" and rv.get("variant") == "Err":
                out.add(bb)
    return out


def consuming_call_blocks(body, consuming):
    out = set()
    for bb, t in body.calls():
        f = t["f"]
        if f.get("indirect"):
            continue
        tgt = f.get("res") or f["def"]
        if tgt in consuming or f["def"] in consuming:
            out.add(bb)
    return out


def must_consume(body, consuming):
    removed = consuming_call_blocks(body, consuming) | error_exit_blocks(body)
    if 0 in removed:
        return 0 in consuming_call_blocks(body, consuming)
    reach = body.reach_from(0, removed_blocks=frozenset(removed))
    return not any(body.term(bb)["k"] == "return" for bb in reach)


def check_parseprog(crate, rep, cfg):
    consuming, base = consuming_functions(crate)
    if not base:
        rep.anchor_missing("C06.PARSEPROG", "Parser::next")
        return
    rep.floor("C06.PARSEPROG", "token-consuming parser functions (fixpoint from Parser::next) [%s]" % cfg, len(consuming), 15)
    n_loops = 0
    for b in crate.in_files("parsing/parser.rs"):
        loops = b.loops()
        if not loops:
            continue
        rep.analysed(b)
        cblocks = consuming_call_blocks(b, consuming)
        counts = {}
        for loop in loops:
            n_loops += 1
            head = min(loop)
            rest = loop - cblocks
            inner = [set(c) for c in b.sccs(within=rest) if len(c) > 1 or c[0] in b.succ[c[0]]]
            bad_inner = [c for c in inner if classify_loop(b, c)[0] is None]
            kind, detail = (None, "")
            if cblocks & loop and not bad_inner:
                kind, detail = "consume", "every cycle passes a call that consumes a token (%d consuming call block(s))" % len(cblocks & loop)
            elif not (cblocks & loop):
                kind, detail = classify_loop(b, loop)
            n = counts.get(kind, 0)
            counts[kind] = n + 1
            key = "C06.PARSEPROG:%s:%s#%d" % (b.path, kind or "unrecognised", n)
            what = "parser loop makes progress on every iteration"
            if kind is None:
                where = b.where(min(bad_inner[0])) if bad_inner else b.where(head)
                rep.bad("C06.PARSEPROG", key, where, what + " — VIOLATED: a cycle consumes no token and is not an iterator loop: the parser can hang on some input")
            else:
                rep.ok("C06.PARSEPROG", key, b.where(head), what + " [%s: %s]" % (kind, detail))
    rep.floor("C06.PARSEPROG", "loops in parsing::parser [%s]" % cfg, n_loops, 12)
